"""Self-test corpus: one edit recipe per rule instance (DESIGN 3.11).  Each recipe is (property, name, file, old, new):
a literal replacement that must match exactly once in /repo's CURRENT sources (a recipe whose anchor vanished is skipped
and counted).  The mutant only has to type-check; it is never run.  A thorough check applies every recipe of its property
(and every seeded change stored under seeded/<property>-k/) to a scratch copy and requires the rule set to FAIL."""

R = []


def r(prop, name, file, old, new):
    R.append(dict(prop=prop, name=name, file=file, old=old, new=new))


G = "lib/getfilecontents.c"
L = "lib/libeconf.c"
M = "lib/mergefiles.c"
K = "lib/keyfile.c"
H = "lib/helpers.c"
RC = "lib/readconfig.c"
X = "lib/libeconf_ext.c"
U = "util/econftool.c"

# ---- C01 ------------------------------------------------------------------------------------------------------------
r("C01", "main scan ascending", RC, "for (int i = parse_dirs_count; i > 0; i--)", "for (int i = 1; i <= parse_dirs_count; i++)")
r("C01", "no break after first main file", RC, "	  *size = 1;\n          break;", "	  *size = 1;")
r("C01", "drop-in layers descending", RC, "for (int i = 0; i < parse_dirs_count; i++) {", "for (int i = parse_dirs_count - 1; i >= 0; i--) {")
r("C01", "versionsort", M, "scandir(path, &de, NULL, alphasort)", "scandir(path, &de, NULL, versionsort)")
r("C01", "no comparator", M, "scandir(path, &de, NULL, alphasort)", "scandir(path, &de, NULL, NULL)")
r("C01", "suffix compare inverted", M, "config_suffix, lensuffix) == 0) {", "config_suffix, lensuffix) != 0) {")
r("C01", "prefix compare", M, "strncmp(de[i]->d_name + lenstr - lensuffix, config_suffix, lensuffix)", "strncmp(de[i]->d_name, config_suffix, lensuffix)")
r("C01", "length guard reversed", M, "if (lensuffix < lenstr &&", "if (lensuffix > lenstr &&")
r("C01", "mask scan from current element", M, "econf_file **double_key_files = key_files+1;", "econf_file **double_key_files = key_files;")
r("C01", "merge arguments swapped", M, "error = econf_mergeFiles(merged_files, *merged_files, *key_files);", "error = econf_mergeFiles(merged_files, *key_files, *merged_files);")
r("C01", "layers 0 and 2 swapped", L, "    (*key_file)->parse_dirs[0] = strdup(usr_dir);\n    (*key_file)->parse_dirs[1] = strdup(run_dir);\n    (*key_file)->parse_dirs[2] = strdup(etc_dir);",
  "    (*key_file)->parse_dirs[0] = strdup(etc_dir);\n    (*key_file)->parse_dirs[1] = strdup(run_dir);\n    (*key_file)->parse_dirs[2] = strdup(usr_dir);")
r("C01", "empty result is success", RC, "    free(*key_files);\n    *key_files = NULL;\n    return ECONF_NOFILE;\n  }\n\n  return ECONF_SUCCESS;",
  "    free(*key_files);\n    *key_files = NULL;\n    return ECONF_SUCCESS;\n  }\n\n  return ECONF_SUCCESS;")
r("C01", "empty main file skipped", RC, "       if (error == ECONF_SUCCESS)\n       {", "       if (error == ECONF_SUCCESS && key_file->length > 0)\n       {")
r("C01", "revert D12", L, "  if (key_file == NULL ||\n      ((config_name == NULL || strlen(config_name) == 0) &&\n       (project == NULL || strlen(project) == 0)))\n    return ECONF_ARGUMENT_IS_NULL_VALUE;\n", "")
r("C01", "run layer from /etc", L, '      snprintf(run_dir, sizeof(run_dir), "%s%s", (*key_file)->root_prefix, DEFAULT_RUN_SUBDIR);', '      snprintf(run_dir, sizeof(run_dir), "%s%s", (*key_file)->root_prefix, DEFAULT_ETC_SUBDIR);')
r("C01", "project missing in the /run layer under a root prefix", L, '      snprintf(run_dir, sizeof(run_dir), "%s/%s/%s", (*key_file)->root_prefix, DEFAULT_RUN_SUBDIR, project);', '      snprintf(run_dir, sizeof(run_dir), "%s/%s", (*key_file)->root_prefix, DEFAULT_RUN_SUBDIR);')
# ---- C03 ----------------------------------------------------------------------------------------------------------------
r("C03", "shared key", H, "copied_fe.key = strdup(fe.key);", "copied_fe.key = fe.key;")
r("C03", "copy forgets a field", H, "  if (fe.comment_after_value)\n    copied_fe.comment_after_value = strdup(fe.comment_after_value);\n  else\n    copied_fe.comment_after_value = NULL;  ", "")
r("C03", "override value from the base", M, '(*fe)[merge_length].value = ef->file_entry[j].value ? strdup(ef->file_entry[j].value) : strdup("");',
  '(*fe)[merge_length].value = strdup(uf->file_entry[i].value ? uf->file_entry[i].value : "");')
r("C03", "helper frees an input value", M, "	  free((*fe)[merge_length].value);", "	  free(uf->file_entry[i].value);")
r("C03", "capacity from one input", L, "malloc((etc_file->length + usr_file->length) * sizeof(struct file_entry))", "malloc((usr_file->length + 1) * sizeof(struct file_entry))")
r("C03", "duplicate key inserted", M, "	    new_key = false;\n	    break;", "	    new_key = true;\n	    break;")
r("C03", "block move one too many", M, "(added_keys - pos) * sizeof(struct file_entry));", "(added_keys - pos + 1) * sizeof(struct file_entry));")
r("C03", "override-only key inserted in front of the section's last key", M, "	  pos = k + 1;", "	  pos = k;")
r("C03", "new sections inserted at the old end", M, "? added_keys : 0;", "? merge_length : 0;")
# ---- C04 ----------------------------------------------------------------------------------------------------------------
r("C04", "float getter loses NULL test", K, "  if (key_file.file_entry[num].value == NULL)\n    return ECONF_KEY_HAS_NULL_VALUE;\n  errno = 0;\n  *result = strtof", "  errno = 0;\n  *result = strtof")
r("C04", "value trim loses its bound", G, "      while (p > data && (isspace((unsigned)*p)))\n	p--;", "      while (isspace((unsigned)*p))\n	p--;")
r("C04", "realloc result ignored", K, "    kf->file_entry =\n      realloc(kf->file_entry, (kf->alloc_length) * sizeof(struct file_entry));", "    realloc(kf->file_entry, (kf->alloc_length) * sizeof(struct file_entry));")
r("C04", "blank skip may not advance", G, "    while (*name && isspace((unsigned)*name))\n      name++;", "    while (*name && isspace((unsigned)*name))\n      if (*name != 9) name++;")
r("C04", "previous entry without i test", L, "    if (!i || strcmp(key_file->file_entry[i - 1].group,", "    if (strcmp(key_file->file_entry[i - 1].group,")
r("C04", "revert D20", G, 'content ? content : "", value);', "content, value);")
r("C04", "revert D2", G, "	if( org_len > 0 && org_buf[org_len-1] == '\\n' )", "	if( org_buf[org_len-1] == '\\n' )")
r("C04", "trim order swapped", X, "  return rtrim(ltrim(s));", "  return ltrim(rtrim(s));")
r("C04", "merge shrink without guard", M, "    if (added_keys > 0)\n      *fe = realloc(*fe, (added_keys) * sizeof(struct file_entry));", "    *fe = realloc(*fe, (added_keys) * sizeof(struct file_entry));")
r("C04", "rtrim without the empty-string exit", X, "  if (strlen(s)<=0)\n    return s;\n", "")
# ---- C05 ----------------------------------------------------------------------------------------------------------------
r("C05", "comment test on the raw buffer", G, "    if (*name && strchr(comment, *name) != NULL) {", "    if (*buf && strchr(comment, *buf) != NULL) {")
r("C05", "comment branch falls through", G, "	current_comment_before_key = strdup(name+1);\n      }\n      continue;", "	current_comment_before_key = strdup(name+1);\n      }\n      *name = 0;")
r("C05", "only first comment character", G, "    if (*name && strchr(comment, *name) != NULL) {", "    if (*name && *name == comment[0]) {")
r("C05", "python continuation before comment test", G, "    if (*name && strchr(comment, *name) != NULL) {", "    if (!(ef->python_style && ef->length > 0 && isspace(*buf)) && *name && strchr(comment, *name) != NULL) {")
# ---- C06 ----------------------------------------------------------------------------------------------------------------
r("C06", "drop-ins not checked", M, "	error = read_file_with_callback(&key_file, file_path, delim, comment,\n					callback, callback_data);", "	error = read_file_with_callback(&key_file, file_path, delim, comment,\n					NULL, callback_data);")
r("C06", "callback data dropped", M, "	error = read_file_with_callback(&key_file, file_path, delim, comment,\n					callback, callback_data);", "	error = read_file_with_callback(&key_file, file_path, delim, comment,\n					callback, NULL);")
r("C06", "rejection swallowed for later dirs", M, "    if (error)\n      return error;\n  }\n  return ECONF_SUCCESS;\n}\n\neconf_err merge_econf_files", "    if (error && error != ECONF_PARSING_CALLBACK_FAILED)\n      return error;\n  }\n  return ECONF_SUCCESS;\n}\n\neconf_err merge_econf_files")
r("C06", "callback sees basename", G, "!(*callback)(file_name, callback_data))", "!(*callback)(basename(file_name), callback_data))")
r("C06", "callback result ignored", G, "  if (callback != NULL && !(*callback)(file_name, callback_data))\n    return ECONF_PARSING_CALLBACK_FAILED;", "  if (callback != NULL)\n    (*callback)(file_name, callback_data);")
r("C06", "rejection returns success", G, "    return ECONF_PARSING_CALLBACK_FAILED;", "    return ECONF_SUCCESS;")
r("C06", "second reader", M, "        free(file_path);\n        if(!error && key_file) {", "        { FILE *probe = fopen(file_path, \"r\"); if (probe) fclose(probe); }\n        free(file_path);\n        if(!error && key_file) {")
r("C06", "revert D16", M, "	  econf_free(key_file);\n	  for (int k = i; k < num_dirs; k++)", "	  for (int k = i; k < num_dirs; k++)")
r("C06", "revert D33 (object handed back by a failed econf_readDirsWithCallback)", L, "			       callback, callback_data);\n  if (ret != ECONF_SUCCESS)\n    *result = econf_free(*result); /* nothing is handed back if reading fails */\n  return ret;", "			       callback, callback_data);\n  return ret;")
# ---- C07 ----------------------------------------------------------------------------------------------------------------
r("C07", "fixed delimiter", L, 'fprintf(kf, "%s%c", key_file->file_entry[i].key, key_file->delimiter);', 'fprintf(kf, "%s=", key_file->file_entry[i].key);')
r("C07", "fixed comment prefix", L, '	fprintf(kf, "%c%s\\n",\n		key_file->comment,\n		line);', '	fprintf(kf, "#%s\\n",\n		line);')
r("C07", "quotes never written", L, '      if (key_file->file_entry[i].quotes)\n	fprintf(kf, "\\"%s\\"", key_file->file_entry[i].value);\n      else\n	fprintf(kf, "%s", key_file->file_entry[i].value);', '	fprintf(kf, "%s", key_file->file_entry[i].value);')
r("C07", "header from previous entry", L, "char *group = addbrackets(key_file->file_entry[i].group);", "char *group = addbrackets(key_file->file_entry[i ? i - 1 : 0].group);")
r("C07", "empty value skipped", L, "    if (key_file->file_entry[i].value != NULL) {", "    if (key_file->file_entry[i].value != NULL && *key_file->file_entry[i].value) {")
r("C07", "reader takes second delimiter", G, "  ef->delimiter = *delim;", "  ef->delimiter = delim[1] ? delim[1] : delim[0];")
r("C07", "header only for first entry", L, "    if (!i || strcmp(key_file->file_entry[i - 1].group,\n                     key_file->file_entry[i].group)) {", "    if (!i) {")
# ---- C08 ----------------------------------------------------------------------------------------------------------------
r("C08", "FLT_DIG", K, "#define PRFLOAT ,FLT_DECIMAL_DIG", "#define PRFLOAT ,FLT_DIG")
r("C08", "fixed notation", K, 'econf_setValueNum(Double, double, "%.*g", PRDOUBLE)', 'econf_setValueNum(Double, double, "%.*f", PRDOUBLE)')
r("C08", "unsigned printed signed", K, 'econf_setValueNum(UInt64, uint64_t, "%", PRIu64)', 'econf_setValueNum(UInt64, uint64_t, "%", PRId64)')
r("C08", "64 bit printed as 32", K, 'econf_setValueNum(Int64, int64_t, "%",  PRId64)', 'econf_setValueNum(Int64, int64_t, "%",  PRId32)')
r("C08", "uint64 through strtoll", K, "  *result = strtoull(key_file.file_entry[num].value, &endptr, 0);", "  *result = strtoll(key_file.file_entry[num].value, &endptr, 0);")
r("C08", "float through strtod", K, "  *result = strtof(key_file.file_entry[num].value, &endptr);", "  *result = (float) strtod(key_file.file_entry[num].value, &endptr);")
r("C08", "revert D32", K, "      (errno == ERANGE && (*result == HUGE_VAL || *result == -HUGE_VAL)) ||", "      errno == ERANGE ||")
r("C08", "errno not cleared", K, "  errno = 0;\n  *result = strtoll", "  *result = strtoll")
# ---- C09 ----------------------------------------------------------------------------------------------------------------
r("C09", "revert D6 (uint)", K, " ||\n      value > UINT32_MAX)", ")")
r("C09", "revert D6 (int)", K, " ||\n      value < INT32_MIN || value > INT32_MAX)", ")")
r("C09", "revert D7", K, "  if (*sign == '-')\n    return ECONF_VALUE_CONVERSION_ERROR;\n  errno = 0;\n  unsigned long value", "  (void) sign;\n  errno = 0;\n  unsigned long value")
r("C09", "revert D8 (double)", K, "  if (key_file.file_entry[num].value == NULL)\n    return ECONF_KEY_HAS_NULL_VALUE;\n  errno = 0;\n  *result = strtod", "  errno = 0;\n  *result = strtod")
r("C09", "base 10", K, "strtoll(key_file.file_entry[num].value, &endptr, 0)", "strtoll(key_file.file_entry[num].value, &endptr, 10)")
r("C09", "ERANGE test dropped", K, "  if (endptr == key_file.file_entry[num].value || errno == ERANGE || (errno != 0 && *result == 0))\n    return ECONF_VALUE_CONVERSION_ERROR;\n  return ECONF_SUCCESS;\n}\n\neconf_err getUIntValueNum",
  "  if (endptr == key_file.file_entry[num].value || (errno != 0 && *result == 0))\n    return ECONF_VALUE_CONVERSION_ERROR;\n  return ECONF_SUCCESS;\n}\n\neconf_err getUIntValueNum")
r("C09", "on accepted as true", K, '!strcmp(value, "yes") ||', '!strcmp(value, "yes") || !strcmp(value, "on") ||')
r("C09", "bool by hash", K, '  if (!strcmp(value, "1") || !strcmp(value, "yes") || !strcmp(value, "true"))', '  if (!strcmp(value, "1") || hashstring(value) == YES || !strcmp(value, "true"))')
r("C09", "default masks conversion error", "lib/get_value_def.c", "  if (error == ECONF_NOKEY) \\\n    *result = STRDUP(def);  \\\n  return error; \\", "  if (error == ECONF_NOKEY || error == ECONF_KEY_HAS_NULL_VALUE) { \\\n    *result = STRDUP(def);  \\\n    error = ECONF_SUCCESS; } \\\n  return error; \\")
# ---- C10 ----------------------------------------------------------------------------------------------------------------
r("C10", "revert D10", K, "  value = toLowerCase(tmp); /* the private lower-case copy: a getter must not edit the stored text */", "  value = toLowerCase(tmp); toLowerCase(key_file.file_entry[num].value);")
r("C10", "brackets stripped in the caller's string", L, "  char *grp = group ? strdup(group) : NULL; \\\n  econf_err error = find_key(*kf, stripbrackets(grp), key, &num); \\\n  free(grp); \\", "  char *grp = (char*) group; \\\n  econf_err error = find_key(*kf, stripbrackets(grp), key, &num); \\")
r("C10", "writer splits the stored comment", L, "      char *buf = strdup(key_file->file_entry[i].comment_before_key);", "      char *buf = key_file->file_entry[i].comment_before_key;")
r("C10", "extended getter trims stored text", X, "  char *value_string = NULL;\n  getStringValueNum(*kf, num, &value_string);", "  char *value_string = kf->file_entry[num].value ? strdup(trim(kf->file_entry[num].value)) : NULL;")
# ---- C11 ----------------------------------------------------------------------------------------------------------------
r("C11", "last match wins", H, "      free(grp);\n      *num = i;\n      return ECONF_SUCCESS;", "      *num = i;")
r("C11", "lookup over allocated slots", H, "for (size_t i = 0; i < key_file.length; i++) {", "for (size_t i = 0; i < key_file.alloc_length; i++) {")
r("C11", "growth test >", K, "if(kf->length++ >= kf->alloc_length)", "if(kf->length++ > kf->alloc_length)")
r("C11", "default on every error", "lib/get_value_def.c", "  if (error == ECONF_NOKEY) \\", "  if (error != ECONF_SUCCESS) \\")
r("C11", "keys filtered by prefix", L, "if (!strcmp(kf->file_entry[i].group, group)) {", "if (!strncmp(kf->file_entry[i].group, group, 1)) {")
r("C11", "section always appended", H, "  char *ret = getFromGroupList(key_file, name);\n  if (ret != NULL)\n    return ret;", "  char *ret = NULL;")
r("C11", "setter without bracket stripping", L, "setKeyValue(set ## TYPE ## ValueNum, kf, stripbrackets(grp), key, VALARG); \\", "setKeyValue(set ## TYPE ## ValueNum, kf, grp, key, VALARG); \\")
r("C11", "empty section name is not the marker in getKeys", L, "char *group = (!grp || !*grp) ? strdup(KEY_FILE_NULL_VALUE) : strdup(grp);", "char *group = (!grp) ? strdup(KEY_FILE_NULL_VALUE) : strdup(grp);")
r("C11", "marker choice dereferences NULL in new_key", H, "  char *grp = (!group || !*group) ? strdup(KEY_FILE_NULL_VALUE) : strdup(group);\n  if (grp == NULL)\n    return ECONF_NOMEM;\n  if (key_file == NULL",
  "  char *grp = (!*group) ? strdup(KEY_FILE_NULL_VALUE) : strdup(group);\n  if (grp == NULL)\n    return ECONF_NOMEM;\n  if (key_file == NULL")
r("C11", "NULL object test removed", L, "  if (!kf) \\\n    return ECONF_ERROR; \\\n\\\n  size_t num; \\", "  size_t num; \\")
r("C11", "empty key accepted by setters", L, "  if (!key || strlen(key)<= 0)	    \\\n    return ECONF_EMPTYKEY; \\", "  if (!key)	    \\\n    return ECONF_EMPTYKEY; \\")
# ---- C12 ----------------------------------------------------------------------------------------------------------------
r("C12", "delim and comment swapped in one wrapper", L, "						config_suffix, delim, comment,\n						false, false, /*join_same_entries, python_style*/\n						conf_dirs, conf_count,\n						NULL, NULL);",
  "						config_suffix, comment, delim,\n						false, false, /*join_same_entries, python_style*/\n						conf_dirs, conf_count,\n						NULL, NULL);")
r("C12", "history with join option", L, "						false, false, /*join_same_entries, python_style*/\n						conf_dirs, conf_count,\n						NULL, NULL);", "						true, false, /*join_same_entries, python_style*/\n						conf_dirs, conf_count,\n						NULL, NULL);")
r("C12", "own list chosen when empty", RC, "  if ((*result)->conf_count > 0) {", "  if ((*result)->conf_count >= 0) {")
r("C12", "readConfig ignores econf_set_conf_dirs", L, "			       comment,\n			       conf_dirs,\n			       conf_count,\n			       callback,\n			       callback_data);", "			       comment,\n			       (*key_file)->conf_dirs,\n			       (*key_file)->conf_count,\n			       callback,\n			       callback_data);")
# ---- C13 ----------------------------------------------------------------------------------------------------------------
r("C13", "bracket codes swapped", G, "	  retval = ECONF_MISSING_BRACKET;\n	else\n	  retval = ECONF_TEXT_AFTER_SECTION;", "	  retval = ECONF_TEXT_AFTER_SECTION;\n	else\n	  retval = ECONF_MISSING_BRACKET;")
r("C13", "location record not updated", G, "    line++;\n    last_scanned_line_nr = line;\n", "    line++;\n")
r("C13", "record updated after section handling", G, "    line++;\n    last_scanned_line_nr = line;\n", "    line++;\n    if (buf[0] != '[') last_scanned_line_nr = line;\n")
r("C13", "message table one short", "lib/econf_error.c", '  "Value cannot be converted", /* ECONF_VALUE_CONVERSION_ERROR */\n', "")
r("C13", "fopen failure is a generic error", G, "  if (kf == NULL)\n    return ECONF_NOFILE;", "  if (kf == NULL)\n    return ECONF_ERROR;")
r("C13", "join result overwrites the parse error", G, "    join_same_entries(ef);", "    retval = join_same_entries(ef);")
r("C13", "out-pointer not cleared after parse error", G, "    econf_free(*key_file);\n    *key_file = NULL;\n    return t_err;", "    econf_free(*key_file);\n    return t_err;")
# ---- C14 ----------------------------------------------------------------------------------------------------------------
r("C14", "alloca one short", RC, "strlen (suffix) + 2);", "strlen (suffix) + 1);")
r("C14", "suffix_d too small", RC, "    char *suffix_d = malloc (strlen(suffix) + 4);", "    char *suffix_d = malloc (strlen(suffix) + 2);")
r("C14", "stack path buffer", M, "        char *file_path = combine_strings(path, de[i]->d_name, '/');", "        char file_path_buf[512]; char *file_path = strdup(strcat(strcat(strcpy(file_path_buf, path), \"/\"), de[i]->d_name));")
r("C14", "revert D18 (writer)", L, "      char *buf = strdup(key_file->file_entry[i].comment_after_value);", "      char bufa[BUFSIZ]; strncpy(bufa, key_file->file_entry[i].comment_after_value, BUFSIZ-1); bufa[BUFSIZ-1] = 0; char *buf = strdup(bufa);")
r("C14", "fulldir without terminator", M, "malloc (strlen(path) + strlen (config_dirs[i]) + 1)", "malloc (strlen(path) + strlen (config_dirs[i]))")
r("C14", "key copied through a stack array", G, "    ef->file_entry[ef->length-1].key = strndup(key, (size_t)(p+1-key));", "    { char kb[256]; snprintf(kb, sizeof(kb), \"%.*s\", (int)(p+1-key), key); ef->file_entry[ef->length-1].key = strdup(kb); }")
# ---- C15 ----------------------------------------------------------------------------------------------------------------
r("C15", "option misspelt", L, '"JOIN_SAME_ENTRIES=1"', '"JOIN_SAME_ENTRY=1"')
r("C15", "wrong field", L, '    if (strcmp(o_opt, "PYTHON_STYLE=1") == 0) {\n      (*result)->python_style = true;', '    if (strcmp(o_opt, "PYTHON_STYLE=1") == 0) {\n      (*result)->join_same_entries = true;')
r("C15", "unknown item ignored", L, "    /* not found --> break */\n    free(begin_opt);\n    return ECONF_OPTION_NOT_FOUND;", "    /* not found --> ignore */\n    continue;")
r("C15", "revert D11 (PARSING_DIRS)", L, "      econf_freeArray((*result)->parse_dirs);\n      (*result)->parse_dirs_count = 0;\n", "")
r("C15", "revert D11 (ROOT_PREFIX)", L, "      free((*result)->root_prefix);\n", "")
r("C15", "flag not copied for drop-ins", M, "        key_file->python_style = python_style;\n", "")
r("C15", "join always", G, "  if(ef->join_same_entries == true)\n  {", "  if(ef->length > 0)\n  {")
r("C15", "flags swapped for drop-ins", M, "	                             join_same_entries, python_style,\n				     callback, callback_data);", "	                             python_style, join_same_entries,\n				     callback, callback_data);")
# ---- C16 ----------------------------------------------------------------------------------------------------------------
r("C16", "owner test inverted", G, "sb.st_uid != file_owner", "sb.st_uid == file_owner")
r("C16", "group guard removed", G, "  if (file_group_set && sb.st_gid != file_group)\n    return ECONF_WRONG_GROUP;\n", "")
r("C16", "stat instead of lstat", G, "  if (lstat(file_name, &sb) == -1)", "  if (stat(file_name, &sb) == -1)")
r("C16", "reset forgets a flag", L, "  file_group_set = false;\n  file_permissions_set = false;", "  file_permissions_set = false;")
r("C16", "setter sets sibling flag", L, "  file_group_set = true;\n  file_group = group;", "  file_owner_set = true;\n  file_group = group;")
r("C16", "symlink guard after the parser", G, "  if (!allow_follow_symlinks && (sb.st_mode&S_IFMT) == S_IFLNK)\n    return ECONF_ERROR_FILE_IS_SYM_LINK;\n", "")
# ---- C17 ----------------------------------------------------------------------------------------------------------------
r("C17", "comments swapped", X, "		 &((*result)->comment_before_key),\n		 &((*result)->comment_after_value));", "		 &((*result)->comment_after_value),\n		 &((*result)->comment_before_key));")
r("C17", "line of the previous entry", X, "getLineNrNum(*kf, num, &((*result)->line_number));", "getLineNrNum(*kf, num ? num - 1 : 0, &((*result)->line_number));")
r("C17", "merged object keeps a path", L, "  (*merged_file)->path = NULL;", "  (*merged_file)->path = usr_file->path ? strdup(usr_file->path) : NULL;")
r("C17", "continuation keeps first line number", G, "    /* Points to the end of the array. This is needed for the next entry. */\n    ef->file_entry[ef->length-1].line_number = line_number;\n", "")
r("C17", "pending comment not reset", G, "    free(current_comment_after_value);\n    current_comment_after_value = NULL;    \n    if (retval)", "    if (retval)")
r("C17", "line number off by one", K, "  *line_nr = key_file.file_entry[num].line_number;", "  *line_nr = key_file.file_entry[num].line_number + 1;")
r("C17", "getPath returns the pointer", L, "  return strdup(kf->path);", "  return kf->path;")
# ---- C18 ----------------------------------------------------------------------------------------------------------------
r("C18", "static result buffer", L, "  return strdup(kf->path);", "  static char last_path[PATH_MAX];\n  snprintf(last_path, sizeof(last_path), \"%s\", kf->path);\n  return strdup(last_path);")
r("C18", "strtok", L, 'o_opt = strsep(&in_opt, ";")', 'o_opt = strtok(in_opt, ";")')
r("C18", "shared key string", H, "copied_fe.key = strdup(fe.key);", "copied_fe.key = fe.key;")
r("C18", "gate writes a security flag", G, "  if (file_owner_set && sb.st_uid != file_owner)", "  if (sb.st_uid == 0) file_owner_set = false;\n  if (file_owner_set && sb.st_uid != file_owner)")
r("C18", "line counter kept in the global", G, "    retval = store(ef, current_group, name, data, line,\n		   current_comment_before_key, current_comment_after_value,\n		   quote_seen,", "    retval = store(ef, current_group, name, data, last_scanned_line_nr,\n		   current_comment_before_key, current_comment_after_value,\n		   quote_seen,")
# ---- C19 ----------------------------------------------------------------------------------------------------------------
r("C19", "syntax returns 0 after an error", U, "    if (econf_error) {\n	print_error(econf_error);\n        return -1;\n    }\n    if (show) {", "    if (econf_error) {\n	print_error(econf_error);\n        return show ? -1 : 0;\n    }\n    if (show) {")
r("C19", "cat stops one early", U, "for (size_t i=0; i < size; i++) {", "for (size_t i=0; i + 1 < size; i++) {")
r("C19", "cat with fixed delimiter", U, "				       conf_suffix, delimiters, comment);\n  if (econf_error) {\n    print_error(econf_error);\n    return -1;\n  }\n\n  pr_header();", "				       conf_suffix, \"=\", comment);\n  if (econf_error) {\n    print_error(econf_error);\n    return -1;\n  }\n\n  pr_header();")
r("C19", "revert D17", U, "        const char *group = (g == 0) ? NULL : groups[g-1];", "        const char *group = groups[g ? g-1 : 0]; if (g == 0) continue;")
r("C19", "revert D34 (empty section ends the listing)", U, "        if (g > 0 && econf_error == ECONF_NOKEY) {\n            /* a section without any key: it is listed, and the following\n               sections are still shown */\n            printf(\"%s\\n\\n\", group);\n            continue;\n        }\n", "")
# ---- C20 ----------------------------------------------------------------------------------------------------------------
r("C20", "dangling out-pointer", G, "    econf_free(*key_file);\n    *key_file = NULL;\n    return t_err;", "    econf_free(*key_file);\n    return t_err;")
r("C20", "main probe error leaks", RC, "       if (error && error != ECONF_NOFILE) {\n	  econf_free(key_file);\n	  return error;", "       if (error && error != ECONF_NOFILE) {\n	  return error;")
r("C20", "drop-in without ownership flag", M, "          key_file->on_merge_delete = 1;\n", "")
r("C20", "history freed without elements", RC, "      for(size_t k = 0; k < *size-1; k++)\n      {\n	econf_freeFile((*key_files)[k]);\n      }\n", "")
r("C20", "destructor forgets a field", L, "  free(key_file->root_prefix);\n", "")
r("C20", "destructor without NULL test", L, "  if (!array) { return NULL; }\n", "")
r("C20", "copy leaves a field unset", H, "  copied_fe.quotes = false;\n", "")
r("C20", "directory entries leak", M, "      free(de[i]);\n    }\n    free(de);", "      if (i % 2) free(de[i]);\n    }\n    free(de);")
r("C20", "revert D15", H, "  key_file->file_entry[num].line_number = 0;\n", "")
r("C20", "revert D16", M, "	  econf_free(key_file);\n	  for (int k = i; k < num_dirs; k++)", "	  for (int k = i; k < num_dirs; k++)")
r("C20", "masked element not released", M, "    if((*key_files)->on_merge_delete) { econf_free(*key_files); }\n\n    key_files++;", "    if(*double_key_files == NULL && (*key_files)->on_merge_delete) { econf_free(*key_files); }\n\n    key_files++;")
