"""C14 - no length limit: long keys, values, comments, lines and paths are kept whole.

B1  no key, value, section, comment, line or option string flows into a fixed-size buffer
    (truncation or overflow); paths flow only into PATH_MAX-sized buffers through limited copiers.
B2  exact-fit buffers (malloc/alloca sized by strlen terms) receive exactly the strings they
    were sized for, plus separators and the terminator.
B3  heap copies whose size was computed before the string changed.   B4  no comparison of two user strings over a fixed number of bytes.   B5  no test of a text length against a constant.
B6  no alloca()/strdupa() inside a loop driven by the file's content."""
import json
import os

from sa.ast import render
from sa.facts import Inconclusive, VERIF
from sa import buf, query

META = {
    "level": "proof",
    "technique": "static analysis: flow rule for fixed-size buffers (source classification x copier limit) and exact-fit "
                 "allocation accounting with reaching definitions",
    "level_text": "Every fixed-size character array and every strlen-sized allocation of lib/ and util/ is an instance; every "
                  "write into one is classified from its sources and limit. With no unbounded data reaching a fixed buffer, "
                  "the remaining storage is getline/strdup/asprintf-sized, so nothing can be truncated or overrun by length "
                  "alone - for every length, not the sampled ones.",
    "level_note": "Trusted: copier table and source classification (sa/buf.py), clang front end. Names longer than PATH_MAX and "
                  "environment/passwd sources are outside the property's field list (tolerated classes, listed in the evidence).",
    "explanation": "fixed-buffer flow rule + exact-fit allocation rule",
    "trusted_base": ["clang-14 front end", "sa/buf.py copier table", "sa/dataflow.py"],
    "assumptions": ["file names longer than PATH_MAX are outside the property (OS limit)"],
}


def tolerated():
    with open(os.path.join(VERIF, "rules", "tables", "buffers.json")) as f:
        return {r["key"]: r["reason"] for r in json.load(f)["tolerated"]}


def judge(prog, ctx, util, rule_prefix=""):
    tol = tolerated()
    arrays, sites = buf.analyse_fixed_arrays(prog, util)
    where = "util" if util else "lib"
    for s in sites:
        ctx.touch(s.fn)
        inst = "%s %s[%s] <- %s" % (s.fn.name, s.arr.name, s.arr.size_mac or s.arr.size, s.copier)
        inst = "%s @%s" % (inst, s.node.where.split(":", 1)[1]) if False else inst
        if s.verdict == "os-limit-truncation":
            # a name cut at PATH_MAX is harmless while it is a directory prefix that gets longer still (the final name is refused by the
            # system); a cut name that is handed to the system AS IT IS names another file, which may exist
            OPEN = ("read_file_with_callback", "read_file", "fopen", "open", "openat", "lstat", "stat", "access", "scandir", "opendir", "realpath",
                    "econf_readFile", "econf_readFileWithCallback")
            direct = [c9 for c9 in s.fn.calls(OPEN) if any(render(a9) == s.arr.name for a9 in c9.call_args())]
            guarded = False
            if direct and s.node.k == "CallExpr" and s.node.j.get("callee") == "snprintf":
                # unless the result of snprintf() is compared with the size (truncation noticed)
                up9 = s.node.up()
                rv9 = render(up9.children[0]) if up9 is not None and up9.k == "BinaryOperator" and up9.j.get("op") == "=" else (
                    up9.j["decls"][0]["name"] if up9 is not None and up9.k == "DeclStmt" else None)
                if rv9:
                    cfg9 = s.fn.cfg
                    guarded = any(cfg9.edge_lit(b9, i9) is not None and cfg9.edge_lit(b9, i9).kind == "lt" and rv9 in cfg9.edge_lit(b9, i9).atom
                                  for (b9, i9, s9) in cfg9.edges())
            if direct and not guarded:
                ctx.fail(rule_prefix + "B1", inst, s.node.where,
                         "truncation: %s - and the cut name is handed to %s() as it is: a name one byte too long is not refused but read as the name of "
                         "ANOTHER file (its first PATH_MAX-1 bytes)" % (s.why, direct[0].j.get("callee")), key=s.fullkey + ":cut-name-opened")
                continue
        if s.verdict in ("ok", "exempt", "os-limit-truncation"):
            ctx.ok(rule_prefix + "B1", inst, s.node.where, "%s: %s" % (s.verdict, s.why))
        elif s.verdict in ("overflow", "truncation"):
            if s.key in tol:
                ctx.ok(rule_prefix + "B1", inst, s.node.where, "tolerated (%s): %s" % (s.verdict, tol[s.key]))
            else:
                what = ("data is silently cut" if s.verdict == "truncation" else "the buffer can be overrun")
                ctx.fail(rule_prefix + "B1", inst, s.node.where, "%s: %s - %s" % (s.verdict, s.why, what), key=s.fullkey + ":" + s.verdict)
        else:
            ctx.inconclusive(rule_prefix + "B1", inst, s.node.where, s.why)
    fits = buf.analyse_exact_fit(prog, util)
    for s in fits:
        ctx.touch(s.fn)
        inst = "%s: %s = alloc(strlen(%s)+%d)" % (s.fn.name, s.var, ")+strlen(".join(s.terms), s.const)
        if s.verdict == "ok":
            ctx.ok(rule_prefix + "B2", inst, s.alloc.where, s.why)
        elif s.verdict == "overflow":
            ctx.fail(rule_prefix + "B2", inst, s.alloc.where, "exact-fit buffer too small: " + s.why, key="fit:" + s.key)
        else:
            ctx.inconclusive(rule_prefix + "B2", inst, s.alloc.where, s.why)
    copies = buf.analyse_heap_copies(prog, util) + buf.analyse_grown_buffers(prog, util)
    for h in copies:
        ctx.touch(h.fn)
        inst = "%s: %s(<heap>, %s)" % (h.fn.name, h.call.j.get("callee"), h.src)
        if h.verdict == "ok":
            ctx.ok(rule_prefix + "B3", inst, h.call.where, h.why)
        elif h.verdict == "overflow":
            ctx.fail(rule_prefix + "B3", inst, h.call.where,
                     "unlimited copy of an arbitrarily long string into heap memory that was not sized for it: " + h.why, key="heapcopy:" + h.key)
        elif h.verdict == "truncation":
            ctx.fail(rule_prefix + "B3", inst, h.call.where, "text of any length is cut to a buffer that was not sized for it: " + h.why, key="heapcut:" + h.key)
        else:
            ctx.inconclusive(rule_prefix + "B3", inst, h.call.where, h.why)
    return arrays, sites, fits


def b4_bounded_compares(prog, ctx):
    """B4: two pieces of user text are never compared over a FIXED number of bytes (strncmp(a, b, BUFSIZ) makes names that
    agree in their first BUFSIZ bytes the same name - a length limit in disguise).  A length taken from one of the strings
    (strlen, a local holding strlen) is a prefix/suffix test, not a limit."""
    n = 0
    for f in list(prog.lib_functions()) + list(prog.util_functions.values()):
        for c in f.calls(("strncmp", "strncasecmp", "memcmp")):
            a = c.call_args()
            if len(a) < 3:
                continue
            n += 1
            inst = "%s: %s" % (f.name, render(c)[:70])
            if any(x.strip().string_value() is not None for x in a[:2]):
                ctx.ok("B4", inst, c.where, "comparison with a literal")
                continue
            ln = a[2].strip()
            cv = ln.const_value()
            if cv is not None:
                ctx.fail("B4", inst, c.where,
                         "two strings are compared over at most %d bytes (%s): names, keys or values that agree in that many bytes count as equal" % (
                             cv, render(ln)), key="bounded-compare:%s" % f.name)
            else:
                ctx.ok("B4", inst, c.where, "length `%s` depends on the strings compared" % render(ln))
    ctx.counts["B4 bounded comparisons"] = n


def b5_length_tests(prog, ctx):
    """B5: no branch of the library compares the LENGTH of a user string with a constant (other than 0 / 1): such a test is a
    length limit whatever it is meant for (skipping names of NAME_MAX bytes, refusing long keys ...).  Copies into fixed buffers
    are B1's business; the tool's PATH_MAX tests on paths are outside (paths are only claimed up to the OS limits)."""
    from sa.dataflow import ReachingDefs
    n = 0
    for f in prog.lib_functions():
        cfg = f.cfg
        rd = None
        seen = set()
        for (b, i, s2) in cfg.edges():
            if i != 0:
                continue
            lit = cfg.edge_lit(b, i)
            if lit is None or lit.kind not in ("lt", "eq"):
                continue
            for x, y in ((lit.lhs, lit.rhs), (lit.rhs, lit.lhs)):
                cv = y.const_value()
                if cv is None or cv < 2 or cv >= 2 ** 31:      # an overflow guard (SIZE_MAX / n) is not a limit any text can meet
                    continue
                xs = x.strip()
                is_len = xs.k == "CallExpr" and xs.j.get("callee") in ("strlen", "strnlen")
                if not is_len and xs.k == "DeclRefExpr" and xs.j.get("dk") == "local":
                    rd = rd or ReachingDefs(f)
                    ds = [d for d in rd.defs if d.var == xs.j["name"] and d.kind in ("init", "assign") and d.rhs is not None]
                    is_len = bool(ds) and all(d.rhs.strip().k == "CallExpr" and d.rhs.strip().j.get("callee") in ("strlen", "strnlen") for d in ds)
                if not is_len or lit.node.id in seen:
                    continue
                seen.add(lit.node.id)
                # which side is the one for LONG text, and what happens there?  Only a side that turns the text down (a failure
                # return) or passes it over (the next round of a loop) makes the constant a limit; a side that handles long text
                # another way (a heap copy instead of a scratch buffer) does not.
                if lit.kind == "lt":
                    long_when = (x is lit.rhs)          # C < len  holds on the long side
                    long_edge = 0 if (lit.pol == long_when) else 1
                else:
                    long_edge = 0 if lit.pol else 1     # len == C: the side on which it holds
                succs = cfg.blocks[b].succs
                if len(succs) < 2:
                    continue
                cur, hops, verdict = succs[long_edge], 0, None
                while cur is not None and hops < 6:
                    r6 = cfg.return_of_block(cur)
                    if r6 is not None:
                        rc = query.returned_constant(r6)
                        verdict = "refused (%s)" % rc if rc not in (0, "ECONF_SUCCESS", None) else None
                        break
                    nx = [q for q in cfg.blocks[cur].succs if q is not None]
                    cur = nx[0] if len(nx) == 1 else None
                    hops += 1
                if verdict is None:
                    # the long side is where the short side arrives anyway: what the short side does in between is left out for long text
                    L9, S9 = succs[long_edge], succs[1 - long_edge]
                    back9 = set((bb, ii) for (bb, ii, ss) in cfg.back_edges())
                    if L9 is not None and S9 is not None and L9 != S9 and L9 in cfg.reachable(S9, avoid_edges=back9):
                        verdict = "passed over (what is done for shorter text is skipped)"
                if verdict is None:
                    ctx.ok("B5", "%s: length test `%s` is not a limit" % (f.name, lit), lit.node.where, "text of that length is handled on its own branch, not turned down or skipped")
                    n_ok = True
                    continue
                n += 1
                ctx.fail("B5", "%s: no test of a text length against a constant" % f.name, lit.node.where,
                         "`%s` is compared with %d (%s) and text of that length is %s - a length limit" % (render(xs), cv, render(y), verdict),
                         key="length-test:%s:%s" % (f.name, render(xs)))
    if n == 0:
        ctx.ok("B5", "no test of a text length against a constant in lib/", "", "no branch compares strlen() of anything (or a local holding it) with a constant above 1")


def b6_stack_copies(prog, ctx):
    """B6: text whose amount the FILE decides (lines, entries) is never piled up on the stack: no alloca()/strdupa()/VLA inside a
    loop that is driven by the file's content (alloca memory is released only when the function returns)."""
    n = 0
    bad = 0
    for f in prog.lib_functions():
        for c in f.calls(("alloca", "__builtin_alloca", "__builtin_alloca_with_align")):
            drivers = [a for a in c.ancestors() if a.k in ("ForStmt", "WhileStmt", "DoStmt")]
            if not drivers:
                continue
            n += 1
            content = None
            for lp in drivers:
                ct = render(lp.child("cond")) if lp.child("cond") is not None else ""
                if any(k in ct for k in ("getline", "getdelim", "fgets", "strsep", "strtok", "->length", ".length", "alloc_length", "group_count")):
                    content = lp
            inst = "%s: %s inside a loop" % (f.name, render(c)[:60])
            if content is not None:
                bad += 1
                ctx.fail("B6", inst, c.where,
                         "stack memory is taken once per round of a loop driven by the file's content (`%s`) and is released only when %s returns: a file "
                         "larger than the stack crashes the read" % (render(content.child("cond"))[:60], f.name), key="alloca-in-content-loop:%s" % f.name)
            else:
                ctx.ok("B6", inst, c.where, "the loop runs once per configured directory layer, not per line or entry")
    if n == 0:
        ctx.ok("B6", "no stack allocation inside a loop in lib/", "", "")


CREATORS = {"fopen": 0, "fopen64": 0, "open": 0, "open64": 0, "creat": 0, "mkstemp": 0, "mkostemp": 0, "mkstemps": 0, "mkdtemp": 0,
            "openat": 1, "rename": 1, "link": 1, "symlink": 1, "mkdir": 0, "freopen": 0}


def b7_created_names(prog, ctx):
    """B7: a file or directory name up to the OS limit is written under that name: no routine of the library creates a file whose
    last path component is a caller-supplied name made longer (name + ".tmp", name + ".XXXXXX"): NAME_MAX applies to the
    component, so a legal name within a few bytes of the limit could no longer be written."""
    import re as _re
    from sa.dataflow import ReachingDefs
    n = 0
    for f in prog.lib_functions():
        cs = [c for c in f.calls(tuple(CREATORS))]
        if not cs:
            continue
        rd = ReachingDefs(f)
        for c in cs:
            a = c.call_args()
            pi = CREATORS[c.j.get("callee")]
            if pi >= len(a):
                continue
            if c.j.get("callee") in ("fopen", "fopen64", "freopen"):
                mode = a[1].string_value() if len(a) > 1 else None
                if mode is not None and mode.startswith("r") and "+" not in mode:
                    continue          # opens an existing file
            if c.j.get("callee") in ("open", "open64") and len(a) > 1 and a[1].const_value() is not None and not (a[1].const_value() & 0o100):
                continue              # no O_CREAT
            n += 1
            pa = a[pi].strip()
            fmts = []
            if pa.k == "DeclRefExpr":
                # the text of the name: asprintf(&p, fmt, ..) / snprintf(p, n, fmt, ..) that define it
                for c2 in f.calls(("asprintf", "snprintf", "sprintf")):
                    a2 = c2.call_args()
                    dst = render(a2[0]).lstrip("&") if a2 else ""
                    if dst == render(pa):
                        fi = {"asprintf": 1, "snprintf": 2, "sprintf": 1}[c2.j.get("callee")]
                        if fi < len(a2) and a2[fi].string_value() is not None:
                            fmts.append((c2, a2[fi].string_value(), a2[fi + 1:]))
            longer = None
            for c2, fmt, rest in fmts:
                last = fmt.rsplit("/", 1)[-1]
                convs = _re.findall(r"%[-0-9.*]*[a-zA-Z]", last)
                lit = _re.sub(r"%[-0-9.*]*[a-zA-Z]", "", last)
                if any(x.endswith("s") for x in convs) and lit:
                    longer = (c2, fmt, lit)
            if longer:
                ctx.fail("B7", "%s creates files under the name given" % f.name, c.where,
                         "%s(%s): the name is built with \"%s\" - the last component is a name from the caller plus %d more bytes (%r): a legal name "
                         "within %d bytes of NAME_MAX cannot be written any more" % (c.j.get("callee"), render(pa), longer[1], len(longer[2]), longer[2], len(longer[2])),
                         key="longer-name:%s:%s" % (f.name, c.j.get("callee")))
            else:
                ctx.ok("B7", "%s creates files under the name given" % f.name, c.where, "%s(%s): no text is added to the last component" % (c.j.get("callee"), render(pa)))
    ctx.floor("C14 file-creating calls", n, 1)


def b9_getline_capacity(prog, ctx, rule="B9"):
    """B9: getline(&buf, &n, f) believes `n`: it only re-allocates when the line does not fit into n bytes.  The capacity announced at
    the first call is the size the buffer was allocated with (or buf is NULL and n is 0)."""
    n = 0
    for f in list(prog.lib_functions()) + [g for g in prog.util_functions.values()]:
        for c in f.calls(("getline", "getdelim")):
            a = c.call_args()
            if len(a) < 2 or a[0].strip().k != "UnaryOperator" or a[1].strip().k != "UnaryOperator":
                continue
            bname, nname = render(a[0].strip().children[0]), render(a[1].strip().children[0])
            bdefs = [r for l, r, st in f.assignments() if (l["name"] if isinstance(l, dict) else render(l)) == bname and r is not None and not st.within(c)]
            ndefs = [r for l, r, st in f.assignments() if (l["name"] if isinstance(l, dict) else render(l)) == nname and r is not None]
            allocs = [r.strip() for r in bdefs if r.strip().k == "CallExpr" and r.strip().j.get("callee") in ("malloc", "calloc")]
            n += 1
            inst = "%s: %s" % (f.name, render(c)[:50])
            if not allocs:
                if all(r.is_null_const() for r in bdefs) and all(r.const_value() == 0 for r in ndefs):
                    ctx.ok(rule, inst, c.where, "starts with no buffer and capacity 0")
                else:
                    ctx.inconclusive(rule, inst, c.where, "origin of the buffer not understood")
                continue
            sizes = []
            for al in allocs:
                aa = al.call_args()
                v = aa[0].const_value() if al.j["callee"] == "malloc" else (None if None in (aa[0].const_value(), aa[1].const_value()) else aa[0].const_value() * aa[1].const_value())
                sizes.append(v)
            caps = [r.const_value() for r in ndefs]
            if None in sizes or None in caps or not caps:
                ctx.inconclusive(rule, inst, c.where, "allocation size / announced capacity not constant")
            elif max(caps) > min(sizes):
                ctx.fail(rule, inst, c.where,
                         "the buffer has %d bytes but getline() is told it has %d: a line longer than the buffer and shorter than the announced capacity is "
                         "written past its end" % (min(sizes), max(caps)), key="getline-capacity:%s" % f.name)
            else:
                ctx.ok(rule, inst, c.where, "announced capacity %d <= allocated %d" % (max(caps), min(sizes)))
    ctx.counts["%s getline sites" % rule] = n


def b10_truncation_tests(prog, ctx, rule="B10"):
    """B10: where the result of snprintf(buf, N, ..) is tested for truncation the test is `r >= N` (the result is the length the text
    WOULD have had: r == N already means one byte was cut).  `r > N` lets the name through that is exactly one byte too long."""
    n = 0
    for f in list(prog.lib_functions()) + [g for g in prog.util_functions.values()]:
        cfg = f.cfg
        for c in f.calls("snprintf"):
            up = c.up()
            var = up.j["decls"][0]["name"] if up is not None and up.k == "DeclStmt" else (
                render(up.children[0]) if up is not None and up.k == "BinaryOperator" and up.j.get("op") == "=" else None)
            if var is None:
                continue
            size = c.call_args()[1]
            sz_t, sz_v = render(size), size.const_value()
            for (b, i, s2) in cfg.edges():
                lit = cfg.edge_lit(b, i)
                if lit is None or lit.kind != "lt" or cfg.blocks[b].cond is None or not cfg.node_dominates(c, cfg.blocks[b].cond) or i != 0:
                    continue
                l_t, r_t = render(lit.lhs.strip()), render(lit.rhs.strip())
                l_v, r_v = lit.lhs.const_value(), lit.rhs.const_value()

                def is_size(t, v):
                    return t == sz_t or (sz_v is not None and v == sz_v)
                # a result equal to the size and a result above it must go the same way: both mean "cut".  (edge_lit normalises to `<`.)
                if l_t == var and is_size(r_t, r_v):
                    at_eq, above = (False == lit.pol), (False == lit.pol)         # r < N is false for r == N and for r == N + 1
                elif r_t == var and is_size(l_t, l_v):
                    at_eq, above = (False == lit.pol), (True == lit.pol)          # N < r is false for r == N, true for r == N + 1
                else:
                    continue
                if at_eq == above:
                    n += 1
                    ctx.ok(rule, "%s: truncation test of %s" % (f.name, render(c)[:40]), cfg.blocks[b].cond.where, "`%s` against the size given to snprintf: a result equal to %s is treated like a larger one" % (var, sz_t))
                else:
                    n += 1
                    ctx.fail(rule, "%s: truncation test of %s" % (f.name, render(c)[:40]), cfg.blocks[b].cond.where,
                             "`%s`: a result of %s equal to %s - the text cut by exactly one byte - passes as complete; the file named by the cut "
                             "text is used (opened, removed) instead of the one asked for" % (render(cfg.blocks[b].cond)[:60], var, sz_t), key="truncation-test:%s:%s" % (f.name, var))
    ctx.counts["%s truncation tests" % rule] = n


def run(prog, ctx):
    b9_getline_capacity(prog, ctx)
    b10_truncation_tests(prog, ctx)
    b7_created_names(prog, ctx)
    la, ls, lf = judge(prog, ctx, False)
    ua, us, uf = judge(prog, ctx, True)
    b4_bounded_compares(prog, ctx)
    b5_length_tests(prog, ctx)
    b6_stack_copies(prog, ctx)
    # B8: no stack allocation is sized by the length of configuration text (= C04.S11): the stack size is a length limit
    from rules.C04 import s11_stack_alloc
    s11_stack_alloc(prog, ctx, [f for f in prog.lib_functions()], "B8")
    ctx.floor("C14 fixed char arrays in lib/", len(la), 3)
    ctx.floor("C14 fixed char arrays in util/", len(ua), 6)
    ctx.floor("C14 write sites", len(ls) + len(us), 12)
    ctx.floor("C14 exact-fit allocations", len(lf) + len(uf), 3)
