"""C14 - no length limit: long keys, values, comments, lines and paths are kept whole.

B1  no key, value, section, comment, line or option string flows into a fixed-size buffer
    (truncation or overflow); paths flow only into PATH_MAX-sized buffers through limited copiers.
B2  exact-fit buffers (malloc/alloca sized by strlen terms) receive exactly the strings they
    were sized for, plus separators and the terminator."""
import json
import os

from sa.ast import render
from sa.facts import Inconclusive, VERIF
from sa import buf

META = {
    "level": "proof",
    "technique": "static analysis: flow rule for fixed-size buffers (source classification x copier limit) and exact-fit "
                 "allocation accounting with reaching definitions",
    "level_text": "Every fixed-size character array and every strlen-sized allocation of lib/ and util/ is an instance; every "
                  "write into one is classified from its sources and limit. With no unbounded data reaching a fixed buffer, "
                  "the remaining storage is getline/strdup/asprintf-sized, so nothing can be truncated or overrun by length "
                  "alone - for every length, not the sampled ones.",
    "level_note": "Trusted: copier table and source classification (sa/buf.py), clang front end. Names longer than PATH_MAX and "
                  "environment/passwd sources are outside the property's field list (tolerated classes, listed in the evidence).",
    "explanation": "fixed-buffer flow rule + exact-fit allocation rule",
    "trusted_base": ["clang-14 front end", "sa/buf.py copier table", "sa/dataflow.py"],
    "assumptions": ["file names longer than PATH_MAX are outside the property (OS limit)"],
}


def tolerated():
    with open(os.path.join(VERIF, "rules", "tables", "buffers.json")) as f:
        return {r["key"]: r["reason"] for r in json.load(f)["tolerated"]}


def judge(prog, ctx, util, rule_prefix=""):
    tol = tolerated()
    arrays, sites = buf.analyse_fixed_arrays(prog, util)
    where = "util" if util else "lib"
    for s in sites:
        ctx.touch(s.fn)
        inst = "%s %s[%s] <- %s" % (s.fn.name, s.arr.name, s.arr.size_mac or s.arr.size, s.copier)
        inst = "%s @%s" % (inst, s.node.where.split(":", 1)[1]) if False else inst
        if s.verdict in ("ok", "exempt", "os-limit-truncation"):
            ctx.ok(rule_prefix + "B1", inst, s.node.where, "%s: %s" % (s.verdict, s.why))
        elif s.verdict in ("overflow", "truncation"):
            if s.key in tol:
                ctx.ok(rule_prefix + "B1", inst, s.node.where, "tolerated (%s): %s" % (s.verdict, tol[s.key]))
            else:
                what = ("data is silently cut" if s.verdict == "truncation" else "the buffer can be overrun")
                ctx.fail(rule_prefix + "B1", inst, s.node.where, "%s: %s - %s" % (s.verdict, s.why, what), key=s.fullkey + ":" + s.verdict)
        else:
            ctx.inconclusive(rule_prefix + "B1", inst, s.node.where, s.why)
    fits = buf.analyse_exact_fit(prog, util)
    for s in fits:
        ctx.touch(s.fn)
        inst = "%s: %s = alloc(strlen(%s)+%d)" % (s.fn.name, s.var, ")+strlen(".join(s.terms), s.const)
        if s.verdict == "ok":
            ctx.ok(rule_prefix + "B2", inst, s.alloc.where, s.why)
        elif s.verdict == "overflow":
            ctx.fail(rule_prefix + "B2", inst, s.alloc.where, "exact-fit buffer too small: " + s.why, key="fit:" + s.key)
        else:
            ctx.inconclusive(rule_prefix + "B2", inst, s.alloc.where, s.why)
    copies = buf.analyse_heap_copies(prog, util)
    for h in copies:
        ctx.touch(h.fn)
        inst = "%s: %s(<heap>, %s)" % (h.fn.name, h.call.j.get("callee"), h.src)
        if h.verdict == "ok":
            ctx.ok(rule_prefix + "B3", inst, h.call.where, h.why)
        elif h.verdict == "overflow":
            ctx.fail(rule_prefix + "B3", inst, h.call.where,
                     "unlimited copy of an arbitrarily long string into heap memory that was not sized for it: " + h.why, key="heapcopy:" + h.key)
        else:
            ctx.inconclusive(rule_prefix + "B3", inst, h.call.where, h.why)
    return arrays, sites, fits


def run(prog, ctx):
    la, ls, lf = judge(prog, ctx, False)
    ua, us, uf = judge(prog, ctx, True)
    ctx.floor("C14 fixed char arrays in lib/", len(la), 6)
    ctx.floor("C14 fixed char arrays in util/", len(ua), 10)
    ctx.floor("C14 write sites", len(ls) + len(us), 25)
    ctx.floor("C14 exact-fit allocations", len(lf) + len(uf), 6)
