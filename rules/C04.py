"""C04 - no file content can corrupt memory, crash or hang read, query, merge or write (necessary conditions).

S1 nullable string fields are tested before any dereferencing use        S2 'last character' indexing only on non-empty strings
S3 backward pointer walks have a lower bound (or a documented sentinel)   S4 merge output array bound (= C03.M4/M5)
S5 no buffer overrun by length (= C14 overflow verdicts)                  S6 no use after free / double free (= C20 typestate)
S7 the result of realloc() is what is used afterwards                     S8 every loop terminates (recognised progress argument)
S9 stores into counted heap arrays (pointer/struct arrays sized by a counter) stay inside the allocation"""
import json
import os
import re

from sa.ast import render
from sa.facts import Inconclusive, VERIF
from sa import query, loops, nulls
from sa.dataflow import ReachingDefs
from rules.C18 import reachable_from_exports

META = {
    "level": "other",
    "technique": "static analysis: nullable-field guarded-use analysis with consistent-path reachability, last-character and backward-walk "
                 "shape rules, loop progress classification, realloc-result rule, plus the merge-bound, buffer and ownership engines",
    "level_text": "Decides a set of NECESSARY memory-safety and termination conditions that are visible in the code and that every one of the "
                  "concrete crashes named in the property violates, for every file content. Not decided: memory safety of the parser as a "
                  "whole - that needs a sound string/heap verifier (frama-c/Eva class; goto-analyzer answers UNKNOWN everywhere).",
    "level_note": "Partial. Exceptions resting on invariants established elsewhere are listed in rules/tables/c04_exceptions.json with the rule "
                  "that checks the invariant. Trusted: clang front end/CFG, sa/nulls.py, sa/loops.py.",
    "explanation": "necessary memory-safety conditions: NULL guards, last-char indexing, backward walks, array bounds, realloc use, loop progress",
    "trusted_base": ["clang-14 front end and CFG", "sa/nulls.py", "sa/cfg.py feasible_reach", "sa/loops.py"],
    "assumptions": ["no allocation failure"],
}


def exceptions():
    with open(os.path.join(VERIF, "rules", "tables", "c04_exceptions.json")) as f:
        return json.load(f)


def s1(prog, ctx, fns, exc):
    import re
    pats = [(re.compile(r["pattern"]), r["reason"]) for r in exc["null_uses"]]

    class _Tol:
        def __contains__(self, k):
            return any(p.fullmatch(k) for p, _ in pats)

        def __getitem__(self, k):
            return next(r for p, r in pats if p.fullmatch(k))
    tol = _Tol()
    nf, uses = nulls.analyse(prog, fns)
    ctx.counts["nullable string fields"] = len(nf)
    seen = set()
    for u in uses:
        inst = "%s: %s used as %s" % (u.fn.name, u.access if u.via is None else "%s (= %s)" % (u.via, u.access), u.sink)
        if u.guarded:
            ctx.ok("S1", inst, u.node.where, "behind a non-NULL test on every consistent path")
        elif u.key in tol:
            ctx.ok("S1", inst, u.node.where, "tolerated: " + tol[u.key])
        else:
            if u.key in seen:
                continue
            seen.add(u.key)
            ctx.fail("S1", inst, u.node.where,
                     ("`%s` answers NULL when there is no further token / no match, and the result reaches %s without a test" if u.access.endswith("(...)") else
                      "`%s` may be NULL (a key without delimiter has no value; entries may have no comment) and reaches %s without a test") % (u.access, u.sink),
                     key="null:" + u.key, path=u.path)
    ctx.floor("C04.S1 uses of nullable fields in dereferencing positions", len(uses), 12)


def _strlen_of(e, fn, rd, at):
    """the string X when expression e is strlen(X) (possibly via a single-def local), else None; also returns offset"""
    s = e.strip()
    if s.k == "CallExpr" and s.j.get("callee") == "strlen":
        return render(s.call_args()[0]), 0
    if s.k == "BinaryOperator" and s.j.get("op") in ("-", "+") and s.children[1].const_value() is not None:
        r = _strlen_of(s.children[0], fn, rd, at)
        if r:
            k = s.children[1].const_value()
            return r[0], r[1] + (k if s.j["op"] == "+" else -k)
    if s.k == "DeclRefExpr" and s.j.get("dk") == "local":
        defs = [d for d in rd.reaching(s.j["name"], at) if d.kind in ("init", "assign")]
        if len(defs) == 1 and defs[0].rhs is not None and len(rd.reaching(s.j["name"], at)) == 1:
            return _strlen_of(defs[0].rhs, fn, rd, defs[0].node)
    return None


def s2b(prog, ctx, fns):
    """S2b: the length getline() returns counts the whole line, NUL bytes included; a copy made with strdup() ends at the first NUL.
    Indexing the copy with that length (copy[n - 1]) reaches behind the copy for a line that contains a NUL byte."""
    from sa.dataflow import ReachingDefs
    n = 0
    for f in fns:
        gl = f.calls(("getline", "getdelim"))
        if not gl:
            continue
        rd = ReachingDefs(f)
        linebufs = set(render(c.call_args()[0]).lstrip("&") for c in gl if c.call_args())

        def from_getline(e, at, depth=0):
            e0 = e.strip()
            while e0.k in ("ImplicitCastExpr", "ParenExpr", "CStyleCastExpr") and e0.children:
                e0 = e0.children[0].strip()
            if e0.k == "CallExpr":
                return e0.j.get("callee") in ("getline", "getdelim")
            if e0.k == "BinaryOperator" and e0.j.get("op") == "=":
                return from_getline(e0.children[1], at, depth + 1)
            if e0.k == "DeclRefExpr" and e0.j.get("dk") == "local" and depth < 4:
                ds = [d for d in rd.reaching(e0.j["name"], at) if d.rhs is not None]
                return bool(ds) and all(from_getline(d.rhs, d.node or at, depth + 1) for d in ds)
            return False
        for x in f.walk():
            if x.k != "ArraySubscriptExpr":
                continue
            base = x.children[0].strip()
            if base.k != "DeclRefExpr" or base.j.get("dk") != "local":
                continue
            bd = [d for d in rd.reaching(base.j["name"], x) if d.rhs is not None]
            if not bd or not all(d.rhs.strip().k == "CallExpr" and d.rhs.strip().j.get("callee") in ("strdup", "strndup") and
                                 render(d.rhs.strip().call_args()[0]) in linebufs for d in bd):
                continue
            idx = x.children[1]
            vars_ = [v for v in idx.walk() if v.k == "DeclRefExpr" and v.j.get("dk") == "local"]
            if not vars_:
                continue
            n += 1
            if any(from_getline(v, x) for v in vars_):
                ctx.fail("S2", "%s: %s indexed with its own length" % (f.name, base.j["name"]), x.where,
                         "`%s`: the index is the length getline() returned for the whole line, but `%s` is a strdup() copy that ends at the first NUL "
                         "byte of the line: for a line that contains a NUL byte this reaches behind the copy" % (render(x), base.j["name"]),
                         key="copy-indexed-by-line-length:%s" % f.name)
            else:
                ctx.ok("S2", "%s: %s indexed with its own length" % (f.name, base.j["name"]), x.where, "`%s`: index from strlen() of the copy" % render(x)[:50])
    return n


def s2(prog, ctx, fns, exc):
    tol = {r["key"]: r["reason"] for r in exc["last_char"]}
    n = 0
    for f in fns:
        cfg = f.cfg
        rd = None
        cands = []
        for x in f.walk():
            # X[E]  /  *(X + E)  /  p = X + E   with E = strlen(X) - 1 (+0)
            if x.k == "ArraySubscriptExpr":
                cands.append((x, x.children[0], x.children[1]))
            elif x.k == "BinaryOperator" and x.j.get("op") in ("+", "-") and x.j.get("ct", "").endswith("*"):
                # pointer + integer expression; fold  (X + strlen(X)) - 1
                flat = render(x)
                m = re.match(r"^\(?(.+?) \+ (.+)$", flat)
                a, b = x.children[0], x.children[1]
                if x.j["op"] == "-" and b.const_value() == 1:
                    inner = a.strip()
                    if inner.k == "BinaryOperator" and inner.j.get("op") == "+":
                        cands.append((x, inner.children[0], None, inner.children[1], -1))
                elif x.j["op"] == "+":
                    cands.append((x, a, b))
        for c in cands:
            rd = rd or ReachingDefs(f)
            x, base = c[0], c[1]
            if len(c) == 3:
                r = _strlen_of(c[2], f, rd, x)
            else:
                r = _strlen_of(c[3], f, rd, x)
                if r:
                    r = (r[0], r[1] + c[4])
            if not r or r[0] != render(base) or r[1] != -1:
                continue
            # skip sub-expressions of an already counted candidate
            if any(o[0] is not x and x.within(o[0]) for o in cands if len(o) == 3 and _strlen_of(o[2], f, rd, o[0]) and False):
                continue
            n += 1
            X = r[0]
            key = "%s:%s" % (f.name, render(x))

            def nonempty(lit, b, i, X=X):
                if lit is None:
                    return False
                if lit.kind == "truth" and lit.pol and (lit.atom in ("*" + X, X + "[0]", "strlen(%s)" % X) or
                                                        (lit.node.k == "DeclRefExpr" and _is_len_of(lit.node, X, f, rd))):
                    return True
                if lit.kind == "lt" and lit.pol and isinstance(lit.lhs.const_value(), int) and lit.lhs.const_value() >= 0 and (
                        render(lit.rhs) == "strlen(%s)" % X or _is_len_of(lit.rhs.strip(), X, f, rd)):
                    return True
                if lit.kind == "eq" and lit.pol:
                    for a, b2 in ((lit.lhs, lit.rhs), (lit.rhs, lit.lhs)):
                        if render(a) in ("*" + X, X + "[0]") and b2.const_value() not in (None, 0):
                            return True
                return False
            wp = cfg.feasible_reach(cfg.block_of(x), nonempty, lambda a, X=X: X in a)
            inst = "%s: last character via %s" % (f.name, render(x))
            if wp is None:
                ctx.ok("S2", inst, x.where, "`%s` is known to be non-empty on every consistent path" % X)
            elif _advanced_past_char(f, rd, X, x):
                ctx.ok("S2", inst, x.where, "`%s` was advanced one past a character just tested (%s[-1] exists and is not a blank)" % (X, X))
            elif key in tol:
                ctx.ok("S2", inst, x.where, "tolerated: " + tol[key])
            else:
                ctx.fail("S2", inst, x.where,
                         "for an empty `%s` the expression addresses the byte BEFORE the buffer (strlen - 1 wraps around): out-of-bounds read/write" % X,
                         key="lastchar:" + key, path=cfg.describe_path(wp)[-6:])
    ctx.floor("C04.S2 last-character expressions", n, 2)


def _advanced_past_char(f, rd, X, use):
    """The string variable X was advanced one position past a character that was just tested to be a particular
    non-NUL character (e.g. `if (name[0] == '[') { name++; ...`): X[-1] then exists and is that character, which
    stops a backward walk over blanks and makes `X + strlen(X) - 1` land inside the buffer even for an empty rest."""
    cfg = f.cfg
    root = X.split("[")[0].split("->")[0].strip("*& ")
    sources = {root}
    for d in rd.defs:
        if d.var == root and d.kind in ("assign", "init") and d.rhs is not None and d.rhs.strip().k == "DeclRefExpr":
            sources.add(render(d.rhs))
    for d in rd.defs:
        if d.var != root or d.node is None:
            continue
        adv = d.kind == "update" and d.node.k == "UnaryOperator" and d.node.j.get("op") == "++"
        if d.kind in ("assign", "init") and d.rhs is not None:
            r = d.rhs.strip()
            if r.k == "BinaryOperator" and r.j.get("op") == "+" and r.children[1].const_value() == 1 and r.children[0].strip().k == "DeclRefExpr":
                adv = True
                sources.add(render(r.children[0]))
        if not adv or not cfg.node_dominates(d.node, use):
            continue
        ok, cut = cfg.all_paths_cut(cfg.block_of(d.node), lambda lit, b, i: lit is not None and lit.kind == "eq" and lit.pol and any(
            render(a) in ["%s[0]" % s2 for s2 in sources] + ["*%s" % s2 for s2 in sources] and b2.const_value() not in (None, 0)
            for a, b2 in ((lit.lhs, lit.rhs), (lit.rhs, lit.lhs))))
        if ok and cut:
            return True
    return False


def _is_len_of(node, X, f, rd):
    if node.k != "DeclRefExpr" or node.j.get("dk") != "local":
        return False
    defs = [d for d in rd.defs if d.var == node.j["name"] and d.kind in ("init", "assign")]
    return len(defs) == 1 and defs[0].rhs is not None and render(defs[0].rhs) == "strlen(%s)" % X


def s3(prog, ctx, fns, exc):
    tol = {r["key"]: r["reason"] for r in exc["backward_walks"]}
    n = 0
    for f in fns:
        for w in f.walk():
            if w.k not in ("WhileStmt", "DoStmt", "ForStmt"):
                continue
            cond = w.child("cond")
            if cond is None:
                continue
            body = w.child("body")
            decs = [x for x in list(cond.walk()) + (list(body.walk()) if body is not None else []) + (list(w.child("inc").walk()) if w.k == "ForStmt" and w.child("inc") is not None else [])
                    if x.k == "UnaryOperator" and x.j.get("op") == "--" and x.children[0].strip().j.get("ct", "").endswith("*")]
            if not decs:
                continue
            v = render(decs[0].children[0])
            if ("*" + v) not in render(cond) and ("*--" + v) not in render(cond):
                continue
            n += 1
            ctext = render(cond)
            ctext = re.sub(r"\(\*__ctype_b_loc\(\)\)\[(.+?)\] & _ISspace", r"isspace(\1)", ctext)
            bounded = any(x.k == "BinaryOperator" and x.j.get("op") in (">", ">=", "<", "<=") and v in (render(x.children[0]), render(x.children[1]))
                          and x.children[0].strip().j.get("ct", "").endswith("*") for x in cond.walk())
            origin = ""
            try:
                rd3 = ReachingDefs(f) if not hasattr(f, "_rd3") else f._rd3
                f._rd3 = rd3
                ds = [d for d in rd3.defs if d.var == v and d.kind in ("init", "assign") and d.rhs is not None and d.node is not None]
                outside = [d for d in ds if not d.node.within(w) and f.cfg.block_of(w.child("cond")) in f.cfg.reachable(f.cfg.block_of(d.node))]
                # the definition closest before the loop
                outside.sort(key=lambda d: d.node.line)
                outside = [d for d in outside if d.node.line <= w.line][-1:]
                if len(outside) == 1:
                    origin = render(outside[0].rhs)
            except Exception:
                origin = ""
            # key: names of the walking pointer and of parameters are abstracted, a local holding strlen(X) is resolved
            def _norm(t):
                t = t.replace("*--" + v, "*" + v).replace("*" + v + "--", "*" + v)
                t = re.sub(r"(?<![\w$.])%s(?![\w$.])" % re.escape(v), "$p", t)
                for d2 in f._rd3.defs:
                    if d2.kind in ("init", "assign") and d2.rhs is not None and render(d2.rhs).startswith("strlen(") and \
                            len([x for x in f._rd3.defs if x.var == d2.var and x.kind in ("init", "assign", "update")]) == 1:
                        t = re.sub(r"(?<![\w$.])%s(?![\w$.])" % re.escape(d2.var), render(d2.rhs), t)
                for k2, pnm in enumerate(f.param_names()):
                    t = re.sub(r"(?<![\w$.])%s(?![\w$.])" % re.escape(pnm), "$%d" % k2, t)
                return t
            key = "%s:%s:%s" % (f.name, _norm(ctext), _norm(origin))
            inst = "%s: backward walk `while (%s) %s--`" % (f.name, ctext, v)
            sentinel = False
            try:
                if not bounded and origin:
                    m0 = re.match(r"^\(?([\w.$]+) \+ strlen\(([\w.$]+)\)\)? - 1$", origin) or re.match(r"^([\w.$]+) \+ strlen\(([\w.$]+)\) - 1$", origin)
                    if m0 and m0.group(1) == m0.group(2):
                        sentinel = _advanced_past_char(f, f._rd3, m0.group(1), cond)
            except Exception:
                sentinel = False
            if bounded:
                ctx.ok("S3", inst, w.where, "the condition carries a lower bound for %s" % v)
            elif sentinel:
                ctx.ok("S3", inst, w.where, "walk starts at the end of a string that was advanced one past a tested non-blank character: that character stops it")
            elif key in tol and _exception_holds(prog, f, key):
                ctx.ok("S3", inst, w.where, "tolerated: " + tol[key])
            elif key in tol:
                ctx.fail("S3", inst, w.where,
                         "the sentinel this walk relies on is no longer established by its callers (%s): for a string of blanks it walks off the start of the buffer" % tol[key][:80],
                         key="backwalk-precondition:" + key)
            else:
                ctx.fail("S3", inst, w.where, "the pointer is decremented while the pointee matches, with no lower bound: it walks off the start of the buffer",
                         key="backwalk:" + key)
    ctx.floor("C04.S3 backward walks", n, 2)
    # S3b: a pointer set to the END of a string (X + strlen(X)) may be written through at offset +k only after it has certainly
    # been moved back k times - otherwise the store lands behind the terminator (for the empty string: behind the buffer)
    for f in fns:
        rd3 = ReachingDefs(f)
        cfg = f.cfg
        for d in rd3.defs:
            if d.kind not in ("init", "assign") or d.rhs is None or d.node is None:
                continue
            m3 = re.match(r"^([\w$.]+) \+ strlen\(([\w$.]+)\)$", render(d.rhs))
            if not m3 or m3.group(1) != m3.group(2):
                continue
            v = d.var
            dec_blocks = set(cfg.block_of(x) for x in f.walk() if x.k == "UnaryOperator" and x.j.get("op") == "--" and render(x.children[0]) == v)
            succ3 = {(b, i): s2 for (b, i, s2) in cfg.edges()}
            for lhs, rhs, st, kind in query.stores(f):
                l = lhs.strip()
                off = None
                if l.k == "UnaryOperator" and l.j.get("op") == "*":
                    p3 = l.children[0].strip()
                    if p3.k == "BinaryOperator" and p3.j.get("op") == "+" and render(p3.children[0]) == v:
                        off = p3.children[1].const_value()
                elif l.k == "ArraySubscriptExpr" and render(l.children[0]) == v:
                    off = l.children[1].const_value()
                if not off or off < 1:
                    continue
                if d not in rd3.reaching(v, st) and not any(x.var == v and x.kind == "update" for x in rd3.reaching(v, st)):
                    continue
                inst = "%s: `%s` writes at most the terminator" % (f.name, render(st))
                sb3 = cfg.block_of(st)
                def moved_or_inside(lit, b, i, v=v):
                    if succ3.get((b, i)) in dec_blocks or b in dec_blocks:
                        return True
                    # `*v != 0` : v does not stand on the terminator, so v+1 is at most the terminator
                    return lit is not None and lit.kind == "truth" and lit.pol and lit.atom in ("*" + v, v + "[0]")
                ok3, cut3 = cfg.all_paths_cut(sb3, moved_or_inside, start=cfg.block_of(d.node))
                # a non-empty string established on the way is as good for offset 1 only if the walk then stops at a character of it: not assumed
                if off == 1 and ok3 and cut3:
                    ctx.ok("S3", inst, st.where, "`%s` starts at the terminator and is moved back at least once (or tested not to stand on the terminator) on every path to the store" % v)
                elif off == 1:
                    ctx.fail("S3", inst, st.where,
                             "`%s` starts at the terminator of %s (%s) and a path reaches the store without having moved it back (a `--%s` that sits behind a "
                             "short-circuit test is not always executed): for an empty string the store writes one byte behind the terminator" % (
                                 v, m3.group(1), render(d.rhs), v), key="end-write:%s:%s" % (f.name, v))
                else:
                    ctx.inconclusive("S3", inst, st.where, "offset %s from an end-of-string pointer" % off)


def _exception_holds(prog, f, key):
    """preconditions of exception rows that rest on what the callers pass"""
    if f.name == "rtrim":
        # every caller passes the result of ltrim(): the first character is then not a blank (or the string is empty)
        from sa import query as q
        callers = q.callers_of(prog, "rtrim")
        if not callers:
            return False
        for cf, c in callers:
            a = c.call_args()[0].strip()
            if not (a.k == "CallExpr" and a.j.get("callee") == "ltrim"):
                return False
        # the walk itself is reached only with a non-empty string
        cfg = f.cfg
        rdx = ReachingDefs(f)
        p0 = f.param_names()[0]

        def is_len(n):
            n = n.strip()
            if n.k == "DeclRefExpr" and n.j.get("dk") == "local":
                ds = [d for d in rdx.defs if d.var == n.j["name"] and d.kind in ("init", "assign")]
                return len(ds) == 1 and ds[0].rhs is not None and render(ds[0].rhs) == "strlen(%s)" % p0
            return render(n) == "strlen(%s)" % p0

        def nonempty(lit, b, i):
            if lit is None:
                return False
            if lit.kind == "lt":
                return lit.pol and isinstance(lit.lhs.const_value(), int) and lit.lhs.const_value() >= 0 and is_len(lit.rhs)     # c < strlen(s), c >= 0
            if lit.kind == "eq":
                return (not lit.pol) and ((lit.lhs.const_value() == 0 and is_len(lit.rhs)) or (lit.rhs.const_value() == 0 and is_len(lit.lhs)))
            return lit.kind == "truth" and lit.pol and is_len(lit.node)
        walks = [w for w in f.walk() if w.k in ("WhileStmt", "DoStmt", "ForStmt")]
        for w in walks:
            ok, cut = cfg.all_paths_cut(cfg.loop_header(w), nonempty)
            if not (ok and cut):
                return False
        lt = prog.fn("ltrim")
        return any(x.k in ("WhileStmt", "ForStmt") and x.child("cond") is not None and ("__ctype_b_loc" in render(x.child("cond")) or "isspace(" in render(x.child("cond"))) for x in lt.walk())
    return True


def s7(prog, ctx, fns):
    n = 0
    for f in fns:
        for c in f.calls("realloc"):
            n += 1
            a0 = render(c.call_args()[0])
            up = c.up()
            inst = "%s: realloc(%s, ...)" % (f.name, a0)
            tgt = None
            if up is not None and up.k == "BinaryOperator" and up.j.get("op") == "=":
                tgt = render(up.children[0])
            elif up is not None and up.k == "DeclStmt":
                tgt = up.j["decls"][0]["name"]
            # S7b: the new size must not be zero (realloc(p, 0) frees p and returns NULL: the array is lost / freed twice)
            size = c.call_args()[1]
            stxt = render(size)
            positive = bool(re.search(r"\+ [1-9]|\+\+|[1-9]\d* \+", stxt)) or (size.const_value() or 0) > 0
            if not positive:
                names = set(x.j["name"] if x.k == "DeclRefExpr" else render(x) for x in size.walk() if x.k in ("DeclRefExpr", "MemberExpr") and x.j.get("ct") not in (None,))
                cfg = f.cfg
                guard_ok = False
                for nm in [render(x) for x in size.walk() if x.is_expr() and x.strip().k in ("DeclRefExpr", "MemberExpr", "UnaryOperator") and x.strip().j.get("sg") is not None]:
                    okg, cut = cfg.all_paths_cut(cfg.block_of(c), lambda lit, b, i, nm=nm: lit is not None and lit.pol and (
                        (lit.kind == "lt" and lit.lhs.const_value() == 0 and render(lit.rhs) == nm) or (lit.kind == "truth" and lit.atom == nm) or
                        # x < nm with x unsigned: nm is at least 1
                        (lit.kind == "lt" and render(lit.rhs) == nm and (lit.lhs.strip().j.get("sg") is False or "unsigned" in (lit.lhs.strip().j.get("ct") or "")))))
                    if okg and cut:
                        guard_ok = True
                if not guard_ok:
                    # an operand that was incremented on the way (alloc_length++; realloc(alloc_length * size))
                    for lhs2, rhs2, st2, kind2 in query.stores(f):
                        if kind2 == "++" and render(lhs2) in stxt and cfg.node_dominates(st2, c):
                            guard_ok = True
                        # `n += 1` / `n = n + 1` of an unsigned count
                        elif render(lhs2) in stxt and cfg.node_dominates(st2, c) and rhs2 is not None and (
                                lhs2.strip().j.get("sg") is False or "unsigned" in (lhs2.strip().j.get("ct") or "")) and (
                                (kind2 in ("+=", "op=") and st2.j.get("op") == "+=" and (rhs2.const_value() or 0) >= 1) or
                                (kind2 == "=" and render(rhs2).replace(" ", "") in ("%s+1" % render(lhs2).replace(" ", ""), "1+%s" % render(lhs2).replace(" ", "")))):
                            guard_ok = True
                if not guard_ok:
                    # a capacity variable: set to positive constants only, otherwise only handed to getline/getdelim (which never shrink it to 0)
                    s0 = size.strip()
                    while s0.k in ("ImplicitCastExpr", "ParenExpr", "CStyleCastExpr") and s0.children:
                        s0 = s0.children[0].strip()
                    if s0.k == "BinaryOperator" and s0.j.get("op") == "*":
                        a8, b8 = s0.children[0].strip(), s0.children[1].strip()
                        for x8, c8 in ((a8, b8), (b8, a8)):
                            if (c8.const_value() or 0) > 0 and c8.k != "DeclRefExpr":
                                s0 = x8
                                while s0.k in ("ImplicitCastExpr", "ParenExpr", "CStyleCastExpr") and s0.children:
                                    s0 = s0.children[0].strip()
                                break
                    if s0.k == "DeclRefExpr" and s0.j.get("dk") == "local":
                        v = s0.j["name"]
                        defs = [(l2, r2) for l2, r2, st2 in f.assignments() if (l2["name"] if isinstance(l2, dict) else render(l2)) == v]
                        consts = bool(defs) and all(r2 is not None and (r2.const_value() or 0) > 0 for l2, r2 in defs)
                        others = [st2 for l2, r2, st2, k2 in query.stores(f) if render(l2) == v and k2 != "="]
                        addr = [x for x in f.walk() if x.k == "UnaryOperator" and x.j.get("op") == "&" and render(x.children[0]) == v]
                        addr_ok = all(x.up() is not None and x.up().k == "CallExpr" and x.up().j.get("callee") in ("getline", "getdelim", "__getdelim") for x in addr)
                        if consts and not others and addr_ok:
                            guard_ok = True
                        # ... or every definition is positive: a positive constant, `x + c`, or `x * c` behind a test `x > 0`
                        def _positive(l2, r2, st2):
                            if r2 is None:
                                return False
                            if (r2.const_value() or 0) > 0:
                                return True
                            r9 = r2.strip()
                            while r9.k in ("ImplicitCastExpr", "ParenExpr", "CStyleCastExpr") and r9.children:
                                r9 = r9.children[0].strip()
                            if r9.k == "BinaryOperator" and r9.j.get("op") in ("+", "*"):
                                a9, b9 = r9.children[0].strip(), r9.children[1].strip()
                                for x9, c9 in ((a9, b9), (b9, a9)):
                                    if (c9.const_value() or 0) >= 1:
                                        if r9.j["op"] == "+" and (x9.j.get("sg") is False or "unsigned" in (x9.j.get("ct") or "")):
                                            return True
                                        xt = render(x9)
                                        okx, cutx = cfg.all_paths_cut(cfg.block_of(st2), lambda lit, b, i, xt=xt: lit is not None and lit.pol and (
                                            (lit.kind == "lt" and lit.lhs.const_value() == 0 and render(lit.rhs) == xt) or (lit.kind == "truth" and lit.atom == xt)))
                                        if okx and cutx:
                                            return True
                            return False
                        if not guard_ok and defs and not others and not addr and all(_positive(l2, r2, st2) for (l2, r2), st2 in zip(defs, [s3 for l3, r3, s3 in f.assignments() if (l3["name"] if isinstance(l3, dict) else render(l3)) == v])):
                            guard_ok = True
                if guard_ok:
                    ctx.ok("S7", inst + ": size is not zero", c.where, "`%s` behind a > 0 test / after an increment / a capacity that starts positive" % stxt)
                else:
                    ctx.fail("S7", inst + ": size is not zero", c.where,
                             "the new size `%s` can be zero (e.g. merging two files without entries): realloc(p, 0) frees the block and returns NULL, "
                             "which the code takes for a live array or a failure to clean up (double free)" % stxt, key="realloc-zero:%s:%s" % (f.name, a0))
            else:
                ctx.ok("S7", inst + ": size is not zero", c.where, "`%s` is at least one element" % stxt)
            if tgt is None:
                ctx.fail("S7", inst, c.where, "the result of realloc() is discarded: the block may have moved and `%s` is stale" % a0, key="realloc:%s:%s" % (f.name, a0))
            elif tgt == a0:
                ctx.ok("S7", inst, c.where, "assigned back to the same lvalue")
            else:
                back = [st for lhs, rhs, st, kind in query.stores(f) if render(lhs) == a0 and rhs is not None and (
                    render(rhs) == tgt or (rhs.strip().k == "DeclRefExpr" and rhs.strip().j.get("name") == tgt)) and f.cfg.node_dominates(c, st)]
                if back:
                    ctx.ok("S7", inst, c.where, "%s = %s after the NULL test" % (a0, tgt))
                else:
                    ctx.fail("S7", inst, c.where, "result kept in `%s` but `%s` is not updated: later uses read freed memory" % (tgt, a0), key="realloc:%s:%s" % (f.name, a0))
    ctx.floor("C04.S7 realloc sites", n, 6)


def _backward_scan(f, cfg, w, hb, cond, body):
    """None when the loop is not of the form; ("ok"|"fail"|"unknown", text) otherwise"""
    if cond is None or body is None or w.k != "WhileStmt":
        return None
    decs = [(render(lhs), st) for lhs, rhs, st, kind in query.stores(f) if st.within(w) and (
        (kind == "++" and st.j.get("op") == "--") or (kind == "op=" and st.j.get("op") == "-=" and (rhs.const_value() or 0) >= 1))]
    for v, dst in decs:
        lhs0 = dst.children[0].strip()
        if lhs0.k != "DeclRefExpr" or lhs0.j.get("dk") not in ("local", "param") or "*" in (lhs0.j.get("ct") or lhs0.j.get("t") or ""):
            continue
        subs = [x for x in cond.walk() if x.k == "ArraySubscriptExpr" and re.fullmatch(re.escape(v) + r"( - [0-9]+)?", render(x.children[1]))]
        if not subs:
            continue
        other = [st for lhs, rhs, st, kind in query.stores(f) if st.within(w) and render(lhs) == v and st is not dst]
        if other:
            return ("unknown", "`%s` is stepped back and also written otherwise in the loop" % v)
        m = re.fullmatch(re.escape(v) + r"(?: - ([0-9]+))?", render(subs[0].children[1]))
        off = int(m.group(1) or 0)
        # a lower bound among the conjuncts in front of the subscript
        bounded = False

        def conj(e):
            e2 = e.strip()
            if e2.k == "BinaryOperator" and e2.j.get("op") == "&&":
                return conj(e2.children[0]) + conj(e2.children[1])
            return [e2]
        for cj in conj(cond):
            if any(x is subs[0] for x in cj.walk()):
                break
            t9 = render(cj)
            m2 = re.fullmatch(re.escape(v) + r" (>|>=|!=) ([0-9]+)", t9) or None
            if t9 == v and off <= 1:
                bounded = True
            elif m2:
                low = int(m2.group(2)) + (1 if m2.group(1) in (">", "!=") else 0)      # the smallest value v can have when the subscript is read
                if m2.group(1) == "!=" and int(m2.group(2)) != 0:
                    continue
                if low - off >= 0:
                    bounded = True
            m3 = re.fullmatch(r"([0-9]+) (<|<=) " + re.escape(v), t9)
            if m3 and int(m3.group(1)) + (1 if m3.group(2) == "<" else 0) - off >= 0:
                bounded = True
        if bounded:
            return ("ok", "`%s` counts down and is tested against its lower bound before `%s` is read" % (v, render(subs[0])))
        # something established before the loop (a test of the length, of the first character, ...)?  not followed
        req = cfg.required_literals(hb)
        arr = render(subs[0].children[0])
        if any(v in l.atom or arr in l.atom for l in req if l is not None and l.atom not in (arr,)):
            return ("unknown", "backward scan over `%s` without a bound in the condition; a test before the loop may provide one" % arr)
        return ("fail", "`%s` is read while `%s` counts down, with nothing that stops at the start of the text: for a text of blanks only (or an empty one) "
                        "the scan reads in front of the buffer" % (render(subs[0]), v))
    return None


def s8(prog, ctx, fns, exc):
    tol = {r["key"]: r["reason"] for r in exc["loops"]}
    n = 0
    for f in fns:
        cfg = f.cfg
        for w in f.walk():
            if w.k not in ("WhileStmt", "DoStmt", "ForStmt"):
                continue
            n += 1
            cond = w.child("cond")
            ctext = render(cond) if cond is not None else ""
            ctext = re.sub(r"\(\*__ctype_b_loc\(\)\)\[(.+?)\] & _ISspace", r"isspace(\1)", ctext)
            inst = "%s: loop at line %d" % (f.name, w.line)
            hb = cfg.loop_header(w)
            if hb is None:
                ctx.inconclusive("S8", inst, w.where, "loop header not found in the CFG")
                continue
            body = w.child("body")
            calls_in_cond = [x.j.get("callee") for x in (cond.walk() if cond is not None else []) if x.k == "CallExpr"]
            if any(c in ("getline", "getdelim", "fgets") for c in calls_in_cond):
                ctx.ok("S8", inst, w.where, "driven by getline(): one line of a finite file per round")
                continue
            if "strsep" in calls_in_cond or "strtok_r" in calls_in_cond:
                ctx.ok("S8", inst, w.where, "driven by strsep(): consumes its input")
                continue
            if w.k == "ForStmt" and w.child("inc") is not None and any(
                    x.k == "CallExpr" and x.j.get("callee") in ("strsep", "strtok", "strtok_r") for x in w.child("inc").walk()):
                ctx.ok("S8", inst, w.where, "driven by a tokenizer call in the increment: consumes its input")
                continue
            # a search that moves on behind its last hit:  p = strchr(p + 1, c)  while p != NULL  (in the increment of a for, in the
            # condition of a while, or as the last statement of the body): every round is further right in a finite string
            SEARCH = ("strchr", "strstr", "strpbrk", "memchr", "strcasestr")
            stepping = []
            for x in w.walk():
                if x.k == "BinaryOperator" and x.j.get("op") == "=" and x.children[1].strip().k == "CallExpr" and x.children[1].strip().j.get("callee") in SEARCH:
                    v9 = render(x.children[0])
                    a9 = x.children[1].strip().call_args()
                    if a9 and re.fullmatch(re.escape(v9) + r" \+ [1-9]\d*", render(a9[0])):
                        stepping.append((x, v9))
            if not stepping and cond is not None and body is not None:
                # `while ((s = strchr(s, c)) != NULL) { ...; s++; }`: the search in the condition, the step behind the hit in the body
                for x in cond.walk():
                    if x.k == "BinaryOperator" and x.j.get("op") == "=" and x.children[1].strip().k == "CallExpr" and x.children[1].strip().j.get("callee") in SEARCH:
                        v9 = render(x.children[0])
                        a9 = x.children[1].strip().call_args()
                        if a9 and render(a9[0]) == v9:
                            tops = body.children if body.k == "CompoundStmt" else [body]
                            steps9 = [t9 for t9 in tops if (t9.strip().k == "UnaryOperator" and t9.strip().j.get("op") == "++" and render(t9.strip().children[0]) == v9)
                                      or (t9.strip().k == "CompoundAssignOperator" and t9.strip().j.get("op") == "+=" and render(t9.strip().children[0]) == v9
                                          and (t9.strip().children[1].const_value() or 0) >= 1)]
                            if steps9:
                                stepping.append((x, v9))
            if stepping and cond is not None:
                v9 = stepping[0][1]
                cl = render(cond)
                tests_v = cl in (v9, "%s != NULL" % v9) or cl.startswith("(%s = " % v9) or ("%s != NULL" % v9) in cl or cl.startswith(v9 + " &&")
                others = [st for lhs, rhs, st, kind in query.stores(f) if st.within(w) and render(lhs) == v9 and st is not stepping[0][0] and kind not in ("++", "+=")]
                if tests_v and not others:
                    ctx.ok("S8", inst, w.where, "`%s` moves on behind its last hit in a finite string until the search answers NULL" % render(stepping[0][0])[:60])
                    continue
            # the same with two variables and the exit in the middle:  for (;;) { end = strchr(line, c); ...; if (!end) break; line = end + 1; }
            two = None
            for x in w.walk():
                if x.k in ("BinaryOperator", "DeclStmt"):
                    if x.k == "BinaryOperator" and x.j.get("op") == "=" and x.children[1].strip().k == "CallExpr" and x.children[1].strip().j.get("callee") in SEARCH:
                        e9, call9 = render(x.children[0]), x.children[1].strip()
                    elif x.k == "DeclStmt" and x.j.get("decls") and x.j["decls"][0].get("init", -1) >= 0 and f.nodes[x.j["decls"][0]["init"]].strip().k == "CallExpr" \
                            and f.nodes[x.j["decls"][0]["init"]].strip().j.get("callee") in SEARCH:
                        e9, call9 = x.j["decls"][0]["name"], f.nodes[x.j["decls"][0]["init"]].strip()
                    else:
                        continue
                    l9 = render(call9.call_args()[0]) if call9.call_args() else None
                    adv = [st for lhs, rhs, st, kind in query.stores(f) if st.within(w) and kind == "=" and render(lhs) == l9 and rhs is not None
                           and re.fullmatch(re.escape(e9) + r" \+ [1-9]\d*", render(rhs))]
                    others9 = [st for lhs, rhs, st, kind in query.stores(f) if st.within(w) and render(lhs) == l9 and st not in adv]
                    if l9 and len(adv) == 1 and not others9:
                        # every way from the search to the step passes `e9 != NULL`; the other side leaves the loop
                        okb, cutb = cfg.all_paths_cut(cfg.block_of(adv[0]), lambda lit, b, i, e9=e9: lit is not None and lit.kind == "truth" and lit.atom == e9 and lit.pol,
                                                      start=cfg.block_of(x))
                        if okb and cutb:
                            two = (x, adv[0])
            if two is not None:
                ctx.ok("S8", inst, w.where, "`%s` ... `%s`: each round starts behind the last hit of a search in a finite string, and ends the loop when there is none" % (
                    render(two[0])[:40], render(two[1])[:30]))
                continue
            if w.k == "ForStmt":
                sh = loops.for_shape(w)
                if not sh.ok:
                    sh2 = loops.index_shape(w)      # further conjuncts in the condition can only end the loop earlier
                    if sh2.ok:
                        sh = sh2
                if sh.ok:
                    # bound must not be moved away inside the body
                    bnames = set(re.findall(r"[A-Za-z_]\w*(?:->\w+)*", sh.bound or ""))
                    moved = [st for lhs, rhs, st, kind in query.stores(f) if st.within(body) and render(lhs) in bnames] if body is not None else []
                    if moved and not _bound_grows_bounded(f, w, sh, moved):
                        ctx.inconclusive("S8", inst, w.where, "the bound `%s` is modified inside the loop (%s)" % (sh.bound, render(moved[0])))
                    else:
                        ctx.ok("S8", inst, w.where, sh.describe())
                    continue
                key = "%s:for" % f.name
                kind, v, why = _driven_loop(f, cfg, w, hb, cond)
                if kind == "ok":
                    ctx.ok("S8", inst, w.where, why)
                elif kind == "stuck":
                    ctx.fail("S8", inst, w.where, "a way round the loop does not advance `%s`: with matching input the loop never ends" % v, key="noprogress:" + key)
                elif key in tol:
                    ctx.ok("S8", inst, w.where, "tolerated: " + tol[key])
                elif kind == "nostop":
                    ctx.fail("S8", inst, w.where, "the scan only stops at a particular character, not at the end of the string", key="nostop:" + key)
                else:
                    ctx.inconclusive("S8", inst, w.where, "for loop not recognised: %s" % sh.describe())
                continue
            # a scan from the end towards the start: `while (isspace(s[n - 1])) n--;` needs its own lower bound - the characters tested
            # do not provide one (a text of blanks only, or an empty one)
            back = _backward_scan(f, cfg, w, hb, cond, body)
            if back is not None:
                kind9, why9 = back
                if kind9 == "ok":
                    ctx.ok("S8", inst, w.where, why9)
                elif kind9 == "fail":
                    ctx.fail("S8", inst, w.where, why9, key="backscan:%s" % f.name)
                else:
                    ctx.inconclusive("S8", inst, w.where, why9)
                continue
            # while / do loops (and for loops that are not counting loops): which variable drives the loop?
            key = "%s:%s" % (f.name, ctext)
            verdict = _driven_loop(f, cfg, w, hb, cond)
            kind, v, why = verdict
            if kind == "ok":
                ctx.ok("S8", inst, w.where, why)
            elif kind == "stuck":
                ctx.fail("S8", inst, w.where, "a way round the loop does not advance `%s`: with matching input the loop never ends" % v, key="noprogress:" + key)
            elif kind == "nostop":
                if key in tol:
                    ctx.ok("S8", inst, w.where, "tolerated: " + tol[key])
                else:
                    ctx.fail("S8", inst, w.where, "the scan only stops at a particular character, not at the end of the string", key="nostop:" + key)
            elif key in tol:
                ctx.ok("S8", inst, w.where, "tolerated: " + tol[key])
            else:
                ctx.inconclusive("S8", inst, w.where, "condition `%s` not recognised" % ctext)
    ctx.floor("C04.S8 loops", n, 30)


def _deref_of(n, v):
    """is n the character the scan variable v points at / indexes: *v, *++v, *v++, v[0], X[v]"""
    n = n.strip()
    if n.k == "UnaryOperator" and n.j.get("op") == "*":
        o = n.children[0].strip()
        if o.k == "UnaryOperator" and o.j.get("op") in ("++", "--"):
            o = o.children[0].strip()
        return o.k == "DeclRefExpr" and o.j.get("name") == v
    if n.k == "ArraySubscriptExpr":
        b, ix = n.children[0].strip(), n.children[1].strip()
        if b.k == "DeclRefExpr" and b.j.get("name") == v and ix.const_value() == 0:
            return True
        if ix.k == "UnaryOperator" and ix.j.get("op") in ("++", "--"):
            ix = ix.children[0].strip()
        return ix.k == "DeclRefExpr" and ix.j.get("name") == v
    return False


def _value_at_terminator(n, v):
    """value of the pure expression n when the scanned character is the terminator 0 (None = unknown)"""
    n = n.strip()
    if _deref_of(n, v):
        return 0
    if n.is_null_const():
        return 0
    cv = n.const_value()
    if cv is not None:
        return cv
    k = n.k
    if k == "UnaryOperator" and n.j.get("op") == "!":
        x = _value_at_terminator(n.children[0], v)
        return None if x is None else int(not x)
    if k == "BinaryOperator":
        op = n.j.get("op")
        a = _value_at_terminator(n.children[0], v)
        b = _value_at_terminator(n.children[1], v)
        if op == "=":
            return b
        if op == "&&":
            if a == 0 or b == 0:
                return 0
            return None if a is None or b is None else 1
        if op == "||":
            if (a is not None and a != 0) or (b is not None and b != 0):
                return 1
            return None if a is None or b is None else 0
        if op == "&" and "__ctype_b_loc" in render(n.children[0]) and "_IScntrl" not in render(n.children[1]):
            ix = n.children[0].strip()
            if ix.k == "ArraySubscriptExpr" and _value_at_terminator(ix.children[1], v) == 0:
                return 0        # no <ctype.h> class except cntrl contains NUL
        if a is None or b is None:
            return None
        if op in ("==", "!=", "<", ">", "<=", ">="):
            return int({"==": a == b, "!=": a != b, "<": a < b, ">": a > b, "<=": a <= b, ">=": a >= b}[op])
    if k == "CallExpr" and n.j.get("callee") in ("isspace", "isdigit", "isalpha", "isalnum", "isblank", "isupper", "islower", "ispunct", "isxdigit", "isprint", "isgraph") \
            and n.call_args() and _value_at_terminator(n.call_args()[0], v) == 0:
        return 0
    return None


def _every_round_moves(cfg, hb, movers):
    """does every cycle through the loop header pass a block that moves the variable?"""
    if hb in movers:
        return True
    nl = cfg.natural_loop(hb)
    allowed = set(nl) - set(movers)
    seen, work = set(), [s2 for (b, i2, s2) in cfg.edges() if b == hb and s2 in nl]
    while work:
        b = work.pop()
        if b == hb:
            return False
        if b in seen or b not in allowed:
            continue
        seen.add(b)
        work.extend(s2 for (bb, i2, s2) in cfg.edges() if bb == b and s2 in nl)
    return True


def _conjuncts(e):
    e2 = e.strip()
    if e2.k == "BinaryOperator" and e2.j.get("op") == "&&":
        return _conjuncts(e2.children[0]) + _conjuncts(e2.children[1])
    return [e2]


def _driven_loop(f, cfg, w, hb, cond):
    """('ok'|'stuck'|'nostop'|'unknown', variable, reason) for a loop that is not a canonical counting for-loop"""
    if cond is None:
        return ("unknown", None, "no condition")
    try:
        trs = [t for t in loops.traversals(w) if t.ptr]
    except Exception:
        trs = []
    if trs:
        return ("ok", trs[0].var, "pointer walk: %s, one step per round" % trs[0].describe())
    parts = [cond, w.child("body")] + ([w.child("inc")] if w.k == "ForStmt" else [])
    movers = {}
    for part in parts:
        for x in (part.walk() if part is not None else []):
            tgt = None
            if x.k == "UnaryOperator" and x.j.get("op") in ("++", "--"):
                tgt, d = x.children[0].strip(), (1 if x.j["op"] == "++" else -1)
            elif x.k == "CompoundAssignOperator" and x.j.get("op") in ("+=", "-="):
                cvv = x.children[1].const_value()
                tgt, d = x.children[0].strip(), (0 if not cvv else (1 if (x.j["op"] == "+=") == (cvv > 0) else -1))
            if tgt is not None and tgt.k == "DeclRefExpr":
                movers.setdefault(tgt.j["name"], []).append((x, d))
    cands = [v for v in movers if query.mentions_name(cond, v)]
    verdicts = []
    stored = set()
    for lhs, rhs, st, kind in query.stores(f):
        if st.within(w):
            stored.add(render(lhs))
    for v in cands:
        dirs = set(d for _, d in movers[v])
        moves = _every_round_moves(cfg, hb, set(cfg.block_of(x) for x, _ in movers[v]))
        uses_char = any(_deref_of(x, v) for x in cond.walk())
        if uses_char:
            if not moves:
                verdicts.append(("stuck", v, ""))
                continue
            if dirs == {-1}:
                verdicts.append(("ok", v, "backward walk over `%s`: one step per round; its lower bound is obligation S3" % v))
                continue
            val = _value_at_terminator(cond, v)
            if val == 0 and dirs == {1}:
                verdicts.append(("ok", v, "scan over `%s`: every round moves it, the terminator (NUL / NULL entry) ends the loop" % v))
            elif val is not None and val != 0:
                verdicts.append(("nostop", v, ""))
            else:
                verdicts.append(("unknown", v, ""))
            continue
        # counting: a conjunct v < B / v <= B (B untouched in the loop), v stepping up; or v > 0 stepping down
        for c in _conjuncts(cond):
            if c.k != "BinaryOperator" or c.j.get("op") not in ("<", "<=", ">", ">=", "!="):
                continue
            a, b = c.children[0].strip(), c.children[1].strip()
            op = c.j["op"]
            if a.k == "UnaryOperator" and a.j.get("op") in ("++", "--") and a.children[0].strip().k == "DeclRefExpr":
                a = a.children[0].strip()          # while (++p < end): the step sits in the test itself
            if b.k == "DeclRefExpr" and b.j.get("name") == v and a.k != "DeclRefExpr":
                a, b, op = b, a, {"<": ">", "<=": ">=", ">": "<", ">=": "<=", "!=": "!="}[op]
            if not (a.k == "DeclRefExpr" and a.j.get("name") == v):
                continue
            btxt = render(b)
            if btxt in stored or any(t in stored for t in re.findall(r"[A-Za-z_][\w$.]*(?:->\w+|\.\w+)*", btxt)):
                continue
            if op in ("<", "<=") and dirs == {1}:
                verdicts.append(("ok", v, "counting loop: `%s` grows every round towards the fixed bound `%s`" % (v, btxt)) if moves else ("stuck", v, ""))
            elif op in (">", ">=") and dirs == {-1}:
                verdicts.append(("ok", v, "counting loop: `%s` shrinks every round towards `%s`" % (v, btxt)) if moves else ("stuck", v, ""))
    for kind in ("stuck", "ok", "nostop", "unknown"):
        for vd in verdicts:
            if vd[0] == kind:
                return vd
    # a scanned variable that is never moved at all
    for x in cond.walk():
        if x.k == "UnaryOperator" and x.j.get("op") == "*" and x.children[0].strip().k == "DeclRefExpr" and x.children[0].strip().j.get("dk") in ("local", "param"):
            v = x.children[0].strip().j["name"]
            if v not in movers and not any(render(l) == v for l, r2, st, k2 in query.stores(f) if st.within(w)):
                if not any(c2.k == "CallExpr" for c2 in w.walk()):
                    return ("stuck", v, "")
    return ("unknown", None, "")


def _bound_grows_bounded(f, w, sh, moved):
    return False


def run(prog, ctx):
    exc = exceptions()
    reach = reachable_from_exports(prog)
    fns = [f for f in prog.lib_functions() if f.name in reach]
    for f in fns:
        ctx.touch(f)
    s1(prog, ctx, fns, exc)
    s2(prog, ctx, fns, exc)
    s2b(prog, ctx, fns)
    s3(prog, ctx, fns, exc)
    # S4 = C03.M4/M5, S5 = C14 overflow verdicts, S6 = C20 typestate memory errors
    from sa.report import Ctx
    from rules import C03, C14, own_rules
    sub = Ctx(ctx.prop, ctx.tier, prog)
    C03.run(prog, sub)
    for ob in sub.obs:
        if ob.rule in ("M4",):
            ob.rule = "S4"
            ctx.obs.append(ob)
    from rules import common
    n4 = 0
    for f in fns:
        n4 += common.unsigned_minus_indices(ctx, "S4", f)
    ctx.counts["S4 indices E-k with unsigned E"] = n4
    sub = Ctx(ctx.prop, ctx.tier, prog)
    C14.judge(prog, sub, False)
    for ob in sub.obs:
        if ob.outcome == "FAIL" and "truncation" in ob.why and "overflow" not in ob.why:
            continue        # truncation loses data but corrupts nothing: C14's business
        ob.rule = "S5"
        ctx.obs.append(ob)
    for n in own_rules.LIB_FUNCS:
        if prog.has_fn(n):
            a = own_rules.analyse(prog, n)
            own_rules.report(ctx, "S6", n, a, only_kinds=("double-free", "use-after-free", "free-after-move", "dangling-out-pointer", "null-object"))
    s7(prog, ctx, fns)
    s8(prog, ctx, fns, exc)
    s10_counter_width(prog, ctx, fns)
    common.index_param_rule(prog, ctx, "S14")
    s13_entry_subscripts(prog, ctx, fns)
    s15_deref_known_null(prog, ctx, fns)
    s16_guard_complete(prog, ctx, fns)
    s11_stack_alloc(prog, ctx, fns, "S11")
    s9(prog, ctx, reach)


def s11_stack_alloc(prog, ctx, fns, rule):
    """alloca() / strdupa() / strndupa(): the size must not depend on the length of configuration text (section names, keys, values -
    unbounded, and listed from files); sizes computed from file and directory names are limited by the operating system."""
    import json as _json
    import os as _os
    from sa.facts import VERIF as _V
    names = set(_json.load(open(_os.path.join(_V, "rules", "tables", "buffers.json")))["content_params"]["names"])
    n = 0
    for f in fns:
        pn = set(f.param_names())
        for c in f.calls(("alloca", "__builtin_alloca", "__builtin_alloca_with_align")):
            n += 1
            args = c.call_args()
            if not args:
                continue
            # the strings whose length enters the size, through locals (`__len = strlen(__old) + 1`, `__old = group`)
            seen, todo, roots = set(), [args[0]], set()
            depth = 0
            while todo and depth < 40:
                depth += 1
                e = todo.pop()
                for x in e.walk():
                    if x.k == "DeclRefExpr" and x.j.get("dk") in ("local", "param"):
                        nm = x.j["name"]
                        if nm in seen:
                            continue
                        seen.add(nm)
                        if x.j.get("dk") == "param" or nm in pn:
                            roots.add(nm)
                        for l9, r9, s9 in f.assignments():
                            if (l9["name"] if isinstance(l9, dict) else render(l9)) == nm and r9 is not None:
                                todo.append(r9)
            const = args[0].const_value()
            bad = sorted(r for r in roots if r in names)
            inst = "%s: stack allocation of %s bytes" % (f.name, render(args[0])[:50])
            if const is not None:
                ctx.ok(rule, inst, c.where, "constant size")
            elif bad:
                ctx.fail(rule, inst, c.where,
                         "the size follows the length of `%s` - configuration text of any length (a section name or key listed from a file): a name of a few "
                         "megabytes overruns the stack" % bad[0], key="alloca:%s:%s" % (f.name, bad[0]))
            else:
                ctx.ok(rule, inst, c.where, "sized by %s: file / directory names, limited by the operating system" % (sorted(roots) or "no parameter"))
    ctx.counts["%s stack allocations" % rule] = n


def s13_entry_subscripts(prog, ctx, fns):
    """S13: `obj->file_entry[obj->length]` is the slot BEHIND the entries in use.  It may be touched only where that slot is being
    created (the array was just grown to length + 1 and the count is stepped right after); everywhere else the last entry is
    `[obj->length - 1]`."""
    n = 0
    for f in fns:
        cfg = f.cfg
        for x in f.walk():
            if x.k != "ArraySubscriptExpr" or not render(x.children[0]).endswith("file_entry"):
                continue
            base = render(x.children[0])[:-len("file_entry")]
            it = render(x.children[1]).replace(" - 0", "")
            if it not in (base + "length", "(" + base + "length)"):
                continue
            n += 1
            grows = [c for c in f.calls("realloc") if ("%slength + 1" % base) in render(c) and cfg.node_dominates(c, x)]
            steps = [st for l, r, st, k in query.stores(f) if k == "++" and render(l) == base + "length" and (st is x.children[1].strip() or st.within(x) or cfg.node_dominates(x, st))]
            if grows and steps:
                ctx.ok("S13", "%s: %s" % (f.name, render(x)[:50]), x.where, "the slot being created: array grown to length + 1, the count stepped afterwards")
            elif any(st.within(x) for st in steps):
                ctx.ok("S13", "%s: %s" % (f.name, render(x)[:50]), x.where, "the count is stepped in the subscript itself")
            elif any(l9 is not None and l9.kind == "lt" and ((l9.pol and render(l9.lhs) == base + "length" and render(l9.rhs) == base + "alloc_length") or (
                    not l9.pol and render(l9.rhs) == base + "length" and render(l9.lhs) == base + "alloc_length") or (
                    not l9.pol and render(l9.lhs) == base + "length" and render(l9.rhs) == base + "alloc_length" and False))
                    for l9 in cfg.required_literals(cfg.block_of(x), expand_locals=False)) or any(
                    l9 is not None and l9.kind == "lt" and not l9.pol and render(l9.lhs) == base + "length" and render(l9.rhs) == base + "alloc_length" and False
                    for l9 in []):
                ctx.ok("S13", "%s: %s" % (f.name, render(x)[:50]), x.where, "behind `length < alloc_length`: a spare slot inside the capacity")
            else:
                ctx.fail("S13", "%s: %s" % (f.name, render(x)[:50]), x.where,
                         "`%s` addresses the slot behind the entries in use (the last entry is [%slength - 1]): a write lands outside the array when it is full, a read "
                         "returns what happens to be there" % (render(x)[:60], base), key="entry-behind:%s" % f.name)
    ctx.counts["S13 subscripts with the entry count"] = n


def s15_deref_known_null(prog, ctx, fns):
    """S15: a pointer is not dereferenced where the tests on the way say it is NULL (`if (length == NULL) *length = 0;`): the test and
    the use contradict each other - one of them is wrong, and the use crashes."""
    n = 0
    for f in fns:
        cfg = f.cfg
        # edges that say "<name> is NULL"
        null_edges = {}
        for (b, i, s2) in cfg.edges():
            l = cfg.edge_lit(b, i)
            if l is None:
                continue
            nm = None
            if l.kind == "truth" and not l.pol and l.node is not None and l.node.strip().k == "DeclRefExpr":
                nm = l.atom
            elif l.kind == "eq" and l.pol and (l.lhs.is_null_const() or l.rhs.is_null_const()):
                o = l.rhs if l.lhs.is_null_const() else l.lhs
                if o.strip().k == "DeclRefExpr":
                    nm = render(o)
            if nm:
                null_edges.setdefault(nm, []).append((b, i))
        if not null_edges:
            continue
        for x in f.walk():
            p = None
            if x.k == "UnaryOperator" and x.j.get("op") == "*" and x.children[0].strip().k == "DeclRefExpr":
                p = x.children[0].strip()
            elif x.k == "MemberExpr" and x.j.get("arrow") and x.children[0].strip().k == "DeclRefExpr":
                p = x.children[0].strip()
            elif x.k == "ArraySubscriptExpr" and x.children[0].strip().k == "DeclRefExpr" and (x.children[0].strip().j.get("ct") or "").endswith("*"):
                p = x.children[0].strip()
            if p is None or p.j.get("dk") not in ("param", "local") or p.j["name"] not in null_edges:
                continue
            if x.parent is not None and x.parent.k == "UnaryExprOrTypeTraitExpr":
                continue
            d = cfg.block_of(x)
            name = p.j["name"]
            if d is None or d not in cfg.reachable(cfg.entry):
                continue
            if d in cfg.reachable(cfg.entry, avoid_edges=null_edges[name]):
                continue                                    # there is a way to the use that passes no "is NULL" edge
            # every way to the use passes an "is NULL" edge; a new value in between?
            srcs = set(b9 for (b9, i9) in null_edges[name])
            between = [st for l9, r9, st, k9 in query.stores(f) if render(l9) == name and cfg.block_of(st) is not None and d in cfg.reachable(cfg.block_of(st))
                       and any(cfg.block_of(st) in cfg.reachable(b9) for b9 in srcs)]
            if between or any(render(a9) == "&" + name for c9 in f.calls() for a9 in c9.call_args()):
                continue
            n += 1
            ctx.fail("S15", "%s: `%s` is not used where it is NULL" % (f.name, name), x.where,
                     "`%s` is evaluated only on ways that pass a test saying `%s` is NULL: the access crashes" % (render(x)[:50], name),
                     key="deref-null:%s:%s" % (f.name, name))
    if n == 0:
        ctx.ok("S15", "no pointer is dereferenced under a test that says it is NULL", "lib/", "%d functions" % len(fns))


def s16_guard_complete(prog, ctx, fns):
    """S16: an argument guard `if (a == NULL || b == NULL || ...) return <error>;` turns the call down for EACH of the arguments it names:
    with any one of them NULL (and the others not) the statement behind the guard is not reached.  (`a == NULL && b == NULL` lets a single
    NULL through to the code that dereferences it.)"""
    n = 0
    for f in fns:
        if f.body is None or f.body.k != "CompoundStmt":
            continue
        cfg = f.cfg
        pn = set(f.param_names())
        for st in f.body.children[:6]:
            if st.k != "IfStmt" or st.child("cond") is None or st.child("then") is None:
                continue
            th = st.child("then")
            rets = [x for x in th.walk() if x.k == "ReturnStmt"]
            if not rets or any(x.k in ("CallExpr",) and x.j.get("callee") not in (None,) for x in th.walk() if x.k == "CallExpr"):
                continue
            named = []
            for x in st.child("cond").walk():
                if x.k == "BinaryOperator" and x.j.get("op") == "==" and (x.children[0].is_null_const() or x.children[1].is_null_const()):
                    o = x.children[1] if x.children[0].is_null_const() else x.children[0]
                    if o.strip().k == "DeclRefExpr" and o.strip().j.get("name") in pn:
                        named.append(o.strip().j["name"])
                elif x.k == "UnaryOperator" and x.j.get("op") == "!" and x.children[0].strip().k == "DeclRefExpr" and x.children[0].strip().j.get("name") in pn \
                        and (x.children[0].strip().j.get("ct") or "").endswith("*"):
                    named.append(x.children[0].strip().j["name"])
            named = sorted(set(named))
            if len(named) < 2:
                continue
            # every named argument is a disjunct of its own at the top level of the condition
            def disj(e):
                e2 = e.strip()
                if e2.k == "BinaryOperator" and e2.j.get("op") == "||":
                    return disj(e2.children[0]) + disj(e2.children[1])
                return [e2]
            tops = disj(st.child("cond"))
            n += 1
            bad = []
            for p9 in named:
                alone = False
                for t9 in tops:
                    tt = render(t9).replace(" ", "")
                    if tt in ("%s==NULL" % p9, "NULL==%s" % p9, "!%s" % p9, "%s==0" % p9):
                        alone = True
                if not alone:
                    for t9 in tops:
                        if t9.k != "BinaryOperator" or t9.j.get("op") != "&&":
                            continue

                        def conj(e):
                            e2 = e.strip()
                            if e2.k == "BinaryOperator" and e2.j.get("op") == "&&":
                                return conj(e2.children[0]) + conj(e2.children[1])
                            return [e2]
                        plain = [render(c9).replace(" ", "") for c9 in conj(t9)]
                        tests = [q9 for q9 in named if any(pl in ("%s==NULL" % q9, "NULL==%s" % q9, "!%s" % q9, "%s==0" % q9) for pl in plain)]
                        if p9 in tests and len(tests) >= 2:
                            bad.append(p9)
            # ... and it matters only where the argument is then used without a test of its own (`if (!a && !b) return; if (a) *a = ..;` is fine)
            def used_bare(p9, f=f, depth=0):
                for x in f.body.walk():
                    if x.k != "DeclRefExpr" or x.j.get("name") != p9 or x.j.get("dk") != "param" or (depth == 0 and x.within(st.child("cond"))):
                        continue
                    up9 = x.up()
                    while up9 is not None and up9.k in ("ImplicitCastExpr", "ParenExpr", "CStyleCastExpr"):
                        up9 = up9.up()
                    if up9 is None:
                        continue
                    use = (up9.k == "UnaryOperator" and up9.j.get("op") == "*") or (up9.k == "MemberExpr" and up9.j.get("arrow")) or \
                        up9.k == "ArraySubscriptExpr" or (up9.k == "CallExpr" and any(x is a9 or x.within(a9) for a9 in up9.call_args()))
                    if not use:
                        continue
                    if up9.k == "CallExpr" and prog.has_fn(up9.j.get("callee") or "") and depth < 2:
                        # handed on to a library function: what counts is what that one does with it
                        g9 = prog.fn(up9.j["callee"])
                        ai9 = next((k9 for k9, a9 in enumerate(up9.call_args()) if x is a9 or x.within(a9)), None)
                        if g9.body is None or ai9 is None or ai9 >= len(g9.params) or render(up9.call_args()[ai9]) != p9:
                            continue
                        if not used_bare(g9.params[ai9]["name"], g9, depth + 1):
                            continue
                    try:
                        req = f.cfg.required_literals(f.cfg.block_of(x))
                    except Exception:
                        return True
                    if not any(q is not None and ((q.kind == "truth" and q.pol and q.atom == p9) or
                                                  (q.kind == "eq" and not q.pol and p9 in (render(q.lhs), render(q.rhs)) and (q.lhs.is_null_const() or q.rhs.is_null_const())))
                               for q in req):
                        return True
                return False
            bad = [p9 for p9 in bad if used_bare(p9)]
            if bad:
                ctx.fail("S16", "%s: the argument guard covers each argument it names" % f.name, st.child("cond").where,
                         "`%s`: `%s` is refused only together with another argument - alone it passes the guard and is dereferenced behind it" % (
                             render(st.child("cond"))[:70], bad[0]), key="guard:%s:%s" % (f.name, bad[0]))
            else:
                ctx.ok("S16", "%s: the argument guard covers each argument it names" % f.name, st.child("cond").where, "%s: each a disjunct of its own" % named)
    ctx.counts["S16 argument guards"] = n


NARROW = ("unsigned char", "signed char", "char", "short", "unsigned short", "_Bool", "bool")


def s10_counter_width(prog, ctx, fns):
    """S10: what counts elements that come from the input (entries, sections, directories: x++ per element) and is then used as a
    subscript or in an allocation size has at least the width of int.  An 8 or 16 bit counter wraps at 256 / 65536 elements, the array
    is shrunk to the wrapped size and the next store lands outside it."""
    n = 0
    for f in fns:
        for lhs, rhs, st, kind in query.stores(f):
            if not (kind == "++" and st.j.get("op") == "++") and not (kind == "op=" and st.j.get("op") == "+="):
                continue
            l0 = lhs.strip()
            ct = (l0.j.get("ct") or l0.j.get("t") or "").replace("const ", "").replace("volatile ", "").strip()
            if l0.k not in ("MemberExpr", "DeclRefExpr") or "*" in ct or "[" in ct:
                continue
            n += 1
            if ct not in NARROW:
                continue
            v = render(lhs)
            uses = []
            for x in f.walk():
                if x.k == "ArraySubscriptExpr" and re.search(r"(?<![\w>.])" + re.escape(v) + r"(?![\w])", render(x.children[1])):
                    uses.append(x)
                elif x.k == "CallExpr" and x.j.get("callee") in ("malloc", "calloc", "realloc", "reallocarray") and any(
                        re.search(r"(?<![\w>.])" + re.escape(v) + r"(?![\w])", render(a)) for a in x.call_args()):
                    uses.append(x)
            if uses:
                ctx.fail("S10", "%s: counter `%s` is wide enough" % (f.name, v), st.where,
                         "`%s` has type %s and is incremented per element, then used in `%s`: at %d elements it wraps, the array is resized to the wrapped "
                         "count and the next element is stored outside it" % (v, ct, render(uses[0])[:70], 256 if "char" in ct or "ool" in ct else 65536),
                         key="narrow-counter:%s:%s" % (f.name, v))
    if n:
        ctx.ok("S10", "element counters used as subscripts or sizes have at least the width of int", "lib/", "%d incremented counters inspected" % n)
    ctx.floor("C04.S10 incremented counters", n, 10)


def s9(prog, ctx, reach):
    """stores into counted heap arrays (pointer / struct arrays sized by a counter) stay inside the allocation"""
    from sa import arrays
    n = 0
    und = 0
    for util in (False, True):
        sites, u = arrays.analyse(prog, util=util)
        und += u
        for st in sites:
            if not util and st.fn.name not in reach:
                continue
            n += 1
            inst = "%s: %s" % (st.fn.name, render(st.store)[:70])
            if st.verdict == "ok":
                ctx.ok("S9", inst, st.store.where, st.why)
            else:
                ctx.fail("S9", inst, st.store.where, "the store writes behind the array `%s` allocated at line %d: %s" % (st.dest, st.alloc.line, st.why),
                         key="array-overrun:%s:%s" % (st.fn.name, st.dest))
    ctx.counts["S9 array stores not decided (index or size not a counter expression)"] = und
    ctx.floor("C04.S9 stores into counted arrays", n, 20)
