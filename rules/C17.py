"""C17 - provenance metadata (path, line, comments, value lines) matches the source file (where each piece comes from).

P1 field map of econf_getExtValue   P2 econf_getPath: copy of path, "" exactly when there is none; a merged object has no path
P3 the path of a parsed object is the absolute form of the name given   P4 the line counter reaches store() and every entry (also on continuation)
P5 a pending comment attaches to one entry only   P6 the two pending buffers are fed only by their own branch"""
from sa.ast import render
from sa.facts import Inconclusive
from sa import query
from sa.mod import ModAnalysis
from rules import parser
from rules.C10 import indirect_table

META = {
    "level": "other",
    "technique": "static analysis: data-source (field map) rules for the extended getter and the path query, forwarding of the line counter "
                 "into store(), release-and-reset of the pending comment buffers after every store (reachability), guard of the buffers' writers",
    "level_text": "THIN claim. Decides where each piece of provenance metadata COMES FROM (which field, which entry index, which counter), for "
                  "every file. Not decided: that line numbers and comment attachment are right for every sequence of comment / blank / entry / "
                  "continuation lines - that is running state of the line loop and out of reach of a static rule.",
    "level_note": "Partial (thin). P6 inherits C05.K1. Trusted: clang front end/CFG, sa/mod.py freshness.",
    "explanation": "data sources of provenance metadata",
    "trusted_base": ["clang-14 front end and CFG", "sa/mod.py"],
    "assumptions": [],
}



_BLANKS = (" ", "\t", "\n")


def _blank_test(n):
    """is the expression a test for a blank character: isspace(c) (call or glibc's table macro), memchr/strchr in a set of blanks"""
    for x in n.walk():
        if x.k == "CallExpr":
            cal = x.j.get("callee")
            if cal in ("isspace", "isblank"):
                return True
            if cal in ("memchr", "strchr") and x.call_args():
                txt = x.call_args()[0].string_value()
                if txt is not None and all(b in txt for b in _BLANKS):
                    return True
        elif x.k == "DeclRefExpr" and x.j.get("name") == "_ISspace":
            return True
    return False


def _skips_blanks(prog, name, depth=0, end=False):
    """does the function (or a helper it calls) step over blanks at the start (end=False): a loop that tests for a blank, or
    strspn() with a set that holds blank, tab and newline; at the end (end=True): a loop that tests for a blank and steps backwards"""
    try:
        h = prog.fn(name)
    except Exception:
        return False
    for lp in h.walk():
        if lp.k in ("WhileStmt", "ForStmt", "DoStmt"):
            cond = lp.child("cond")
            if cond is not None and _blank_test(cond):
                back = any(x.k == "UnaryOperator" and x.j.get("op") == "--" for x in lp.walk())
                if back == end:
                    return True
    for c in h.calls():
        cal = c.j.get("callee")
        if not end and cal == "strspn" and len(c.call_args()) == 2:
            txt = c.call_args()[1].string_value()
            if txt is not None and all(b in txt for b in _BLANKS):
                return True
        if cal and depth < 2 and cal != name and cal in getattr(prog, "functions", {}) and _skips_blanks(prog, cal, depth + 1, end):
            return True
    return False


def _text_source(prog, g, d):
    import re as _re
    if d.rhs is None:
        return ("raw", "a parameter")
    r = d.rhs.strip()
    name = None
    if r.k == "CallExpr":
        name = r.j.get("callee")
        if name == "trim":
            return ("skipper", "trim")
    elif r.k == "DeclRefExpr":
        m = _re.match(r"^(?:.*\.)?(\w+)\$\d+\.\$ret$", r.j.get("name", ""))
        if m:
            name = m.group(1)
    if name is None:
        return ("raw", render(r))
    from sa.mod import LIBC
    if name in LIBC:
        return ("raw", name)
    if _skips_blanks(prog, name) and _skips_blanks(prog, name, end=True):
        return ("skipper", name)
    if _skips_blanks(prog, name):
        return ("lead", name)
    return ("unknown", name)

def p8_comment_lines(prog, ctx):
    """P8: which lines are "the comment lines directly preceding the entry" is decided by the same test for every comment
    character of the set (= C05.K1 / K3); and the text kept for comments and values is never mixed (= C05.K5)."""
    from sa.report import Ctx as _Ctx
    from rules import C05 as _C05
    sub = _Ctx(ctx.prop, ctx.tier, prog)
    try:
        _C05.run(prog, sub)
    except Inconclusive as e:
        ctx.inconclusive("P8", "comment lines are recognised for every comment character", "", str(e))
        return
    for ob in sub.obs:
        if ob.rule in ("K1", "K3", "K5"):
            ob.rule = "P8"
            ctx.obs.append(ob)


def p10_p12_imports(prog, ctx):
    """P10: whether a layered read answers with one file's object (which names its path) or with a merged one (which names none) depends
    on how many files were found, not on what is in them: the merge of the files found decides on names and order only (= C12.F6).
    P11: writing an object out does not change what the extended getter then reports - comments included (= C10.Q1 for econf_writeFile).
    P12: merging does not take comments, values or line numbers away from the objects it is given (= C03.M1)."""
    from rules import common as _common
    from rules import C12 as _C12, C10 as _C10, C03 as _C03
    _common.import_obligations(ctx, prog, [_C12.f6b_f7b], "P10", "one file or a merged result: ", keep=lambda ob: ob.rule == "F6", what="decisions of merge_econf_files")
    _common.import_obligations(ctx, prog, [_C10.run], "P11", "metadata survives a write: ", keep=lambda ob: "econf_writeFile" in ob.instance,
                               what="effects of econf_writeFile on its input")
    _common.import_obligations(ctx, prog, [_C03.run], "P12", "metadata of merged inputs stays with them: ", keep=lambda ob: ob.rule == "M1",
                               what="effects of the merge on its inputs")


def objnorm(text):
    """the object handed on by value (`*kf`, `key_file.x`) or by reference (`kf`, `key_file->x`): the same thing for these rules"""
    t = text.replace("->", ".")
    if t.startswith("*"):
        t = t[1:]
    return t.replace("(*", "(").replace("strdup(*", "strdup(")


def out_dest(call, ai):
    """where the ai-th result of a helper call ends up: `&dest` handed as argument, or the returned value assigned to dest"""
    a = call.call_args()
    if ai < len(a):
        t = render(a[ai])
        return t[1:] if t.startswith("&") else None
    up = call.parent
    while up is not None and up.k in ("ImplicitCastExpr", "ParenExpr", "CStyleCastExpr"):
        up = up.parent
    if up is not None and up.k == "BinaryOperator" and up.j.get("op") == "=" and any(x is call for x in up.children[1].walk()) and up.children[1].strip() is call:
        return render(up.children[0])
    return None


def success_records_line(prog, ctx, rule):
    """whenever store() reports success the entry it worked on carries the number of the line just handled: the extended getter
    reports it, and read_file() recognises the NEXT line as a continuation by `entry.line_number + 1 == line` (C15: python style)"""
    st = prog.fn(parser.STORE)
    scfg = st.cfg
    lsb = set(scfg.block_of(s) for lhs, rhs, s, kind in query.stores(st) if (lhs.strip().k == "MemberExpr" and lhs.strip().j.get("member") == "line_number" and lhs.strip().j.get("rec") == "file_entry") and rhs is not None and render(rhs) == "line_number")
    if not lsb:
        return
    if scfg.entry in lsb:
        ctx.ok(rule, "store() succeeds only after recording the line number", st.where, "recorded in the first block")
        return
    wp = scfg.success_path_avoiding(lambda lit, b, i: scfg.blocks[b].succs[i] in lsb)
    if wp is None:
        ctx.ok(rule, "store() succeeds only after recording the line number", st.where,
               "every consistent path to `return ECONF_SUCCESS` passes `entry.line_number = line_number`")
    else:
        last = wp[-1][0] if wp else scfg.entry
        ctx.fail(rule, "store() succeeds only after recording the line number", (scfg.blocks[last].elems[-1] if scfg.blocks[last].elems else st).where,
                 "store() can report success without `entry.line_number = line_number`: the entry keeps the number of an earlier line, so the "
                 "next indented line is no longer recognised as its continuation (and the extended getter reports a stale line)",
                 key="store-line-skipped", path=scfg.describe_path(wp))


def run(prog, ctx):
    p10_p12_imports(prog, ctx)
    # P13: the trailing comment of a continuation line is cut off the value for EVERY character of the comment set
    from sa.report import Ctx as _CtxH
    subh = _CtxH(ctx.prop, ctx.tier, prog)
    parser.header_and_set_rules(prog, subh, "P13x", "P13")
    ctx.obs.extend(ob for ob in subh.obs if ob.rule == "P13")
    p8_comment_lines(prog, ctx)
    ma = ModAnalysis(prog, indirect_targets=indirect_table(prog))
    # ---- P1 --------------------------------------------------------------------------------------------------
    g = prog.fn("econf_getExtValue")
    ctx.touch(g)
    fk = g.calls("find_key")
    if len(fk) != 1:
        raise Inconclusive("econf_getExtValue: find_key call not found")
    idx = render(fk[0].call_args()[3]).lstrip("&")
    obj = "*" + g.params[0]["name"]
    want = {
        "getCommentsNum": [("comment_before_key", 2), ("comment_after_value", 3)],
        "getPath": [("file", 1)],
        "getLineNrNum": [("line_number", 2)],
    }
    for callee, outs in want.items():
        cs = g.calls(callee)
        if len(cs) != 1:
            ctx.fail("P1", "extended value: %s" % ", ".join(o[0] for o in outs), g.where, "%s() is not called" % callee, key="map:%s" % callee)
            continue
        a = cs[0].call_args()
        good = objnorm(render(a[0])) == objnorm(obj) and (callee == "getPath" or render(a[1]) == idx)
        for fld, ai in outs:
            if good and out_dest(cs[0], ai) == "(*result)->%s" % fld:
                ctx.ok("P1", "extended value: %s" % fld, cs[0].where, "%s(%s) -> result->%s" % (callee, ", ".join(render(x) for x in a[:2]), fld))
            else:
                ctx.fail("P1", "extended value: %s" % fld, cs[0].where,
                         "%s is filled by %s(%s): wrong entry index / object / destination field" % (fld, callee, ", ".join(render(x) for x in a)), key="map:%s" % fld)
    gs = g.calls("getStringValueNum")
    if len(gs) == 1 and objnorm(render(gs[0].call_args()[0])) == objnorm(obj) and render(gs[0].call_args()[1]) == idx:
        ctx.ok("P1", "extended value: values", gs[0].where, "split from the value of the entry found by find_key (index %s)" % idx)
    else:
        # read directly: some expression over <object>.file_entry[<index found>].value, and no other entry's value
        vals = [x for x in g.walk() if x.k == "MemberExpr" and x.j.get("member") == "value" and x.j.get("rec") == "file_entry"]
        own = [x for x in vals if objnorm(render(x)) == "%s.file_entry[%s].value" % (objnorm(obj), idx)]
        if not gs and own and len(own) == len(vals):
            ctx.ok("P1", "extended value: values", own[0].where, "split from %s (the entry found by find_key)" % render(own[0]))
        else:
            ctx.fail("P1", "extended value: values", g.where, "value source %s" % ([render(c) for c in gs] or sorted(set(render(x) for x in vals))), key="map:values")
    # the entry the extended getter reports on is the FIRST one with that section and key - the one every other getter reads (= C11.A4)
    try:
        from sa.report import Ctx as _Ctx
        from rules import C11 as _C11
        sub4 = _Ctx(ctx.prop, ctx.tier, prog)
        _C11.a4(prog, sub4)
        _C11.a4_no_entry_passed_over(prog, sub4)
        for ob in sub4.obs:
            ob.rule = "P1"
            ob.instance = "extended value: " + ob.instance
            ctx.obs.append(ob)
    except Inconclusive as e:
        ctx.inconclusive("P1", "extended value: the entry found is the first match", "", str(e))
    # the "one quoted item" test looks at the TRIMMED value
    from sa.dataflow import ReachingDefs as _RD
    grd = _RD(g)
    gcf = g.cfg
    qt = []
    for (b, i, s2) in gcf.edges():
        lit = gcf.edge_lit(b, i)
        if lit is not None and lit.kind == "eq" and lit.pol and ord('"') in (lit.lhs.const_value(), lit.rhs.const_value()):
            for side in (lit.lhs, lit.rhs):
                ss = side.strip()
                if ss.k == "ArraySubscriptExpr" and ss.children[0].strip().k == "DeclRefExpr" and ss.children[1].const_value() == 0:
                    qt.append((ss.children[0].strip(), gcf.blocks[b].cond))
                elif ss.k == "UnaryOperator" and ss.j.get("op") == "*" and ss.children[0].strip().k == "DeclRefExpr":
                    qt.append((ss.children[0].strip(), gcf.blocks[b].cond))
    if not qt:
        # the verdict kept in a flag: `quoted = (text[0] == '"'); ... if (quoted)`  - the comparison is the place the text is looked at
        for x in g.walk():
            if x.k == "BinaryOperator" and x.j.get("op") == "==" and ord('"') in (x.children[0].const_value(), x.children[1].const_value()):
                up9 = x.up()
                while up9 is not None and up9.k in ("ParenExpr", "ImplicitCastExpr", "CStyleCastExpr"):
                    up9 = up9.up()
                flagged = up9 is not None and (up9.k == "DeclStmt" or (up9.k == "BinaryOperator" and up9.j.get("op") == "=" and up9.children[0].strip().k == "DeclRefExpr"))
                if not flagged:
                    continue
                fl9 = render(up9.children[0]) if up9.k == "BinaryOperator" else next((d9.get("name") for d9 in up9.j.get("decls", []) if d9.get("init", -1) >= 0), None)
                if not fl9 or not any(gcf.blocks[b9].cond is not None and render(gcf.blocks[b9].cond.strip()).lstrip("!(").rstrip(")") == fl9 for b9 in range(len(gcf.blocks))):
                    continue        # the flag is not what a branch tests
                for side in x.children:
                    ss = side.strip()
                    if ss.k == "ArraySubscriptExpr" and ss.children[0].strip().k == "DeclRefExpr" and ss.children[1].const_value() == 0:
                        qt.append((ss.children[0].strip(), x))
                    elif ss.k == "UnaryOperator" and ss.j.get("op") == "*" and ss.children[0].strip().k == "DeclRefExpr":
                        qt.append((ss.children[0].strip(), x))
    if not qt:
        ctx.fail("P1", "extended value: a value starting with a quote is one item", g.where, "no test for an opening quote", key="quote-test-missing")
    for var, cond in qt:
        ds = grd.reaching(var.j["name"], cond)
        ds = [d for d in ds if not (d.rhs is not None and d.rhs.is_null_const())]       # a NULL is not subscripted: that definition does not get here
        trimmed = ds and all(d.rhs is not None and d.rhs.strip().k == "CallExpr" and d.rhs.strip().j.get("callee") == "trim" for d in ds)
        if not trimmed:
            # the other definitions may reach the test only on paths that contradict themselves (the same NULL test taken both ways)
            tds = [d for d in ds if d.rhs is not None and d.rhs.strip().k == "CallExpr" and d.rhs.strip().j.get("callee") == "trim" and d.node is not None]
            later = [d for d in ds if d not in tds and d.node is not None and any(gcf.block_of(d.node) in gcf.reachable(gcf.block_of(t.node)) and d.node is not t.node for t in tds)]
            trimmed = bool(tds) and not later and any(gcf.must_pass(t.node, cond) for t in tds)
        via = None
        if not trimmed and ds:
            # a different helper delivers the text: one that is seen to skip blanks counts, any other is not understood
            kinds = [_text_source(prog, g, d) for d in ds]
            if all(k[0] == "skipper" for k in kinds):
                trimmed, via = True, kinds[0][1]
            elif all(k[0] in ("skipper", "lead") for k in kinds):
                # only the start is trimmed: the quoted branch hands out this very text, with whatever blanks follow the closing quote
                # (unless something that trims the end is applied to it afterwards - not followed further)
                region = set()
                for (b9, i9, s9) in gcf.edges():
                    l9 = gcf.edge_lit(b9, i9)
                    if gcf.blocks[b9].cond is cond and l9 is not None and l9.kind == "eq" and len(gcf.blocks[b9].succs) == 2:
                        other = gcf.blocks[b9].succs[1 - i9]
                        if l9.pol:
                            region |= gcf.reachable(s9) - (gcf.reachable(other) if other is not None else set())
                later_trim = [c9 for c9 in g.calls() if c9.j.get("callee") in getattr(prog, "functions", {})
                              and _skips_blanks(prog, c9.j["callee"], end=True) and gcf.block_of(c9) in region]
                if later_trim:
                    ctx.inconclusive("P1", "extended value: the quote test looks at the trimmed value", cond.where,
                                     "the start is trimmed by %s, the end possibly by %s later on" % (sorted(set(k[1] for k in kinds)), later_trim[0].j["callee"]))
                    continue
                ctx.fail("P1", "extended value: the quote test looks at the trimmed value", cond.where,
                         "`%s` comes from %s, which skips the blanks in front only: the one item of a quoted value keeps the blanks behind its closing quote "
                         "(values are stored with the raw end of their last continuation line)" % (var.j["name"], sorted(set(k[1] for k in kinds))),
                         key="quote-test-halftrimmed")
                continue
            elif any(k[0] == "unknown" for k in kinds) and not any(k[0] == "raw" for k in kinds):
                ctx.inconclusive("P1", "extended value: the quote test looks at the trimmed value", cond.where,
                                 "the text tested comes from %s, which is not seen to skip leading blanks" % sorted(set(k[1] for k in kinds if k[0] == "unknown")))
                continue
        if trimmed:
            ctx.ok("P1", "extended value: the quote test looks at the trimmed value", cond.where,
                   "%s = %s(...) reaches the test" % (var.j["name"], via or "trim"))
        else:
            ctx.fail("P1", "extended value: the quote test looks at the trimmed value", cond.where,
                     "`%s[0] == '\"'` tests text that was not blank-trimmed: a quoted value that starts on a continuation line (leading newline/blanks) "
                     "is split into several items" % var.j["name"], key="quote-test-untrimmed")
    # the helper getters read the homonymous fields
    for helper, pairs in (("getCommentsNum", [("*comment_before_key", "comment_before_key"), ("*comment_after_value", "comment_after_value")]),
                          ("getLineNrNum", [("*line_nr", "line_number")]), ("getPath", [("*path", "path")])):
        h = prog.fn(helper)
        ctx.touch(h)
        for dst, fld in pairs:
            # the value leaves through the out-parameter, or (a helper with one result) as the return value
            sts = [(st, st.children[1]) for lhs, rhs, st, kind in query.stores(h) if render(lhs) == dst and rhs is not None and not rhs.is_null_const()]
            if h.param(dst.lstrip("*")) is None and len(pairs) == 1:
                sts = [(r, r.children[0]) for r in h.returns() if r.children and not r.children[0].is_null_const()]
            # through a local that holds the copy (`before = strdup(entry.comment_before_key); ... *out = before;`)
            from sa.dataflow import ReachingDefs as _RDh
            rdh = _RDh(h)
            sts2 = []
            for st, val in sts:
                v0 = val.strip()
                if v0.k == "DeclRefExpr" and v0.j.get("dk") == "local":
                    dsh = [d for d in rdh.reaching(v0.j["name"], st) if d.rhs is not None and not d.rhs.is_null_const()]
                    if dsh:
                        sts2.extend((st, d.rhs) for d in dsh)
                        continue
                sts2.append((st, val))
            sts = sts2
            srcs = set()
            for st, val in sts:
                for x in val.walk():
                    if x.k == "MemberExpr" and x.j.get("rec") in ("file_entry", "econf_file") and x.j.get("member") not in ("file_entry",):
                        srcs.add(x.j["member"])
            idx_ok = all("[num]" in render(val) for st, val in sts) if helper != "getPath" else True
            obj0 = h.params[0]["name"]
            exact = "%s.file_entry[num].%s" % (obj0, fld) if helper != "getPath" else "%s.%s" % (obj0, fld)
            plain = all(objnorm(render(val)) in (exact, "strdup(%s)" % exact) for st, val in sts)
            if srcs == {fld} and idx_ok and not plain:
                ctx.fail("P1", "%s hands out .%s unchanged" % (helper, fld), sts[0][0].where, "stores %s" % render(sts[0][1]), key="helper-copy:%s:%s" % (helper, fld))
            elif srcs == {fld} and idx_ok:
                ctx.ok("P1", "%s reads .%s of the entry asked for" % (helper, fld), sts[0][0].where, render(sts[0][0]))
            else:
                ctx.fail("P1", "%s reads .%s of the entry asked for" % (helper, fld), h.where, "reads %s%s" % (sorted(srcs), "" if idx_ok else " at a different index"),
                         key="helper:%s:%s" % (helper, fld))
    # ---- P2 -----------------------------------------------------------------------------------------------------
    gp = prog.fn("econf_getPath")
    ctx.touch(gp)
    cfg = gp.cfg
    p = gp.params[0]["name"]
    rets = gp.returns()
    ok_copy = ok_empty = False
    for r in rets:
        t = render(r.children[0]) if r.children else ""
        rb = cfg.block_of(r)
        if t == "strdup(%s->path)" % p:
            okc, cut = cfg.all_paths_cut(rb, lambda lit, b, i: lit is not None and lit.atom == "%s->path" % p and lit.pol)
            ok_copy = okc and bool(cut)
        elif t == 'strdup("")':
            okc, cut = cfg.all_paths_cut(rb, lambda lit, b, i: lit is not None and lit.atom == "%s->path" % p and not lit.pol)
            ok_empty = okc and bool(cut)
        else:
            ctx.fail("P2", "econf_getPath returns a copy of the path", r.where, "returns %s" % t, key="getpath-return")
    if ok_copy and ok_empty:
        ctx.ok("P2", "econf_getPath returns a copy of the path, \"\" exactly when there is none", gp.where, "strdup(path) / strdup(\"\") under path != NULL / == NULL")
    else:
        ctx.fail("P2", "econf_getPath returns a copy of the path, \"\" exactly when there is none", gp.where,
                 "copy under path != NULL: %s; empty string under path == NULL: %s" % (ok_copy, ok_empty), key="getpath-cond")
    m = prog.fn("econf_mergeFiles")
    ps = [st for lhs, rhs, st, kind in query.stores(m) if render(lhs) == "(*merged_file)->path"]
    if all(st.children[1].is_null_const() for st in ps):
        ctx.ok("P2", "a merged object has no path", m.where, "path stays NULL (calloc%s)" % (" + explicit NULL" if ps else ""))
    else:
        ctx.fail("P2", "a merged object has no path", ps[0].where, "the merged result gets path %s: econf_getPath no longer returns \"\" for it" % render(ps[0].children[1]),
                 key="merge-path")
    # ---- P3 --------------------------------------------------------------------------------------------------------
    gap = prog.fn("get_absolute_path")
    ctx.touch(gap)
    gcfg = gap.cfg
    rp = gap.calls("realpath")
    if len(rp) == 1 and query.refs_param(rp[0].call_args()[0], gap.params[0]["name"]):
        okr, cut = gcfg.all_paths_cut(gcfg.block_of(rp[0]), lambda lit, b, i: lit is not None and lit.kind == "eq" and ord("/") in (lit.lhs.const_value(), lit.rhs.const_value()) and not lit.pol)
        if okr and cut:
            ctx.ok("P3", "a relative name is resolved with realpath()", rp[0].where, "realpath(path, ...) on the branch `*path != '/'`")
        else:
            ctx.fail("P3", "a relative name is resolved with realpath()", rp[0].where, "realpath not tied to the relative-name branch", key="realpath-cond")
    else:
        ctx.fail("P3", "a relative name is resolved with realpath()", gap.where, "no realpath(path) call: relative names stay relative in econf_getPath / extended values",
                 key="realpath-missing")
    if len(rp) == 1 and rp[0].call_args()[1].is_null_const():
        # realpath(path, NULL): the resolved name is the heap string the call returns
        up9 = rp[0].up()
        tgt9 = render(up9.children[0]) if up9 is not None and up9.k == "BinaryOperator" and up9.j.get("op") == "=" else (
            up9.j["decls"][0]["name"] if up9 is not None and up9.k == "DeclStmt" else None)
        fail_edges = [(b, i) for (b, i, s2) in gcfg.edges() if gcfg.edge_lit(b, i) is not None and (
            "realpath" in gcfg.edge_lit(b, i).atom or gcfg.edge_lit(b, i).atom == tgt9) and not gcfg.edge_lit(b, i).pol]
        after = gcfg.reachable(gcfg.block_of(rp[0]), avoid_edges=fail_edges)
        rets9 = [r2 for r2 in gap.returns() if r2.children and not r2.children[0].is_null_const() and gcfg.block_of(r2) in after]
        redefs = [st9 for l9, r9, st9 in gap.assignments() if not isinstance(l9, dict) and render(l9) == tgt9 and st9 is not up9
                  and gcfg.block_of(st9) in after and gcfg.block_of(st9) != gcfg.block_of(rp[0])]
        clean = gcfg.reachable(gcfg.block_of(rp[0]), avoid_edges=fail_edges, avoid_blocks=[gcfg.block_of(st9) for st9 in redefs])
        if tgt9 and rets9 and all(render(r2.children[0]) == tgt9 and gcfg.block_of(r2) in clean for r2 in rets9):
            ctx.ok("P3", "the resolved name is what is returned", rp[0].where, "`%s = realpath(path, NULL)` is what the relative branch returns" % tgt9)
        else:
            ctx.fail("P3", "the resolved name is what is returned", rp[0].where,
                     "realpath(path, NULL) is called but its result is not what is returned: relative names are stored as given", key="realpath-result-unused")
    elif len(rp) == 1:
        bufarg = render(rp[0].call_args()[1])
        good = set(gcfg.block_of(c) for c in gap.calls(("strdup", "strndup")) if c.call_args() and render(c.call_args()[0]) == bufarg)
        rets_nonnull = [r2 for r2 in gap.returns() if r2.children and not r2.children[0].is_null_const()]
        leaks = [r2 for r2 in rets_nonnull if gcfg.block_of(r2) in gcfg.reachable(gcfg.block_of(rp[0]), avoid_blocks=good) and gcfg.block_of(r2) not in good]
        # the failing branch of realpath returns NULL: exclude paths through the `!realpath` edge
        fail_edges = [(b, i) for (b, i, s2) in gcfg.edges() if gcfg.edge_lit(b, i) is not None and "realpath" in gcfg.edge_lit(b, i).atom and not gcfg.edge_lit(b, i).pol]
        leaks = [r2 for r2 in rets_nonnull if gcfg.block_of(r2) in gcfg.reachable(gcfg.block_of(rp[0]), avoid_blocks=good, avoid_edges=fail_edges) and gcfg.block_of(r2) not in good]
        if good and not leaks:
            ctx.ok("P3", "the resolved name is what is returned", rp[0].where, "after realpath() succeeded every return passes strdup(%s)" % bufarg)
        else:
            ctx.fail("P3", "the resolved name is what is returned", rp[0].where,
                     "realpath() is called but its result buffer `%s` is not what is copied: relative names are stored as given (econf_getPath / "
                     "the extended value's file are not absolute)" % bufarg, key="realpath-result-unused")
    # an absolute name is reported as it was given (= C01.L16)
    try:
        from sa.report import Ctx as _Ctx
        from rules import C01 as _C01
        sub = _Ctx(ctx.prop, ctx.tier, prog)
        _C01.l15_l17(prog, sub)
        for ob in sub.obs:
            if ob.rule == "L16":
                ob.rule = "P3"
                ctx.obs.append(ob)
    except Inconclusive as e:
        ctx.inconclusive("P3", "an absolute name is reported as given", "", str(e))
    # the gate parses the absolute form of the name it was given, and the parser keeps what it was given as the object's path
    from rules import common as _common
    from sa.dataflow import ReachingDefs as _RD3
    gate3 = prog.fn(_common.GATE)
    pc3 = gate3.calls(_common.PARSER)
    if len(pc3) == 1 and len(pc3[0].call_args()) > 1:
        a3 = pc3[0].call_args()[1].strip()
        ok3 = False
        if a3.k == "DeclRefExpr" and a3.j.get("dk") == "local":
            ds3 = [d for d in _RD3(gate3).reaching(a3.j["name"], pc3[0]) if d.rhs is not None]
            ok3 = bool(ds3) and all(d.rhs.strip().k == "CallExpr" and d.rhs.strip().j.get("callee") == "get_absolute_path"
                                    and query.refs_param(d.rhs.strip().call_args()[0], "file_name") for d in ds3)
        elif a3.k == "CallExpr" and a3.j.get("callee") == "get_absolute_path":
            ok3 = query.refs_param(a3.call_args()[0], "file_name")
        if ok3:
            ctx.ok("P3", "every file is parsed under the absolute form of its name", pc3[0].where, "%s(.., get_absolute_path(file_name), ..)" % _common.PARSER)
        else:
            ctx.fail("P3", "every file is parsed under the absolute form of its name", pc3[0].where,
                     "the gate hands `%s` to %s(): files found through relative directory names keep a relative path (econf_getPath, the extended "
                     "value's file and the error location report `usr/etc/app.conf`)" % (render(a3), _common.PARSER), key="gate-path-not-absolute")
    else:
        ctx.inconclusive("P3", "every file is parsed under the absolute form of its name", gate3.where, "parser call not found in the gate")
    # ---- P4 ------------------------------------------------------------------------------------------------------------
    L = parser.landmarks(prog)
    rf = L.fn
    ctx.touch(rf, L.store_fn)
    if len(L.line_args) == 1:
        line = list(L.line_args)[0]
        incs = [n for n in rf.walk() if n.k == "UnaryOperator" and n.j.get("op") == "++" and render(n.children[0]) == line and n.within(L.loop)]
        if len(incs) == 1 and all(rf.cfg.node_dominates(incs[0], c) for c in L.store_calls):
            ctx.ok("P4", "every store() call gets the current line number", L.store_calls[0].where, "all %d calls pass `%s`, incremented once per getline()" % (len(L.store_calls), line))
        else:
            ctx.fail("P4", "every store() call gets the current line number", L.store_calls[0].where, "`%s` is not the once-per-line counter" % line, key="line-counter")
    else:
        ctx.fail("P4", "every store() call gets the current line number", L.store_calls[0].where, "calls pass different expressions: %s" % sorted(L.line_args), key="line-args")
    st = L.store_fn
    scfg = st.cfg
    ls = [s for lhs, rhs, s, kind in query.stores(st) if (lhs.strip().k == "MemberExpr" and lhs.strip().j.get("member") == "line_number" and lhs.strip().j.get("rec") == "file_entry") and not query.is_slot_init(s)]
    app = [(b, i) for (b, i, s) in scfg.edges() if scfg.edge_lit(b, i) is not None and scfg.edge_lit(b, i).atom == "append_entry"]
    branches = {"new entry": False, "continuation": False}
    for s in ls:
        if render(s.children[1]) != "line_number":
            ctx.fail("P4", "store() records the line number it is given", s.where, "stores %s" % render(s.children[1]), key="store-line-value")
            continue
        okt, cut = scfg.all_paths_cut(scfg.block_of(s), lambda lit, b, i: lit is not None and lit.atom == "append_entry" and lit.pol)
        okf, cut2 = scfg.all_paths_cut(scfg.block_of(s), lambda lit, b, i: lit is not None and lit.atom == "append_entry" and not lit.pol)
        if okt and cut:
            branches["continuation"] = True
        if okf and cut2:
            branches["new entry"] = True
    for k, v in branches.items():
        if v:
            ctx.ok("P4", "store() records the line number (%s)" % k, st.where, "entry.line_number = line_number")
        else:
            ctx.fail("P4", "store() records the line number (%s)" % k, st.where,
                     "%s" % ("a continued entry keeps the number of its first line, so the next line is not recognised as its continuation and "
                             "the extended getter does not report the line on which the entry ends" if k == "continuation" else "new entries get no line number"),
                     key="store-line:%s" % k.replace(" ", "-"))
    success_records_line(prog, ctx, "P4")
    parser.line_end_rule(prog, ctx, "P9", L)
    # ---- P5 ------------------------------------------------------------------------------------------------------------------
    cfg = rf.cfg
    for c in L.store_calls:
        for buf in (L.pending_before, L.pending_after):
            frees = [x for x in rf.calls("free") if x.call_args() and render(x.call_args()[0]) == buf and cfg.node_dominates(c, x)]
            resets = [s for lhs, rhs, s, kind in query.stores(rf) if render(lhs) == buf and rhs is not None and rhs.is_null_const() and cfg.node_dominates(c, s)]
            # on every way from the call to the next iteration the buffer is released and cleared
            fb = set(cfg.block_of(x) for x in frees) & set(cfg.block_of(s) for s in resets)
            cb = cfg.block_of(c)
            leak_path = L.header in cfg.reachable(cb, avoid_blocks=list(fb)) and cb not in fb
            inst = "pending `%s` is consumed by the store() at line %d" % (buf, c.line)
            if fb and not leak_path:
                ctx.ok("P5", inst, c.where, "free(%s); %s = NULL before the next line is read" % (buf, buf))
            else:
                ctx.fail("P5", inst, c.where,
                         "after this store() the next iteration can start with `%s` still set: the same comment is attached to the following entry as well" % buf,
                         key="pending:%s:%d" % (buf, L.store_calls.index(c)))
    # ---- P7: a pending comment is dropped only after it was attached (or when the read ends) ---------------------------------
    for buf in (L.pending_before, L.pending_after):
        drops = [x for x in rf.calls("free") if x.call_args() and render(x.call_args()[0]) == buf and x.within(L.loop)]
        drops += [s2 for lhs, rhs, s2, kind in query.stores(rf) if render(lhs) == buf and rhs is not None and rhs.is_null_const() and s2.within(L.loop)]
        stray = []
        for x in drops:
            # free(buf); buf = longer;  where `longer` was built from the old text (asprintf(&longer, "%s\n%s", buf, line)): the text grows, it is not dropped
            if x.k == "CallExpr":
                pos9 = cfg.index_of(x)
                rebuilt = False
                if pos9 is not None:
                    for e9 in cfg.blocks[pos9[0]].elems[pos9[1] + 1:]:
                        if e9.k == "BinaryOperator" and e9.j.get("op") == "=" and render(e9.children[0]) == buf and not e9.children[1].is_null_const():
                            src9 = render(e9.children[1])
                            rebuilt = any(any(render(a9) == "&" + src9 for a9 in c9.call_args()) and any(render(a9) == buf for a9 in c9.call_args())
                                          and cfg.node_dominates(c9, x) for c9 in rf.calls(("asprintf", "vasprintf")))
                            break
                if rebuilt:
                    continue
            if not any(cfg.node_dominates(c, x) and cfg.block_of(x) in cfg.reachable(cfg.block_of(c), avoid_blocks=[L.header]) for c in L.store_calls):
                # tolerated: error paths that leave the function
                if L.header in cfg.reachable(cfg.block_of(x)):
                    stray.append(x)
        if stray:
            ctx.fail("P7", "a pending comment (%s) survives until the next entry" % buf, stray[0].where,
                     "`%s` is released/cleared in the line loop before any entry was stored (e.g. on an empty line or a section header): "
                     "the comment block no longer reaches the entry it precedes" % buf, key="pending-dropped:%s" % buf)
        else:
            ctx.ok("P7", "a pending comment (%s) survives until the next entry" % buf, rf.where, "released in the loop only after a store() call (%d sites)" % len(drops))
    # ---- P6 ----------------------------------------------------------------------------------------------------------------------
    from rules.C05 import _pending_defs
    befores = _pending_defs(L, L.pending_before)
    afters = _pending_defs(L, L.pending_after)
    name = L.stripped
    if befores and afters and name:
        bb = set(cfg.block_of(x) for x in befores)
        ab = set(cfg.block_of(x) for x in afters)
        # the after-value buffer is written in the trailing-comment branch: behind a search for a comment character that is NOT the line start
        ok_after = True
        for x in afters:
            okc, cut = cfg.all_paths_cut(cfg.block_of(x), lambda lit, b, i: lit is not None and lit.kind == "truth" and lit.pol and lit.node.k == "DeclRefExpr", start=L.header)
            srcs = [render(a) for a in (x.call_args() if x.k == "CallExpr" else x.children[1].strip().call_args() if x.children[1].strip().k == "CallExpr" else [])]
            if not okc:
                ok_after = False
        if ok_after and not (bb & ab):
            ctx.ok("P6", "each pending buffer is fed by its own branch only", afters[0].where, "before-key: comment-line branch (C05.K1); after-value: trailing-comment branch")
        else:
            ctx.fail("P6", "each pending buffer is fed by its own branch only", afters[0].where, "the after-value buffer is written outside the trailing-comment branch", key="after-branch")
        # what is recorded is the text after the comment character
        for x in befores:
            t = render(x)
            if (name + " + 1") in t:
                ctx.ok("P6", "a before-key comment is the line without its comment character", x.where, t[:70])
            elif name not in t:
                # built by a helper (realloc + memcpy ...): the text copied in that helper instance must be name + 1
                tag = x.j.get("inlined_from")
                copies = [c9 for c9 in rf.calls(("memcpy", "memmove", "mempcpy", "strcpy", "stpcpy", "strcat", "snprintf", "asprintf")) if c9.within(L.loop)
                          and (tag is None or c9.j.get("inlined_from") == tag) and abs(c9.line - x.line) < 40]
                srcs9 = [render(a9) for c9 in copies for a9 in c9.call_args()[1:]]
                if any((name + " + 1") in s9 for s9 in srcs9):
                    ctx.ok("P6", "a before-key comment is the line without its comment character", x.where, "copied from %s + 1 by the helper that builds the buffer" % name)
                elif any(name in s9 for s9 in srcs9):
                    ctx.fail("P6", "a before-key comment is the line without its comment character", x.where, "the helper copies %s" % [s9 for s9 in srcs9 if name in s9][:2], key="before-text")
                else:
                    ctx.inconclusive("P6", "a before-key comment is the line without its comment character", x.where, "records %s: source of the text not found" % t[:70])
            else:
                ctx.fail("P6", "a before-key comment is the line without its comment character", x.where, "records %s" % t[:70], key="before-text")
    else:
        ctx.inconclusive("P6", "pending buffers", rf.where, "writers of the pending buffers not found")
