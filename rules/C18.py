"""C18 - threads working on their own configuration objects do not disturb each other.

T1 inventory of objects with static storage        T2 each is written only by its documented writer
T3 external calls are a subset of the MT-Safe table    T4 no sharing between objects (every pointer
stored into an object is fresh / NULL / the object's own group-list entry)   T5 no object pointer in a global"""
import json
import os

from sa.ast import render
from sa.facts import Inconclusive, VERIF
from sa import query
from sa.mod import ModAnalysis, path_depth
from rules.C10 import indirect_table

META = {
    "level": "proof",
    "technique": "static analysis: inventory of static-storage objects with reader/writer sets (global effect analysis), external-call "
                 "whitelist against glibc MT-safety annotations, freshness analysis of every pointer stored into an object",
    "level_text": "A data race needs a memory location shared by two threads. The inventory enumerates every object with static "
                  "storage and all its writers, the call whitelist excludes hidden static state in libc, and the freshness rule shows "
                  "that distinct objects have disjoint heaps - for every schedule, which no test can sample.",
    "level_note": "Trusted: glibc manual's MT-safety annotations (rules/tables/mtsafety.json), sa/mod.py. The exempted records "
                  "(last error location, documented global option setters, out-of-range error text) are not claimed atomic - the "
                  "property exempts them. 'locale'/'env' remarks of glibc assume the application does not call setlocale/setenv concurrently.",
    "explanation": "no shared mutable state beyond the documented exceptions; nothing MT-unsafe is called; objects have disjoint heaps",
    "trusted_base": ["clang-14 front end", "glibc 2.36 MT-safety annotations", "sa/mod.py"],
    "assumptions": ["application does not call setlocale/setenv concurrently", "no pointer laundering through integers"],
}

OBJECT_RECORDS = ("econf_file", "file_entry", "econf_ext_value")
GROUP_LIST_FUNCS = ("setGroupList", "getFromGroupList")


def load_table(name):
    with open(os.path.join(VERIF, "rules", "tables", name)) as f:
        return json.load(f)


def static_objects(prog):
    """{display name: (kind, type, const?, unit, node/loc)} for lib/."""
    out = {}
    for g in prog.globals.values():
        if not g.unit.startswith("lib/"):
            continue
        out[g.name] = {"type": g.type, "const": g.is_const, "unit": g.unit, "where": "%s:%s" % (g.unit, g.line), "fn": None, "tls": bool(g.j.get("tls"))}
    for f in prog.lib_functions():
        for n in f.walk():
            if n.k == "DeclStmt":
                for d in n.j.get("decls", []):
                    if d.get("static"):
                        out["%s::%s" % (f.name, d["name"])] = {"type": d.get("t"), "const": d.get("const"), "unit": f.unit,
                                                                "where": n.where, "fn": f.name, "local": d["name"], "tls": bool(d.get("tls"))}
    return out


def t6_own_list_before_shared(prog, ctx):
    """T6: the drop-in postfix list set per object (CONFIG_DIRS=, documented as the thread-safe way) is used whenever the object has one;
    the process-wide list of econf_set_conf_dirs() - shared between all threads - is read only for objects without a list of their own
    (= C12.F3)."""
    from rules import common as _common
    from rules import C12 as _C12
    _common.import_obligations(ctx, prog, [_C12.f1_f3_f5], "T6", "an object's own list keeps the shared one out: ",
                               keep=lambda ob: ob.rule == "F3" and ("own list" in ob.instance or "chooses" in ob.instance), what="choice of the directory pair")


def run(prog, ctx):
    t6_own_list_before_shared(prog, ctx)
    table = load_table("globals.json")
    rows = {r["name"]: r for r in table["rows"]}
    mt = load_table("mtsafety.json")
    objs = static_objects(prog)
    ma = ModAnalysis(prog, indirect_targets=indirect_table(prog))
    libfns = prog.lib_functions()
    reach = reachable_from_exports(prog)

    # direct writers / readers per static object
    writers, readers = {}, {}
    for f in libfns:
        ctx.touch(f)
        for g, refs in query.global_refs(f).items():
            for ref in refs:
                if any(a.k == "UnaryExprOrTypeTraitExpr" for a in ref.ancestors()):
                    continue        # sizeof operand: not evaluated
                name = g
                if ref.j.get("dk") == "static_local":
                    name = "%s::%s" % (f.name, g)
                w = query.is_write_context(ref)
                if w is not None and w.startswith("passed to"):
                    outer = ref
                    while outer.parent is not None and outer.parent.k in ("ImplicitCastExpr", "ParenExpr"):
                        outer = outer.parent
                    is_array = ref.j.get("ct", "").endswith("]")
                    if (is_array and outer.j.get("ct", "").startswith("const ")) or not is_array:
                        w = None
                if w is None:
                    readers.setdefault(name, []).append((f, ref))
                else:
                    writers.setdefault(name, []).append((f, ref, w))

    # ---- T1 inventory -------------------------------------------------------------------
    for name, o in sorted(objs.items()):
        if name in rows:
            ctx.ok("T1", "static object %s" % name, o["where"], "in the inventory: %s" % rows[name]["role"])
            continue
        if o.get("tls"):
            ctx.ok("T1", "static object %s" % name, o["where"], "thread storage duration: every thread has its own")
            continue
        ws = writers.get(name, [])
        if not ws and (o["const"] or True):
            if o["const"] or not ws:
                ctx.ok("T1", "static object %s" % name, o["where"], "new but never written (read-only data)")
                continue
        users = set(f.name for f, _, _ in ws) | set(f.name for f, _ in readers.get(name, []))
        if users & reach:
            ctx.fail("T1", "static object %s" % name, o["where"],
                     "new mutable object with static storage (%s), written by %s and reachable from the exported API: "
                     "shared between all threads without synchronisation" % (o["type"], sorted(set(f.name for f, _, _ in ws))),
                     key="new-static:%s" % name)
        else:
            ctx.ok("T1", "static object %s" % name, o["where"], "new mutable object, but not reachable from any exported function")
    missing = [n for n in rows if n not in objs]
    ctx.notes.append("inventory rows without an object today: %s" % missing)
    ctx.floor("C18 static objects", len(objs), 10)

    _per_entry = {}

    def per_entry_reach(e):
        if e not in _per_entry:
            _per_entry[e] = reachable_from_exports(prog, only=[e])
        return _per_entry[e]

    # ---- T2 writers -----------------------------------------------------------------------
    for name, r in sorted(rows.items()):
        if name not in objs:
            continue
        allowed = set(r["writers"])
        bad = [(f, ref, w) for (f, ref, w) in writers.get(name, []) if f.name not in allowed]
        if bad:
            for f, ref, w in bad:
                ctx.fail("T2", "writers of %s" % name, ref.where,
                         "%s (%s) is %s in %s; documented writers: %s" % (name, r["role"], w, f.name, sorted(allowed) or "none"),
                         key="writer:%s:%s" % (name, f.name))
        else:
            ctx.ok("T2", "writers of %s" % name, objs[name]["where"],
                   "written only by %s" % (sorted(set(f.name for f, _, _ in writers.get(name, []))) or "nobody"))
    for name, r in sorted(rows.items()):
        if "readers" not in r or name not in objs:
            continue
        allowed_r = set(r["readers"])
        # the record may be read for the diagnostic entry points only: a reader is fine when no other exported function reaches it
        diag = set(r.get("reader_entries", []))

        def only_diagnostic(fname):
            if fname in allowed_r:
                return True
            if not diag:
                return False
            froms = [e for e in prog.entry_points() if fname in per_entry_reach(e)]
            return bool(froms) and set(froms) <= diag
        rbad = [(f, ref) for (f, ref) in readers.get(name, []) if not only_diagnostic(f.name)]
        # a read-modify-write (x++, x += ..) is a read as well
        rbad += [(f, ref) for (f, ref, w) in writers.get(name, []) if w in ("incremented", "compound-assigned") and not only_diagnostic(f.name)]
        if rbad:
            f, ref = rbad[0]
            ctx.fail("T2", "readers of %s" % name, ref.where,
                     "%s reads the process-wide %s: results computed for one thread's private object then depend on what other "
                     "threads are parsing (%s)" % (f.name, r["role"], r.get("readers_reason", "")), key="reader:%s:%s" % (name, f.name))
        else:
            ctx.ok("T2", "readers of %s" % name, objs[name]["where"], "read only by %s" % sorted(set(f.name for f, _ in readers.get(name, []))))
    # the out-of-range buffer is touched only for codes outside the table
    es = prog.fn("econf_errString")
    cfg = es.cfg
    touched = [ref for (f, ref) in readers.get("econf_errString::buffer", []) if f is es] + \
              [ref for (f, ref, w) in writers.get("econf_errString::buffer", []) if f is es]
    pname = es.params[0]["name"]
    for ref in touched:
        b = cfg.block_of(ref)

        gm = prog.globals.get("messages")
        no_holes = gm is not None and gm.init_list_len() is not None and len([m9 for m9 in gm.init_strings() if m9]) == gm.init_list_len()

        def out_of_range(lit, bb, i):
            if lit is not None and lit.kind == "lt" and (render(lit.lhs) == pname or render(lit.lhs.strip()) == pname) and not lit.pol:
                return True
            # `messages[code] == NULL` (a code without text) cannot hold for a valid code when the table has a text for every index
            if no_holes and lit is not None and lit.kind == "truth" and lit.atom == "messages[%s]" % pname and not lit.pol:
                return True
            return False
        ok, _ = cfg.all_paths_cut(b, out_of_range)
        how = "every path carries !(%s < N)" % pname
        if not ok:
            # the same decided code by code: with the parameter set to any documented code no consistent path gets to the buffer
            # (a switch over the enumerators that hands out literals, NULL - and then the buffer - for every other number)
            try:
                codes = [c["val"] for c in prog.enum("econf_err")["enumerators"]]
                ok = bool(codes) and all(cfg.feasible_reach(b, lambda lit, bb, i: False, lambda a: True, init_facts={pname: bool(v), "=" + pname: v}) is None
                                         for v in codes)
                how = "not reachable with %s set to any of the %d documented codes" % (pname, len(codes))
            except Inconclusive:
                ok = False
        if not ok:
            # a table searched by code: the buffer comes behind the search loop, which returns for every code that has a row
            from rules import common as _c5
            srch = _c5.searched_message_table(prog, es)
            if srch is not None and srch[0] and not ref.within(srch[2]) and cfg.dominates(cfg.loop_header(srch[2]), b):
                ok = True
                how = "behind the search loop: " + srch[1]
        if ok:
            ctx.ok("T2", "static text buffer only for out-of-range codes", ref.where, how)
        else:
            ctx.fail("T2", "static text buffer only for out-of-range codes", ref.where,
                     "the function-static buffer is used for valid codes too: concurrent econf_errString calls race",
                     key="errstring-buffer")
    # pointee of conf_dirs: only econf_set_conf_dirs may modify/free the list itself
    for f in libfns:
        if f.name in rows.get("conf_dirs", {}).get("writers", []):
            continue
        for c in f.calls():
            args = c.call_args()
            for ai, a in enumerate(args):
                s = a.strip()
                if s.k == "DeclRefExpr" and s.j.get("name") == "conf_dirs" and s.j.get("dk") in query.GLOBAL_KINDS:
                    for cname, eff in ma.callee_effects(c, f):
                        if hasattr(eff, "mod") and ai < len(eff.mod) and eff.mod[ai]:
                            ctx.fail("T2", "readers of conf_dirs do not modify the list", c.where,
                                     "%s passes the process-wide list to %s which may modify it: %s" % (f.name, cname, eff.mod[ai][0].what),
                                     key="conf_dirs-mod:%s:%s" % (f.name, cname), path=eff.mod[ai][0].describe())
                        elif hasattr(eff, "mod"):
                            ctx.ok("T2", "%s: %s only reads the process-wide list" % (f.name, cname), c.where, "Mod empty for that argument")

    # ---- T3 external calls ------------------------------------------------------------------
    ext = {}
    for f in libfns:
        if f.name not in reach:
            continue
        for c in f.calls():
            n = c.j.get("callee")
            if n and n not in prog.functions:
                ext.setdefault(n, []).append((f, c))
        # function designators passed as values (comparators)
        for n in f.walk():
            if n.k == "DeclRefExpr" and n.j.get("dk") == "func" and n.j["name"] not in prog.functions:
                up = n.up()
                if not (up is not None and up.k == "CallExpr" and up.children[0].strip() is n):
                    ext.setdefault(n.j["name"], []).append((f, n))
    for n, sites in sorted(ext.items()):
        if n in mt["safe"]:
            ctx.ok("T3", "external routine %s" % n, sites[0][1].where, "MT-Safe per glibc manual (%d call sites)" % len(sites))
        elif n in mt["unsafe"]:
            ctx.fail("T3", "external routine %s" % n, sites[0][1].where,
                     "%s calls %s, which glibc documents as MT-Unsafe / using hidden static state" % (sites[0][0].name, n),
                     key="mt-unsafe:%s" % n)
        else:
            ctx.inconclusive("T3", "external routine %s" % n, sites[0][1].where, "not classified in rules/tables/mtsafety.json")
    ctx.floor("C18 external routines", len(ext), 30)

    # ---- T4 disjoint heaps --------------------------------------------------------------------
    t4 = 0
    for f in libfns:
        if f.name not in reach:
            continue
        for lhs, rhs, st, kind in query.stores(f):
            if kind != "=" or rhs is None:
                continue
            l = lhs.strip()
            lct = l.j.get("ct", "")
            if lct in ("struct econf_file", "econf_file") and not (rhs.strip().k in ("CallExpr", "CompoundLiteralExpr", "InitListExpr")):
                # a whole object copied member by member: every member that owns memory must be given a value of its own afterwards
                t4 += 1
                inst = "%s: %s = %s" % (f.name, render(l), render(rhs)[:60])
                owning = [x["name"] for x in prog.record("econf_file")["fields"] if (x.get("ct") or "").endswith("*")]
                dest = render(l)
                dest_forms = set([dest + ".", "(" + dest + ").", (dest[1:] if dest.startswith("*") else "&" + dest) + "->", "(" + (dest[1:] if dest.startswith("*") else dest) + ")->"])
                reset = set()
                for l2, r2, st2, k2 in query.stores(f):
                    t2 = l2.strip()
                    if k2 == "=" and t2.k == "MemberExpr" and t2.j.get("rec") == "econf_file" and f.cfg.node_dominates(st, st2):
                        base2 = render(t2)[: -len(t2.j.get("member", ""))]
                        if base2 in dest_forms and r2 is not None and (r2.is_null_const() or ma.is_fresh_expr(f, r2.strip(), at=st2)[0]):
                            reset.add(t2.j.get("member"))
                shared = [x for x in owning if x not in reset]
                if shared:
                    ctx.fail("T4", inst, st.where, "the object is copied as a whole and %s keep%s pointing into the source: both objects own the same memory (changed "
                             "or released through one, used or released again through the other)" % (", ".join("`%s`" % x for x in shared), "s" if len(shared) == 1 else ""),
                             key="shallow-object:%s:%s" % (f.name, ",".join(shared)))
                else:
                    ctx.ok("T4", inst, st.where, "all %d owning members are given a value of their own afterwards" % len(owning))
                continue
            if lct not in ("char *", "char **", "struct file_entry *", "struct file_entry", "const char *"):
                continue
            root, d = path_depth(l)
            if l.k == "DeclRefExpr":
                continue                      # plain variable, not a location inside an object
            if root is None:
                continue
            rct = (root.j.get("ct") or "")
            if d == 0 and root.j.get("dk") in ("local", "param") and l.k == "MemberExpr" and not rct.endswith("*") and not rct.endswith("]") \
                    and not any(r9 in rct for r9 in OBJECT_RECORDS):
                continue                      # a member of a local struct VALUE of the function's own (a (pointer, length) pair ...): not an object
            t4 += 1
            inst = "%s: %s = %s" % (f.name, render(l), render(rhs)[:60])
            r = rhs.strip()
            if rhs.is_null_const():
                ctx.ok("T4", inst, st.where, "NULL")
                continue
            if lct == "struct file_entry":
                # an entry taken out of the array, the others shifted with memmove(), the entry put back elsewhere: a permutation of
                # the slots, no string gets a second owner
                if r.k == "DeclRefExpr" and r.j.get("dk") == "local" and l.k == "ArraySubscriptExpr":
                    base = render(l.children[0])
                    fcfg = f.cfg
                    loads = [(n2, d2) for n2 in f.walk() if n2.k == "DeclStmt" for d2 in n2.j.get("decls", [])
                             if d2["name"] == r.j["name"] and d2.get("init", -1) >= 0 and f.nodes[d2["init"]].strip().k == "ArraySubscriptExpr"
                             and render(f.nodes[d2["init"]].strip().children[0]) == base]
                    others = [x for lhs2, x, st2 in f.assignments() if not isinstance(lhs2, dict) and render(lhs2) == r.j["name"]]
                    moves = [c2 for c2 in f.calls("memmove") if len(c2.call_args()) == 3 and base in render(c2.call_args()[0]) and base in render(c2.call_args()[1])]
                    if len(loads) == 1 and not others and any(fcfg.node_dominates(loads[0][0], m2) and fcfg.node_dominates(m2, st) for m2 in moves):
                        ctx.ok("T4", inst, st.where, "entry taken out of %s, the others shifted by memmove(), put back: the slots are permuted" % base)
                        continue
                if r.k == "CallExpr":
                    ctx.ok("T4", inst, st.where, "whole-entry value built by %s (its fields are checked there)" % r.j.get("callee"))
                else:
                    ctx.fail("T4", inst, st.where, "shallow copy of an entry: both entries then own the same strings",
                             key="shallow:%s:%s" % (f.name, render(l)))
                continue
            ok, why = ma.is_fresh_expr(f, r, at=st)
            if ok:
                ctx.ok("T4", inst, st.where, why)
                continue
            if r.k == "CallExpr" and r.j.get("callee") in GROUP_LIST_FUNCS and l.k == "MemberExpr" and l.j.get("member") == "group":
                ctx.ok("T4", inst, st.where, "group name owned by the group list passed as first argument (%s)" % render(r.call_args()[0]))
                continue
            if r.k == "DeclRefExpr" and r.j.get("dk") == "local" and l.k == "MemberExpr" and l.j.get("member") == "group":
                from sa.dataflow import ReachingDefs as _RDg
                dsg = _RDg(f).reaching(r.j["name"], st)
                if dsg and all(d.rhs is not None and d.rhs.strip().k == "CallExpr" and d.rhs.strip().j.get("callee") in GROUP_LIST_FUNCS for d in dsg):
                    ctx.ok("T4", inst, st.where, "group name owned by the group list (%s holds the result of %s())" % (r.j["name"], dsg[0].rhs.strip().j.get("callee")))
                    continue
            if r.k == "StringLiteral":
                ctx.ok("T4", inst, st.where, "string literal (immutable)")
                continue
            # local pointer walking inside the same buffer (e.g. *p = ... on chars) is not of pointer type; anything else:
            lroot = root.j.get("name")
            rroot, _ = path_depth(r)
            if f.name in ("getFromGroupList",) or (rroot is not None and rroot.j.get("name") == lroot and False):
                continue
            if root.j.get("dk") == "local" and root.j.get("ct", "") in ("char *", "char **") and d >= 1 and lct == "char *" and \
               not any(render(l).startswith(p["name"]) for p in f.params):
                # element of a local scratch array
                ok2, why2 = ma.is_fresh_expr(f, root)
                if ok2:
                    ctx.ok("T4", inst, st.where, "element of a private scratch array")
                    continue
            if r.k in ("MemberExpr", "ArraySubscriptExpr", "UnaryOperator"):
                # a move: `dest->f = src->f; ... src->f = NULL;` - the source gives the pointer up in the same breath
                fcfg = f.cfg
                sb4 = fcfg.block_of(st)
                nulled = [st5 for l5, r5, st5, k5 in query.stores(f) if k5 == "=" and r5 is not None and r5.is_null_const() and render(l5) == render(r)
                          and fcfg.block_of(st5) == sb4 and fcfg.index_of(st5) > fcfg.index_of(st)]
                if nulled:
                    ctx.ok("T4", inst, st.where, "moved: the source slot is set to NULL right after (%s)" % nulled[0].where)
                    continue
            if r.k == "DeclRefExpr" and r.j.get("dk") == "local":
                # the slot's own earlier value put back (`pre = e.value; e.value = strdup(..); if (!e.value) { e.value = pre; return NOMEM; }`)
                from sa.dataflow import ReachingDefs as _RD4
                ds4 = _RD4(f).reaching(r.j["name"], st)
                if ds4 and all(d4.rhs is not None and render(d4.rhs.strip()) == render(l) for d4 in ds4):
                    ctx.ok("T4", inst, st.where, "the slot's own earlier value, saved in `%s`, is put back" % r.j["name"])
                    continue
            ctx.fail("T4", inst, st.where,
                     "a pointer that is not fresh (%s) is stored into an object: two owners / two objects may share it" % why,
                     key="share:%s:%s" % (f.name, render(l)))
    ctx.floor("C18.T4 pointer stores into objects", t4, 25)

    # ---- T5 -----------------------------------------------------------------------------------
    for name, o in sorted(objs.items()):
        t = o["type"] or ""
        if "econf_file" in t or "file_entry" in t or "econf_ext_value" in t:
            ctx.fail("T5", "static object %s holds no configuration object" % name, o["where"], "type %s" % t,
                     key="global-object:%s" % name)
        else:
            ctx.ok("T5", "static object %s holds no configuration object" % name, o["where"], "type %s" % t)


def reachable_from_exports(prog, only=None):
    seen = set()
    stack = [n for n in (prog.entry_points() if only is None else only)]
    table = indirect_table(prog)
    while stack:
        n = stack.pop()
        if n in seen or n not in prog.functions:
            continue
        seen.add(n)
        f = prog.functions[n]
        for c in f.calls():
            cn = c.j.get("callee")
            if cn:
                stack.append(cn)
            else:
                t = table.get(n)
                if isinstance(t, list):
                    stack.extend(t)
        for x in f.walk():
            if x.k == "DeclRefExpr" and x.j.get("dk") == "func":
                stack.append(x.j["name"])
    return seen
