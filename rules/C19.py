"""C19 - econftool shows what an application would get (structural obligations).

U1 group-less keys are listed whether or not the file has sections      U2 exit status non-zero exactly when the library read failed; error location printed
U3 cat walks the whole history in order                                   U4 show / syntax / cat read with the same six arguments
U5 no argv data overruns or is cut in a fixed buffer (= C14 on util/)
U6 option arguments reach the library whole   U7 one single-file test   U8 in-place text edits keep the terminator
U9 the library listings the tool prints from are complete and ordered (= C11.A7)"""
from sa.ast import render
from sa.facts import Inconclusive
from sa import query, loops
from sa.dataflow import ReachingDefs
from sa.buf import _redefined_between

META = {
    "level": "other",
    "technique": "static analysis: path conditions of the group-less listing, propagation of the library's return code to the exit status, "
                 "loop shape of the history walk, argument agreement of the three sub-commands, fixed-buffer flow rule on util/",
    "level_text": "Decides the structural obligations without which the tool's output cannot be complete or its exit status right, for every "
                  "tree: the group-less pass is not conditional on 'no sections', a failed read always ends in a non-zero status after printing "
                  "the error location, cat visits every consulted file in order, and all sub-commands read with the same arguments. Not decided: "
                  "the printed text itself.",
    "level_note": "Partial. Trusted: clang front end/CFG, sa/buf.py.",
    "explanation": "completeness and exit-status obligations of econftool",
    "trusted_base": ["clang-14 front end and CFG", "sa/cfg.py", "sa/buf.py"],
    "assumptions": [],
}


def _null_sources(f, arg, rd, at):
    """statements that can make the group argument NULL/empty: [(node, description)]"""
    out = []
    a = arg.strip()
    if arg.is_null_const() or a.string_value() == "":
        return [(at, "constant NULL argument")]
    if a.k == "DeclRefExpr" and a.j.get("dk") == "local":
        for d in rd.reaching(a.j["name"], at):
            if d.rhs is None:
                continue
            r = d.rhs.strip()
            if d.rhs.is_null_const() or r.string_value() == "":
                out.append((d.node, "%s = NULL" % a.j["name"]))
            elif r.k == "ConditionalOperator" and (r.child("then").is_null_const() or r.child("else").is_null_const()):
                out.append((d.node, "%s = %s" % (a.j["name"], render(r))))
    if a.k == "ArraySubscriptExpr":
        base = render(a.children[0])
        for lhs, rhs, st, kind in query.stores(f):
            l = lhs.strip()
            if l.k == "ArraySubscriptExpr" and render(l.children[0]) == base and rhs is not None and rhs.is_null_const():
                out.append((st, "%s = NULL" % render(l)))
    return out


def u1(prog, ctx):
    f = prog.fn("pr_key_file", util=True)
    ctx.touch(f)
    cfg = f.cfg
    rd = ReachingDefs(f)
    gg = f.calls("econf_getGroups")
    gk = f.calls("econf_getKeys")
    if len(gg) != 1 or not gk:
        raise Inconclusive("pr_key_file: listing calls not found")
    ev = None
    up = gg[0].up()
    if up is not None and up.k == "BinaryOperator" and up.j.get("op") == "=":
        ev = render(up.children[0])
    sources = []
    for c in gk:
        sources += _null_sources(f, c.call_args()[1], rd, c)
    if not sources:
        ctx.fail("U1", "keys outside any section are listed", gk[0].where,
                 "no econf_getKeys() call ever receives a NULL/empty section: group-less keys are never shown", key="groupless-never")
        return

    def nogroup(lit, b, i):
        return lit is not None and lit.kind == "eq" and "ECONF_NOGROUP" in lit.atom and lit.pol
    unconditional = []
    for node, what in sources:
        ok, cut = cfg.all_paths_cut(cfg.block_of(node), nogroup)
        if not (ok and cut):
            unconditional.append((node, what))
    # when the NULL section hangs on `V == K` of a counting loop, that loop must really start at K
    starts_ok = True
    why_start = ""
    for node, what in unconditional:
        mcond = None
        for x in node.walk():
            if x.k == "ConditionalOperator" and (x.child("then").is_null_const() or x.child("else").is_null_const()):
                mcond = x.child("cond").strip()
        if mcond is not None and mcond.k == "BinaryOperator" and mcond.j.get("op") == "==":
            v, kc = render(mcond.children[0]), mcond.children[1].const_value()
            for a in node.ancestors():
                if a.k == "ForStmt":
                    sh = loops.for_shape(a)
                    if sh.var == v and (sh.start_node is None or sh.start_node.const_value() != kc):
                        starts_ok = False
                        why_start = "the pass for `%s == %s` exists, but the loop starts at `%s`: when that is not %s the group-less pass is skipped" % (v, kc, sh.start, kc)
    if unconditional and not starts_ok:
        ctx.fail("U1", "keys outside any section are listed", unconditional[0][0].where, why_start, key="groupless-pass-skipped")
    elif unconditional:
        ctx.ok("U1", "keys outside any section are listed", unconditional[0][0].where,
               "`%s` is reached whether or not the file has sections" % unconditional[0][1])
    else:
        ctx.fail("U1", "keys outside any section are listed", sources[0][0].where,
                 "the only group-less pass (`%s`) is made when econf_getGroups() reports ECONF_NOGROUP: for a file that has sections AND "
                 "group-less keys - or, since sections are listed first, any file whose listing succeeds - the keys before the first header "
                 "are not shown" % sources[0][1], key="groupless-only-without-sections")
    # a section without keys (econf_getKeys: ECONF_NOKEY) does not end the listing: the sections behind it are still shown
    nokey = prog.enumerators.get("ECONF_NOKEY")
    for c in gk:
        upc = c.up()
        v = render(upc.children[0]) if upc is not None and upc.k == "BinaryOperator" else None
        lp = [a for a in c.ancestors() if a.k in ("ForStmt", "WhileStmt", "DoStmt")]
        if not v or not lp:
            continue
        pos = cfg.index_of(upc)
        sh = loops.index_shape(lp[0])
        hits = []

        hb_l = cfg.loop_header(lp[0])
        succ_l = {(b2, i2): s3 for (b2, i2, s3) in cfg.edges()}

        def first_pass(lit, b, i, sh=sh):
            # this round only; and the pass for the keys outside any section may bail out differently: only follow the passes for named sections
            if succ_l.get((b, i)) == hb_l:
                return True
            if lit is None or not sh.ok:
                return False
            if lit.kind == "eq" and lit.pol and sh.var in (render(lit.lhs), render(lit.rhs)) and 0 in (lit.lhs.const_value(), lit.rhs.const_value()):
                return True
            if lit.kind == "truth" and lit.atom == sh.var and not lit.pol:
                return True
            return lit.kind == "lt" and not lit.pol and render(lit.rhs) == sh.var and lit.lhs.const_value() == 0

        def visit(b, fd, lp=lp):
            for k, n2 in enumerate(cfg.blocks[b].elems):
                if b == pos[0] and k <= pos[1] and not visit.left:
                    continue
                if n2.k == "ReturnStmt" and not n2.j.get("inlined_return") and n2.within(lp[0]):
                    hits.append(n2)
            visit.left = True
            return False
        # what is known when the call is reached in a round for a named section (e.g. `groups[g] != NULL`)
        arrivals = []

        def arrive(b, fd):
            if b == pos[0]:
                arrivals.append(dict(fd))
            return False
        cfg.feasible_reach(None, first_pass, lambda a: True, start=cfg.loop_body_entry(lp[0]), accept=arrive)
        seen_f = set()
        for fd0 in arrivals or [{}]:
            fd0 = {k2: v2 for k2, v2 in fd0.items() if v not in k2}
            key0 = frozenset(fd0.items())
            if key0 in seen_f:
                continue
            seen_f.add(key0)
            visit.left = False
            fd0.update({v: True, "=" + v: nokey})
            cfg.feasible_reach(None, first_pass, lambda a: True, start=pos[0], accept=visit, init_facts=fd0, start_index=pos[1] + 1)
        inst = "a section without keys does not end the listing"
        if hits:
            ctx.fail("U1", inst, hits[0].where,
                     "when econf_getKeys() reports ECONF_NOKEY for a named section (a header without keys) pr_key_file prints an error and returns: the "
                     "sections behind it are not shown although the library returns them", key="empty-section-stops-listing")
        else:
            ctx.ok("U1", inst, c.where, "with %s == ECONF_NOKEY for a named section no return is reachable in that round" % v)
    # a failing listing of one section must not be reported as success
    for c in gk:
        upc = c.up()
        v = render(upc.children[0]) if upc is not None and upc.k == "BinaryOperator" else None
        if v:
            rets = [r for r in f.returns() if r.children and render(r.children[0]) == v]
            if rets:
                ctx.ok("U1", "a failing key listing is reported", rets[0].where, "return %s" % v)


def u2(prog, ctx):
    f = prog.fn("econf_read", util=True)
    ctx.touch(f)
    cfg = f.cfg
    reads = f.calls(("econf_readFile", "econf_readDirs", "econf_readConfig", "econf_readFileWithCallback", "econf_readDirsWithCallback"))
    if not reads:
        raise Inconclusive("econf_read: no library read found")
    vars_ = set()
    for c in reads:
        up = c.up()
        if up is not None and up.k == "BinaryOperator" and up.j.get("op") == "=":
            vars_.add(render(up.children[0]))
    # the result may travel on through copies (a helper's return variable copied into the caller's status variable)
    evs = set(vars_)
    grew = True
    while grew:
        grew = False
        for lhs9, rhs9, st9 in f.assignments():
            nm9 = lhs9["name"] if isinstance(lhs9, dict) else render(lhs9)
            if rhs9 is not None and render(rhs9.strip()) in evs and nm9 not in evs:
                evs.add(nm9)
                grew = True
    tested = set(lit.atom for (b, i, s2) in cfg.edges() for lit in [cfg.edge_lit(b, i)] if lit is not None and lit.kind == "truth" and lit.atom in evs)
    if len(vars_) != 1 and len(tested) != 1:
        ctx.inconclusive("U2", "library result is kept", f.where, "results stored in %s" % sorted(vars_))
        return
    ev = list(tested)[0] if len(tested) == 1 else list(vars_)[0]
    bad = []
    for r in f.returns():
        rb = cfg.block_of(r)
        val = r.children[0].const_value() if r.children else None
        fail_only, _ = cfg.all_paths_cut(rb, lambda lit, b, i: lit is not None and lit.kind == "truth" and lit.atom == ev and lit.pol)
        ok_only, _ = cfg.all_paths_cut(rb, lambda lit, b, i: lit is not None and lit.kind == "truth" and lit.atom == ev and not lit.pol)
        if val == 0 and not ok_only:
            bad.append((r, "returns 0 on a path where the library read failed"))
        elif val not in (0, None) and not fail_only:
            bad.append((r, "returns %s although the read succeeded" % val))
        elif val is None:
            bad.append((r, "returns %s" % render(r)))
    if bad:
        ctx.fail("U2", "status reflects the library's verdict", bad[0][0].where, bad[0][1], key="status")
    else:
        ctx.ok("U2", "status reflects the library's verdict", f.where, "non-zero return exactly behind `%s != 0`" % ev)
    pe = f.calls("print_error")
    failing = [r for r in f.returns() if r.children and r.children[0].const_value() not in (0, None)]
    silent = [r for r in failing if not any(cfg.node_dominates(c, r) for c in pe)]
    if failing and not silent:
        ctx.ok("U2", "the error location is printed on failure", pe[0].where, "print_error() dominates all %d failing returns" % len(failing))
    else:
        ctx.fail("U2", "the error location is printed on failure", (silent[0] if silent else f).where,
                 "a failing return is not preceded by print_error(): for that kind of read (e.g. a single absolute file) the error is reported without file and line",
                 key="no-location")
    p = prog.fn("print_error", util=True)
    if p.calls("econf_errLocation") and p.calls("econf_errString"):
        ctx.ok("U2", "print_error names file, line and message", p.where, "econf_errLocation + econf_errString")
    else:
        ctx.fail("U2", "print_error names file, line and message", p.where, "missing econf_errLocation/econf_errString", key="print-error")
    # main: the status of show / syntax / cat is what the process returns
    m = prog.fn("main", util=True)
    ctx.touch(m)
    mcfg = m.cfg
    for callee in ("econf_read", "econf_cat"):
        for c in m.calls(callee):
            up = c.up()
            v = render(up.children[0]) if up is not None and up.k == "BinaryOperator" and up.j.get("op") == "=" else None
            if v is None:
                ctx.fail("U2", "main keeps the status of %s" % callee, c.where, "result discarded: the process exits 0 after a failed read", key="main-status:%s" % callee)
                continue
            rets = [r for r in m.returns() if mcfg.block_of(r) in mcfg.reachable(mcfg.block_of(c))]
            wrong = [r for r in rets if not r.children or render(r.children[0]) != v or _redefined_between(m, {v}, up, r)]
            if wrong:
                ctx.fail("U2", "main keeps the status of %s" % callee, wrong[0].where, "after %s() main returns %s" % (callee, render(wrong[0])), key="main-status:%s" % callee)
            else:
                ctx.ok("U2", "main keeps the status of %s" % callee, c.where, "`return %s` unchanged" % v)


def u3_u4(prog, ctx):
    cat = prog.fn("econf_cat", util=True)
    rd_ = prog.fn("econf_read", util=True)
    ctx.touch(cat)
    h = cat.calls(("econf_readDirsHistory", "econf_readDirsHistoryWithCallback"))
    if len(h) != 1:
        ctx.fail("U3", "cat uses the history API", cat.where, "%d history calls" % len(h), key="cat-api")
        return
    ctx.ok("U3", "cat uses the history API", h[0].where, h[0].j["callee"])
    a = h[0].call_args()
    arr, size = render(a[0]).lstrip("&"), render(a[1]).lstrip("&")
    lp = [x for x in cat.walk() if x.k == "ForStmt"]
    prc = cat.calls("pr_key_file")
    if len(lp) == 1 and prc and prc[0].within(lp[0]):
        sh = loops.for_shape(lp[0])
        ccfg = cat.cfg
        hb = ccfg.loop_header(lp[0])
        pb = ccfg.block_of(prc[0])
        skip = ccfg.reachable(ccfg.loop_body_entry(lp[0]), avoid_blocks=[pb, hb])
        skipped = any(s2 == hb and b in skip for (b, i, s2) in ccfg.edges()) or any(
            ccfg.block_of(x) in skip for x in (lp[0].child("inc").walk() if lp[0].child("inc") is not None else []))
        if skipped:
            ctx.fail("U3", "cat prints every consulted file in processing order", prc[0].where,
                     "an iteration can go round without calling pr_key_file(): after some condition (e.g. an earlier file that could not be printed) the "
                     "remaining consulted files are not listed", key="cat-skip")
        elif loops.covers_range(sh, 0, size) and render(prc[0].call_args()[0]) == "%s[%s]" % (arr, sh.var):
            ctx.ok("U3", "cat prints every consulted file in processing order", lp[0].where, sh.describe() + "; pr_key_file() on every way round")
        else:
            ctx.fail("U3", "cat prints every consulted file in processing order", lp[0].where, "loop %s printing %s" % (sh.describe(), render(prc[0].call_args()[0])),
                     key="cat-loop")
    else:
        ctx.fail("U3", "cat prints every consulted file in processing order", cat.where, "loop over the history not found", key="cat-loop")
    dirs = rd_.calls(("econf_readDirs", "econf_readDirsWithCallback"))
    if len(dirs) == 1:
        six_show = [render(x) for x in dirs[0].call_args()[1:7]]
        six_cat = [render(x) for x in a[2:8]]
        if six_show == six_cat:
            ctx.ok("U4", "show/syntax and cat read with the same arguments", h[0].where, ", ".join(six_cat))
        else:
            ctx.fail("U4", "show/syntax and cat read with the same arguments", h[0].where, "show: %s; cat: %s" % (six_show, six_cat), key="six-args")
    m = prog.fn("main", util=True)
    pairs = set()
    for c in m.calls(("econf_read", "econf_cat")):
        args = [render(x) for x in c.call_args()]
        if (c.j["callee"] == "econf_read" and len(args) < 3) or (c.j["callee"] == "econf_cat" and len(args) < 2):
            # the options travel in another form (one settings object): every sub-command must get the same one
            objs = set(tuple(render(x) for x in c2.call_args() if "struct" in (x.j.get("ct") or "")) for c2 in m.calls(("econf_read", "econf_cat", "econf_edit")))
            if len(objs) == 1 and list(objs)[0]:
                ctx.ok("U4", "all sub-commands get the same delimiter/comment options", m.where, "one settings object %s for every sub-command" % list(list(objs)[0]))
            else:
                ctx.inconclusive("U4", "all sub-commands get the same delimiter/comment options", m.where, "the sub-commands take their options in a form not understood")
            return
        pairs.add((args[-3], args[-2]) if c.j["callee"] == "econf_read" else (args[0], args[1]))
    rdm = ReachingDefs(m)
    defsets = {}
    for c in m.calls(("econf_read", "econf_cat", "econf_edit")):
        for a in c.call_args():
            a2 = a.strip()
            if a2.k == "DeclRefExpr" and a2.j.get("dk") == "local" and a2.j["name"] in ("delimiters", "comment"):
                ds = frozenset(d.idx for d in rdm.reaching(a2.j["name"], c))
                defsets.setdefault(a2.j["name"], {})[("%s@%d" % (c.j["callee"], c.line))] = ds
    differing = [(v, sites) for v, sites in defsets.items() if len(set(sites.values())) > 1]
    if differing:
        v, sites = differing[0]
        ctx.fail("U4", "all sub-commands get the same delimiter/comment options", m.where,
                 "`%s` reaches the sub-commands with different definitions (%s): e.g. the escape translation of --delimiters is applied for some "
                 "sub-commands only" % (v, ", ".join(sorted(sites))), key="subcmd-defs:%s" % v)
    elif len(pairs) == 1:
        ctx.ok("U4", "all sub-commands get the same delimiter/comment options", m.where, str(list(pairs)[0]))
    else:
        ctx.fail("U4", "all sub-commands get the same delimiter/comment options", m.where, "differing actuals %s" % sorted(pairs), key="subcmd-args")


LIB_READS = {"econf_readFile": (2, 3), "econf_readFileWithCallback": (2, 3), "econf_readDirs": (5, 6), "econf_readDirsWithCallback": (5, 6),
             "econf_readDirsHistory": (6, 7), "econf_readDirsHistoryWithCallback": (6, 7), "econf_readConfig": (5, 6), "econf_readConfigWithCallback": (5, 6)}


def u4b_every_read_with_the_options(prog, ctx, rule="U4"):
    """every read the tool makes - also the re-read of the file the user has just edited - parses with the delimiter and comment SETS
    given on the command line: the arguments of the library's read calls are main()'s option variables, handed down unchanged"""
    m = prog.fn("main", util=True)
    fam = {"delimiters": {("main", "delimiters")}, "comment": {("main", "comment")}}
    changed = True
    fns = {name: f for name, f in prog.util_functions.items()}
    for _round in range(6):
        if not changed:
            break
        changed = False
        for name, f in fns.items():
            fo = getattr(f, "original", f)
            for c in fo.calls():
                g = fns.get(c.j.get("callee"))
                if g is None:
                    continue
                for ai, a in enumerate(c.call_args()):
                    for k, setk in fam.items():
                        if (name, render(a)) in setk and ai < len(g.params) and (g.name, g.params[ai]["name"]) not in setk:
                            setk.add((g.name, g.params[ai]["name"]))
                            changed = True
    n = 0
    for name, f in fns.items():
        fo = getattr(f, "original", f)
        for c in fo.calls(tuple(LIB_READS)):
            di, ci = LIB_READS[c.j["callee"]]
            a = c.call_args()
            if len(a) <= ci:
                continue
            n += 1
            bad = []
            if (name, render(a[di])) not in fam["delimiters"]:
                bad.append("delimiters `%s`" % render(a[di]))
            if (name, render(a[ci])) not in fam["comment"]:
                bad.append("comment characters `%s`" % render(a[ci]))
            inst = "%s: %s() parses with the options of the command line" % (name, c.j["callee"])
            # only a set that is made up on the spot (a local of this function) is known to be another one; options that travel in
            # another form (a settings object) are not understood by this rule
            local_made = [x for x in (a[di], a[ci]) if x.strip().k == "DeclRefExpr" and x.strip().j.get("dk") == "local"
                          and (name, render(x)) not in fam["delimiters"] | fam["comment"]]
            if bad and not local_made:
                ctx.inconclusive(rule, inst, c.where, "read with %s: not recognisably the sets of the command line" % " and ".join(bad))
                continue
            if bad:
                ctx.fail(rule, inst, c.where, "the file is read with %s, not with the sets given by --delimiters / --comment: a line that starts with another "
                         "character of the comment set is taken for a key or for the continuation of the value above it" % " and ".join(bad),
                         key="read-options:%s:%s" % (name, c.j["callee"]))
            else:
                ctx.ok(rule, inst, c.where, "%s, %s handed down from main()" % (render(a[di]), render(a[ci])))
    ctx.counts["U4b library reads in the tool"] = n


def u10_ext_lookup_is_literal(prog, ctx):
    """U10: the tool asks econf_getExtValue() for (section, key) pairs with the section names econf_getGroups() returned; the extended
    getter therefore looks the section up under exactly the name it is given.  A lookup that strips brackets first does not find a
    section whose name itself is written in brackets (`[[units]]` is the section `[units]`)."""
    if not prog.has_fn("econf_getExtValue"):
        return
    g = prog.fn("econf_getExtValue")

    def strips(fn, pname, depth=0):
        """does `fn` hand (a copy of) its parameter `pname` to stripbrackets() on the way to find_key?"""
        if depth > 2:
            return None
        f0 = getattr(fn, "original", fn)
        tainted = {pname}
        for lhs, rhs, st in f0.assignments():
            if rhs is not None and any(x.k == "DeclRefExpr" and x.j.get("name") in tainted for x in rhs.walk()):
                tainted.add(lhs["name"] if isinstance(lhs, dict) else render(lhs))
        for c in f0.calls("stripbrackets"):
            if any(x.k == "DeclRefExpr" and x.j.get("name") in tainted for a in c.call_args() for x in a.walk()):
                return c
        for c in f0.calls():
            cn = c.j.get("callee")
            if cn in ("find_key", "stripbrackets") or cn not in prog.functions:
                continue
            for ai, a in enumerate(c.call_args()):
                if any(x.k == "DeclRefExpr" and x.j.get("name") in tainted for x in a.walk()) and ai < len(prog.functions[cn].params):
                    r = strips(prog.functions[cn], prog.functions[cn].params[ai]["name"], depth + 1)
                    if r is not None:
                        return r
        return None
    gp = [q["name"] for q in g.params if q["name"] == "group"]
    if not gp:
        ctx.inconclusive("U10", "the extended getter looks sections up literally", g.where, "no parameter `group`")
        return
    hit = strips(g, "group")
    if hit is not None:
        ctx.fail("U10", "the extended getter looks sections up literally", hit.where,
                 "on the way from econf_getExtValue() to find_key() the section name goes through stripbrackets(): the tool, which asks with the names "
                 "econf_getGroups() returned, gets `key not found` for a section whose name is itself in brackets and stops listing", key="ext-lookup-stripped")
    else:
        ctx.ok("U10", "the extended getter looks sections up literally", g.where, "the section name reaches find_key() as given")


def u6_u8(prog, ctx):
    """U6 the --comment / --delimiters arguments reach the library whole (the option variable is the argument itself or what
    replace_str() made of it - not a character copied out of it).   U7 every place that decides "one file or a configuration to
    look up" uses the same test.   U8 text edited in place keeps its terminator."""
    m = prog.fn("main", util=True)
    ctx.touch(m)
    # ---- U6 ------------------------------------------------------------------------------------------------------------
    opt_vars = set()
    for c in m.calls(("econf_read", "econf_cat", "econf_edit")):
        tgt = prog.fn(c.j["callee"], util=True)
        pn = tgt.param_names()
        for nm in ("delimiters", "comment"):
            if nm in pn:
                a = c.call_args()[pn.index(nm)].strip()
                if a.k == "DeclRefExpr":
                    opt_vars.add((nm, a.j["name"]))
    if not opt_vars:
        ctx.inconclusive("U6", "option arguments reach the library whole", m.where, "no delimiter/comment variables found in main")
    for what, v in sorted(opt_vars):
        defs = [(rhs, st) for lhs, rhs, st in m.assignments() if (lhs["name"] if isinstance(lhs, dict) else render(lhs)) == v]
        whole = [st for rhs, st in defs if render(rhs) == "optarg"]
        bad = None
        for rhs, st in defs:
            r = rhs.strip()
            if render(r) == "optarg" or r.string_value() is not None:
                continue
            if r.k == "CallExpr" and r.j.get("callee") == "replace_str" and render(r.call_args()[0]) == v:
                continue
            # a translation of the whole argument by a function of the tool (escape notations): the variable itself is handed over
            if r.k == "CallExpr" and r.call_args() and any(render(a9) == v for a9 in r.call_args()) and (
                    r.j.get("callee") in prog.util_functions or r.j.get("callee") in getattr(prog, "inlined_helpers", {})):
                continue
            if r.k == "DeclRefExpr" and r.j.get("dk") == "local":
                mo = getattr(m, "original", m)
                ds9 = [r9 for l9, r9, s9 in mo.assignments() if (l9["name"] if isinstance(l9, dict) else render(l9)) == render(r) and r9 is not None and not r9.is_null_const()]
                if ds9 and all(r9.strip().k == "CallExpr" and any(render(a9) == v for a9 in r9.strip().call_args()) and r9.strip().j.get("callee") in prog.util_functions
                               for r9 in ds9):
                    continue
            if r.k == "DeclRefExpr" and r.j.get("dk") == "local" and (r.j.get("ct") or "").endswith("]"):
                # the variable points at a fixed local array: whatever is copied into it is at most that long
                bad = (st, "`%s` points at the %s-byte array `%s`: only a prefix of the argument can ever get there" % (v, r.j.get("ct"), render(r)))
                continue
            bad = bad or (st, "`%s` is set to `%s`" % (v, render(r)))
        inst = "--%s reaches the library whole" % what
        if bad:
            ctx.fail("U6", inst, bad[0].where, bad[1] + " - a comment/delimiter SET given on the command line is cut, the tool parses differently from the library call "
                     "with that set", key="option-cut:%s" % what)
        elif whole:
            ctx.ok("U6", inst, whole[0].where, "%s = optarg (then only replace_str() on it)" % v)
        else:
            ctx.fail("U6", inst, m.where, "`%s` is never set from optarg: the option has no effect" % v, key="option-ignored:%s" % what)
    # ---- U7 ------------------------------------------------------------------------------------------------------------
    kinds = {}
    for f in prog.util_functions.values():
        for (b, i, s2) in f.cfg.edges():
            if i != 0:
                continue
            lit = f.cfg.edge_lit(b, i)
            if lit is None:
                continue
            if lit.kind == "eq":
                for x, y in ((lit.lhs, lit.rhs), (lit.rhs, lit.lhs)):
                    if y.const_value() == 47 and render(x) in ("conf_filename[0]", "*conf_filename", "argv[optind + 1][0]", "*argv[optind + 1]"):
                        kinds.setdefault("first character is '/'", []).append((f, f.cfg.blocks[b].cond))
            elif lit.kind == "truth" and lit.node.k == "CallExpr" and lit.node.j.get("callee") in ("strchr", "strrchr", "strstr", "strpbrk") and lit.node.call_args() \
                    and render(lit.node.call_args()[0]) in ("conf_filename", "argv[optind + 1]"):
                kinds.setdefault("contains a '/'", []).append((f, f.cfg.blocks[b].cond))
    if len(kinds) > 1:
        minority = min(kinds.items(), key=lambda kv: len(kv[1]))
        ctx.fail("U7", "one test decides between a single file and a configuration to look up", minority[1][0][1].where,
                 "%s decides by `%s` while %s decide by `%s`: for a name like sub/foo.conf main() prepares a lookup in the configuration directories and the "
                 "sub-command opens the name as a file (or refuses it)" % (
                     sorted(set(f.name for f, _ in minority[1])), minority[0],
                     sorted(set(f.name for k2, v2 in kinds.items() if k2 != minority[0] for f, _ in v2)), [k2 for k2 in kinds if k2 != minority[0]][0]),
                 key="single-file-test")
    elif kinds:
        k0 = list(kinds)[0]
        ctx.ok("U7", "one test decides between a single file and a configuration to look up", kinds[k0][0][1].where, "%d sites, all `%s`" % (len(kinds[k0]), k0))
    else:
        ctx.inconclusive("U7", "one test decides between a single file and a configuration to look up", m.where, "no such test found")
    # ---- U8 ------------------------------------------------------------------------------------------------------------
    n8 = 0
    for f in list(prog.util_functions.values()) + list(prog.lib_functions()):
        for c in f.calls(("memmove",)):
            a = c.call_args()
            if len(a) != 3:
                continue
            n8 += 1
            ln = a[2].strip()
            if ln.k == "CallExpr" and ln.j.get("callee") == "strlen" and render(ln.call_args()[0]) == render(a[1]):
                ctx.fail("U8", "%s: a string tail moved in place keeps its terminator" % f.name, c.where,
                         "`%s` moves strlen(source) bytes: the terminating NUL stays behind, the text keeps its old tail (e.g. `=\\t` becomes `=<TAB>t`)" % render(c)[:80],
                         key="shift-without-nul:%s" % f.name)
            else:
                ctx.ok("U8", "%s: a string tail moved in place keeps its terminator" % f.name, c.where, "length `%s`" % render(ln)[:60])
    if n8 == 0:
        ctx.ok("U8", "no in-place string shifting", "", "no memmove() on text in lib/ and util/ besides the entry array")


def u11_u12_imports(prog, ctx):
    """U11: `cat` names the files that were consulted and `show` merges them as the library does: a file found under an absolute name is
    recorded - and compared for same-name masking - under that name, not under the target of a symbolic link (= C01.L16).
    U12: `syntax` names the malformed file: the location record holds the whole path of the file being parsed (= C13.E2)."""
    from rules import common as _common
    from rules import C01 as _C01, C13 as _C13
    from rules import parser as _parser
    _common.import_obligations(ctx, prog, [_C01.l15_l17], "U11", "files are recorded under the name they were found by: ", keep=lambda ob: ob.rule == "L16",
                               what="recording of file names")
    _common.import_obligations(ctx, prog, [lambda p9, c9: _C13.e2(p9, c9, _parser.landmarks(p9))], "U12", "syntax names the malformed file: ",
                               keep=lambda ob: "location" in ob.instance, what="error location record")


def u13_option_table(prog, ctx, rule="U13"):
    """U13: every long option of the tool is an option of its own: the `val` it maps to is the letter of a `case` of the option switch, no
    two names share a letter, and a name takes an argument exactly when its letter does in the getopt string.  (`--comment` mapped to the
    letter of `--delimiters` makes the comment set the user names change the delimiters, and leaves the comment set at its default.)"""
    m = prog.fn("main", util=True)
    ctx.touch(m)
    table = None
    for n0 in m.nodes:
        if n0 is not None and n0.k == "DeclStmt":
            for d0 in n0.j.get("decls", []):
                if d0.get("init", -1) >= 0 and "option" in (d0.get("ct") or "") and m.nodes[d0["init"]].strip().k == "InitListExpr":
                    table = m.nodes[d0["init"]].strip()
    gl = m.calls(("getopt_long", "getopt_long_only"))
    if table is None or len(gl) != 1:
        ctx.inconclusive(rule, "long options of the tool", m.where, "option table / getopt_long() call not found")
        return
    optstring = gl[0].call_args()[2].string_value() or ""
    cases = set()
    for x in m.walk():
        if x.k == "CaseStmt" and x.children:
            cv = x.children[0].const_value()
            if isinstance(cv, int) and 32 < cv < 127:
                cases.add(chr(cv))
    seen = {}
    n = 0
    for row in table.children:
        r0 = row.strip()
        if r0.k != "InitListExpr" or len(r0.children) < 4:
            continue
        name = r0.children[0].string_value()
        val = r0.children[3].const_value()
        has_arg = r0.children[1].const_value()
        if name is None or not isinstance(val, int) or val == 0:
            continue
        n += 1
        letter = chr(val) if 32 < val < 127 else str(val)
        inst = "--%s" % name
        if letter in seen:
            ctx.fail(rule, "%s is an option of its own" % inst, r0.where,
                     "--%s and --%s both map to '%s': the second name does what the first one does, and what it names itself is never set" % (seen[letter], name, letter),
                     key="longopt-shared:%s" % name)
            continue
        seen[letter] = name
        takes = (letter + ":") in optstring
        if letter not in cases or letter not in optstring:
            ctx.fail(rule, "%s is an option of its own" % inst, r0.where, "maps to '%s', which the option switch / the getopt string does not know" % letter, key="longopt-unknown:%s" % name)
        elif bool(has_arg) != takes:
            ctx.fail(rule, "%s is an option of its own" % inst, r0.where,
                     "the table says %s, the getopt string says %s for '%s'" % ("argument" if has_arg else "no argument", "argument" if takes else "no argument", letter),
                     key="longopt-arg:%s" % name)
        else:
            ctx.ok(rule, "%s is an option of its own" % inst, r0.where, "'%s'%s, handled by its own case" % (letter, " with argument" if takes else ""))
    ctx.floor("C19 long options", n, 4)


def u14_u16(prog, ctx):
    """U14: the escape translation of --delimiters (replace_str) puts the replacement where the ORIGINAL text stood: the tail it keeps
    starts behind the original (`p + strlen(orig)` with p = strstr(str, orig)), whatever the length of the replacement.
    U15: the suffix of the configuration name is what follows its LAST dot (strrchr): `org.example.conf` has the suffix `.conf`; the
    drop-in files are selected by that suffix.
    U16: `cat` shows the files as the library reads them for `show` - the history variants parse without JOIN_SAME_ENTRIES / PYTHON_STYLE
    (= C12.F5)."""
    if prog.has_fn("replace_str", util=True):
        f = prog.fn("replace_str", util=True)
        ctx.touch(f)
        finds = [(l, r, st) for l, r, st in f.assignments() if r is not None and any(
            x.k == "CallExpr" and x.j.get("callee") in ("strstr", "strcasestr") for x in r.walk())]
        done = False
        for l, r, st in finds:
            pv = l["name"] if isinstance(l, dict) else render(l)
            call = next(x for x in r.walk() if x.k == "CallExpr" and x.j.get("callee") in ("strstr", "strcasestr"))
            needle = render(call.call_args()[1])
            for x in f.walk():
                if x.k == "BinaryOperator" and x.j.get("op") == "+" and render(x.children[0]) == pv and x.children[1].strip().k == "CallExpr" \
                        and x.children[1].strip().j.get("callee") == "strlen":
                    done = True
                    got = render(x.children[1].strip().call_args()[0])
                    if got == needle:
                        ctx.ok("U14", "replace_str keeps the text behind the original", x.where, "%s + strlen(%s)" % (pv, needle))
                    else:
                        ctx.fail("U14", "replace_str keeps the text behind the original", x.where,
                                 "`%s`: the tail starts strlen(%s) bytes behind the match, the text replaced is `%s` - for an escape like \\t (2 bytes, replaced by 1) "
                                 "the letter of the escape stays in the delimiter set" % (render(x), got, needle), key="replace-tail")
        if not done:
            ctx.inconclusive("U14", "replace_str keeps the text behind the original", f.where, "form of the replacement not understood")
    m = prog.fn("main", util=True)
    dots = [c for c in m.calls(("strchr", "strrchr", "index", "rindex")) if len(c.call_args()) == 2 and c.call_args()[1].const_value() == ord(".")]
    if not dots:
        ctx.inconclusive("U15", "the suffix starts at the last dot of the name", m.where, "no search for '.' in main()")
    for c in dots:
        if c.j["callee"] in ("strrchr", "rindex"):
            ctx.ok("U15", "the suffix starts at the last dot of the name", c.where, render(c)[:60])
        else:
            ctx.fail("U15", "the suffix starts at the last dot of the name", c.where,
                     "`%s` finds the FIRST dot: for `org.example.conf` the suffix becomes `.example.conf`, no drop-in `*.conf` is selected and the tool shows, "
                     "checks and lists less than an application reading that name gets" % render(c)[:60], key="suffix-first-dot")
    from rules import common as _common
    from rules import C12 as _C12
    _common.import_obligations(ctx, prog, [_C12.f1_f3_f5], "U16", "cat reads as show does: ", keep=lambda ob: ob.rule == "F5", what="flags of the history variants")


def u17_dispatch(prog, ctx):
    """U17: the sub-command is chosen by comparing the whole word: `strcmp(argv[..], "show") == 0` - not a prefix (`s...` would run
    `show` for `syntax`), not `== 1`."""
    m = prog.fn("main", util=True)
    words = ("show", "cat", "syntax", "edit", "revert")
    n = 0
    for c in m.calls(("strcmp", "strncmp", "strcasecmp", "strncasecmp", "memcmp")):
        lits = [a.string_value() for a in c.call_args() if a.string_value() in words]
        if not lits:
            continue
        n += 1
        up = c.up()
        while up is not None and up.k in ("ParenExpr", "ImplicitCastExpr"):
            up = up.up()
        eq0 = up is not None and ((up.k == "BinaryOperator" and up.j.get("op") == "==" and 0 in (up.children[0].const_value(), up.children[1].const_value())) or (
            up.k == "UnaryOperator" and up.j.get("op") == "!"))
        if c.j["callee"] == "strcmp" and eq0:
            ctx.ok("U17", "sub-command `%s` is chosen by the whole word" % lits[0], c.where, render(up)[:60])
        else:
            ctx.fail("U17", "sub-command `%s` is chosen by the whole word" % lits[0], c.where,
                     "`%s`: %s - another sub-command (or none) runs for the word the user gave" % (render(up if up is not None else c)[:60],
                                                                                                   "a prefix comparison" if c.j["callee"] != "strcmp" else "not a test for equality"),
                     key="dispatch:%s" % lits[0])
    ctx.floor("C19 sub-command comparisons", n, 4)


def run(prog, ctx):
    u11_u12_imports(prog, ctx)
    u17_dispatch(prog, ctx)
    u13_option_table(prog, ctx)
    u14_u16(prog, ctx)
    u1(prog, ctx)
    u2(prog, ctx)
    u3_u4(prog, ctx)
    u4b_every_read_with_the_options(prog, ctx)
    u10_ext_lookup_is_literal(prog, ctx)
    u6_u8(prog, ctx)
    from rules import C14
    from sa.report import Ctx
    # U9: what the tool prints is what the listings of the library return: every section and every key of a section, in order (= C11.A7)
    from rules import C11 as _C11
    sub9 = Ctx(ctx.prop, ctx.tier, prog)
    try:
        _C11.a7(prog, sub9)
        for ob in sub9.obs:
            ob.rule = "U9"
            ctx.obs.append(ob)
    except Inconclusive as e:
        ctx.inconclusive("U9", "the listings the tool prints from are complete", "", str(e))
    sub = Ctx(ctx.prop, ctx.tier, prog)
    C14.judge(prog, sub, True)
    for ob in sub.obs:
        ob.rule = "U5"
        ctx.obs.append(ob)
    for fn in sub.analysed_functions:
        ctx.analysed_functions.add(fn)
