"""C19 - econftool shows what an application would get (structural obligations).

U1 group-less keys are listed whether or not the file has sections      U2 exit status non-zero exactly when the library read failed; error location printed
U3 cat walks the whole history in order                                   U4 show / syntax / cat read with the same six arguments
U5 no argv data overruns or is cut in a fixed buffer (= C14 on util/)"""
from sa.ast import render
from sa.facts import Inconclusive
from sa import query, loops
from sa.dataflow import ReachingDefs
from sa.buf import _redefined_between

META = {
    "level": "other",
    "technique": "static analysis: path conditions of the group-less listing, propagation of the library's return code to the exit status, "
                 "loop shape of the history walk, argument agreement of the three sub-commands, fixed-buffer flow rule on util/",
    "level_text": "Decides the structural obligations without which the tool's output cannot be complete or its exit status right, for every "
                  "tree: the group-less pass is not conditional on 'no sections', a failed read always ends in a non-zero status after printing "
                  "the error location, cat visits every consulted file in order, and all sub-commands read with the same arguments. Not decided: "
                  "the printed text itself.",
    "level_note": "Partial. Trusted: clang front end/CFG, sa/buf.py.",
    "explanation": "completeness and exit-status obligations of econftool",
    "trusted_base": ["clang-14 front end and CFG", "sa/cfg.py", "sa/buf.py"],
    "assumptions": [],
}


def _null_sources(f, arg, rd, at):
    """statements that can make the group argument NULL/empty: [(node, description)]"""
    out = []
    a = arg.strip()
    if arg.is_null_const() or a.string_value() == "":
        return [(at, "constant NULL argument")]
    if a.k == "DeclRefExpr" and a.j.get("dk") == "local":
        for d in rd.reaching(a.j["name"], at):
            if d.rhs is None:
                continue
            r = d.rhs.strip()
            if d.rhs.is_null_const() or r.string_value() == "":
                out.append((d.node, "%s = NULL" % a.j["name"]))
            elif r.k == "ConditionalOperator" and (r.child("then").is_null_const() or r.child("else").is_null_const()):
                out.append((d.node, "%s = %s" % (a.j["name"], render(r))))
    if a.k == "ArraySubscriptExpr":
        base = render(a.children[0])
        for lhs, rhs, st, kind in query.stores(f):
            l = lhs.strip()
            if l.k == "ArraySubscriptExpr" and render(l.children[0]) == base and rhs is not None and rhs.is_null_const():
                out.append((st, "%s = NULL" % render(l)))
    return out


def u1(prog, ctx):
    f = prog.fn("pr_key_file", util=True)
    ctx.touch(f)
    cfg = f.cfg
    rd = ReachingDefs(f)
    gg = f.calls("econf_getGroups")
    gk = f.calls("econf_getKeys")
    if len(gg) != 1 or not gk:
        raise Inconclusive("pr_key_file: listing calls not found")
    ev = None
    up = gg[0].up()
    if up is not None and up.k == "BinaryOperator" and up.j.get("op") == "=":
        ev = render(up.children[0])
    sources = []
    for c in gk:
        sources += _null_sources(f, c.call_args()[1], rd, c)
    if not sources:
        ctx.fail("U1", "keys outside any section are listed", gk[0].where,
                 "no econf_getKeys() call ever receives a NULL/empty section: group-less keys are never shown", key="groupless-never")
        return

    def nogroup(lit, b, i):
        return lit is not None and lit.kind == "eq" and "ECONF_NOGROUP" in lit.atom and lit.pol
    unconditional = []
    for node, what in sources:
        ok, cut = cfg.all_paths_cut(cfg.block_of(node), nogroup)
        if not (ok and cut):
            unconditional.append((node, what))
    # when the NULL section hangs on `V == K` of a counting loop, that loop must really start at K
    starts_ok = True
    why_start = ""
    for node, what in unconditional:
        mcond = None
        for x in node.walk():
            if x.k == "ConditionalOperator" and (x.child("then").is_null_const() or x.child("else").is_null_const()):
                mcond = x.child("cond").strip()
        if mcond is not None and mcond.k == "BinaryOperator" and mcond.j.get("op") == "==":
            v, kc = render(mcond.children[0]), mcond.children[1].const_value()
            for a in node.ancestors():
                if a.k == "ForStmt":
                    sh = loops.for_shape(a)
                    if sh.var == v and (sh.start_node is None or sh.start_node.const_value() != kc):
                        starts_ok = False
                        why_start = "the pass for `%s == %s` exists, but the loop starts at `%s`: when that is not %s the group-less pass is skipped" % (v, kc, sh.start, kc)
    if unconditional and not starts_ok:
        ctx.fail("U1", "keys outside any section are listed", unconditional[0][0].where, why_start, key="groupless-pass-skipped")
    elif unconditional:
        ctx.ok("U1", "keys outside any section are listed", unconditional[0][0].where,
               "`%s` is reached whether or not the file has sections" % unconditional[0][1])
    else:
        ctx.fail("U1", "keys outside any section are listed", sources[0][0].where,
                 "the only group-less pass (`%s`) is made when econf_getGroups() reports ECONF_NOGROUP: for a file that has sections AND "
                 "group-less keys - or, since sections are listed first, any file whose listing succeeds - the keys before the first header "
                 "are not shown" % sources[0][1], key="groupless-only-without-sections")
    # a failing listing of one section must not be reported as success
    for c in gk:
        upc = c.up()
        v = render(upc.children[0]) if upc is not None and upc.k == "BinaryOperator" else None
        if v:
            rets = [r for r in f.returns() if r.children and render(r.children[0]) == v]
            if rets:
                ctx.ok("U1", "a failing key listing is reported", rets[0].where, "return %s" % v)


def u2(prog, ctx):
    f = prog.fn("econf_read", util=True)
    ctx.touch(f)
    cfg = f.cfg
    reads = f.calls(("econf_readFile", "econf_readDirs", "econf_readConfig", "econf_readFileWithCallback", "econf_readDirsWithCallback"))
    if not reads:
        raise Inconclusive("econf_read: no library read found")
    vars_ = set()
    for c in reads:
        up = c.up()
        if up is not None and up.k == "BinaryOperator" and up.j.get("op") == "=":
            vars_.add(render(up.children[0]))
    if len(vars_) != 1:
        ctx.inconclusive("U2", "library result is kept", f.where, "results stored in %s" % sorted(vars_))
        return
    ev = list(vars_)[0]
    bad = []
    for r in f.returns():
        rb = cfg.block_of(r)
        val = r.children[0].const_value() if r.children else None
        fail_only, _ = cfg.all_paths_cut(rb, lambda lit, b, i: lit is not None and lit.kind == "truth" and lit.atom == ev and lit.pol)
        ok_only, _ = cfg.all_paths_cut(rb, lambda lit, b, i: lit is not None and lit.kind == "truth" and lit.atom == ev and not lit.pol)
        if val == 0 and not ok_only:
            bad.append((r, "returns 0 on a path where the library read failed"))
        elif val not in (0, None) and not fail_only:
            bad.append((r, "returns %s although the read succeeded" % val))
        elif val is None:
            bad.append((r, "returns %s" % render(r)))
    if bad:
        ctx.fail("U2", "status reflects the library's verdict", bad[0][0].where, bad[0][1], key="status")
    else:
        ctx.ok("U2", "status reflects the library's verdict", f.where, "non-zero return exactly behind `%s != 0`" % ev)
    pe = f.calls("print_error")
    failing = [r for r in f.returns() if r.children and r.children[0].const_value() not in (0, None)]
    silent = [r for r in failing if not any(cfg.node_dominates(c, r) for c in pe)]
    if failing and not silent:
        ctx.ok("U2", "the error location is printed on failure", pe[0].where, "print_error() dominates all %d failing returns" % len(failing))
    else:
        ctx.fail("U2", "the error location is printed on failure", (silent[0] if silent else f).where,
                 "a failing return is not preceded by print_error(): for that kind of read (e.g. a single absolute file) the error is reported without file and line",
                 key="no-location")
    p = prog.fn("print_error", util=True)
    if p.calls("econf_errLocation") and p.calls("econf_errString"):
        ctx.ok("U2", "print_error names file, line and message", p.where, "econf_errLocation + econf_errString")
    else:
        ctx.fail("U2", "print_error names file, line and message", p.where, "missing econf_errLocation/econf_errString", key="print-error")
    # main: the status of show / syntax / cat is what the process returns
    m = prog.fn("main", util=True)
    ctx.touch(m)
    mcfg = m.cfg
    for callee in ("econf_read", "econf_cat"):
        for c in m.calls(callee):
            up = c.up()
            v = render(up.children[0]) if up is not None and up.k == "BinaryOperator" and up.j.get("op") == "=" else None
            if v is None:
                ctx.fail("U2", "main keeps the status of %s" % callee, c.where, "result discarded: the process exits 0 after a failed read", key="main-status:%s" % callee)
                continue
            rets = [r for r in m.returns() if mcfg.block_of(r) in mcfg.reachable(mcfg.block_of(c))]
            wrong = [r for r in rets if not r.children or render(r.children[0]) != v or _redefined_between(m, {v}, up, r)]
            if wrong:
                ctx.fail("U2", "main keeps the status of %s" % callee, wrong[0].where, "after %s() main returns %s" % (callee, render(wrong[0])), key="main-status:%s" % callee)
            else:
                ctx.ok("U2", "main keeps the status of %s" % callee, c.where, "`return %s` unchanged" % v)


def u3_u4(prog, ctx):
    cat = prog.fn("econf_cat", util=True)
    rd_ = prog.fn("econf_read", util=True)
    ctx.touch(cat)
    h = cat.calls(("econf_readDirsHistory", "econf_readDirsHistoryWithCallback"))
    if len(h) != 1:
        ctx.fail("U3", "cat uses the history API", cat.where, "%d history calls" % len(h), key="cat-api")
        return
    ctx.ok("U3", "cat uses the history API", h[0].where, h[0].j["callee"])
    a = h[0].call_args()
    arr, size = render(a[0]).lstrip("&"), render(a[1]).lstrip("&")
    lp = [x for x in cat.walk() if x.k == "ForStmt"]
    prc = cat.calls("pr_key_file")
    if len(lp) == 1 and prc and prc[0].within(lp[0]):
        sh = loops.for_shape(lp[0])
        ccfg = cat.cfg
        hb = ccfg.loop_header(lp[0])
        pb = ccfg.block_of(prc[0])
        skip = ccfg.reachable(ccfg.loop_body_entry(lp[0]), avoid_blocks=[pb, hb])
        skipped = any(s2 == hb and b in skip for (b, i, s2) in ccfg.edges()) or any(
            ccfg.block_of(x) in skip for x in (lp[0].child("inc").walk() if lp[0].child("inc") is not None else []))
        if skipped:
            ctx.fail("U3", "cat prints every consulted file in processing order", prc[0].where,
                     "an iteration can go round without calling pr_key_file(): after some condition (e.g. an earlier file that could not be printed) the "
                     "remaining consulted files are not listed", key="cat-skip")
        elif loops.covers_range(sh, 0, size) and render(prc[0].call_args()[0]) == "%s[%s]" % (arr, sh.var):
            ctx.ok("U3", "cat prints every consulted file in processing order", lp[0].where, sh.describe() + "; pr_key_file() on every way round")
        else:
            ctx.fail("U3", "cat prints every consulted file in processing order", lp[0].where, "loop %s printing %s" % (sh.describe(), render(prc[0].call_args()[0])),
                     key="cat-loop")
    else:
        ctx.fail("U3", "cat prints every consulted file in processing order", cat.where, "loop over the history not found", key="cat-loop")
    dirs = rd_.calls(("econf_readDirs", "econf_readDirsWithCallback"))
    if len(dirs) == 1:
        six_show = [render(x) for x in dirs[0].call_args()[1:7]]
        six_cat = [render(x) for x in a[2:8]]
        if six_show == six_cat:
            ctx.ok("U4", "show/syntax and cat read with the same arguments", h[0].where, ", ".join(six_cat))
        else:
            ctx.fail("U4", "show/syntax and cat read with the same arguments", h[0].where, "show: %s; cat: %s" % (six_show, six_cat), key="six-args")
    m = prog.fn("main", util=True)
    pairs = set()
    for c in m.calls(("econf_read", "econf_cat")):
        args = [render(x) for x in c.call_args()]
        pairs.add((args[-3], args[-2]) if c.j["callee"] == "econf_read" else (args[0], args[1]))
    rdm = ReachingDefs(m)
    defsets = {}
    for c in m.calls(("econf_read", "econf_cat", "econf_edit")):
        for a in c.call_args():
            a2 = a.strip()
            if a2.k == "DeclRefExpr" and a2.j.get("dk") == "local" and a2.j["name"] in ("delimiters", "comment"):
                ds = frozenset(d.idx for d in rdm.reaching(a2.j["name"], c))
                defsets.setdefault(a2.j["name"], {})[("%s@%d" % (c.j["callee"], c.line))] = ds
    differing = [(v, sites) for v, sites in defsets.items() if len(set(sites.values())) > 1]
    if differing:
        v, sites = differing[0]
        ctx.fail("U4", "all sub-commands get the same delimiter/comment options", m.where,
                 "`%s` reaches the sub-commands with different definitions (%s): e.g. the escape translation of --delimiters is applied for some "
                 "sub-commands only" % (v, ", ".join(sorted(sites))), key="subcmd-defs:%s" % v)
    elif len(pairs) == 1:
        ctx.ok("U4", "all sub-commands get the same delimiter/comment options", m.where, str(list(pairs)[0]))
    else:
        ctx.fail("U4", "all sub-commands get the same delimiter/comment options", m.where, "differing actuals %s" % sorted(pairs), key="subcmd-args")


def run(prog, ctx):
    u1(prog, ctx)
    u2(prog, ctx)
    u3_u4(prog, ctx)
    from rules import C14
    from sa.report import Ctx
    sub = Ctx(ctx.prop, ctx.tier, prog)
    C14.judge(prog, sub, True)
    for ob in sub.obs:
        ob.rule = "U5"
        ctx.obs.append(ob)
    for fn in sub.analysed_functions:
        ctx.analysed_functions.add(fn)
