"""C09 - typed getters interpret stored text faithfully or refuse - never a wrong value.

R1 no silent narrowing of the strto* result      R2 a key without value is refused, not dereferenced
R3 unsigned getters refuse a minus sign          R4 base 0, end-pointer and ERANGE tested (integer getters)
R5 booleans are recognised by string equality with exactly 1/0 yes/no true/false (+ empty = false)
R6 float uses strtof, double strtod"""
import re
from sa.ast import render
from sa.facts import Inconclusive
from sa import query
from sa.dataflow import ReachingDefs, origins
from rules import conv

META = {
    "level": "other",
    "technique": "static analysis: conversion-table extraction (parsing routine, result type, implicit/explicit casts), "
                 "must-pass-through of range/sign/NULL/ERANGE tests on the CFG paths to the success return",
    "level_text": "Decides the refusal and representation clauses visible in the conversion code, for every stored text: a value that "
                  "reaches *result through a narrowing conversion needs a range test of the wide value on every path to success; "
                  "the bare-key, sign, base, end-pointer and ERANGE tests are path conditions; boolean recognition must be string "
                  "equality against exactly the six words. Not decided: correct rounding inside glibc's strto* (trusted).",
    "level_note": "Partial: structural necessary conditions only. Trusted: clang front end/CFG, glibc strto* semantics (base 0, "
                  "ERANGE, silent negation in strtoul). LP64.",
    "explanation": "per typed getter: narrowing, NULL value, sign, base/endptr/ERANGE, boolean word set, parsing routine",
    "trusted_base": ["clang-14 front end and CFG", "glibc strto* semantics"],
    "assumptions": ["LP64 Linux"],
}

TRUE_SET, FALSE_SET = {"1", "yes", "true"}, {"0", "no", "false"}


def r2_null_value(prog, ctx, g, f):
    """every use of .value as argument of a dereferencing routine is behind a non-NULL test"""
    cfg = f.cfg
    uses = conv.value_field_uses(f)
    if not uses:
        ctx.inconclusive("R2", "%s reads .value" % g, f.where, "no access to the value field found")
        return
    vtxt = render(uses[0])
    n_sink = 0
    bad = None
    for u in uses:
        up = u.up()
        # sinks: argument of a call (other than free), or dereference
        if up is None:
            continue
        if up.k == "CallExpr" and up.j.get("callee") not in ("free",):
            sink = up
        elif up.k in ("UnaryOperator",) and up.j.get("op") == "*":
            sink = up
        elif up.k == "ArraySubscriptExpr":
            sink = up
        else:
            continue
        n_sink += 1
        tb = cfg.block_of(sink)

        def nonnull(lit, b, i):
            return lit is not None and lit.kind == "truth" and lit.atom == render(u) and lit.pol
        ok, cut = cfg.all_paths_cut(tb, nonnull)
        if not ok and bad is None:
            bad = (sink, cfg.describe_path(cfg.witness_path(tb, avoid_edges=cut)))
    if bad:
        ctx.fail("R2", "%s: value of a bare key" % g, bad[0].where,
                 "%s passes `%s` to %s without a NULL test: a key without delimiter has value NULL (strto*/strdup(NULL) crashes)" % (
                     g, vtxt, bad[0].j.get("callee") or "a dereference"), key="null-value:%s" % g, path=bad[1])
    elif n_sink:
        ctx.ok("R2", "%s: value of a bare key" % g, uses[0].where, "all %d dereferencing uses are behind a non-NULL test" % n_sink)
    else:
        ctx.ok("R2", "%s: value of a bare key" % g, uses[0].where, "value only tested / copied null-tolerantly")


def integer_getter(prog, ctx, g, f, width, signed):
    cfg = f.cfg
    rd = ReachingDefs(f)
    call = conv.strto_call(f)
    cname = call.j["callee"]
    cw, cs = conv.STRTO[cname]
    succ = conv.success_returns(f)
    if cfg.success_path_avoiding(lambda lit, b, i: False) is None:
        raise Inconclusive("%s: no success return" % g)
    anchor = succ[0] if succ else f
    # ---- R4 base / endptr / ERANGE ----------------------------------------------------------
    args = call.call_args()
    if cname.startswith("ato"):
        ctx.fail("R4", "%s parses with a checked routine" % g, call.where, "%s cannot report errors" % cname, key="ato:%s" % g)
        return
    base = args[2].const_value() if len(args) > 2 else None
    if base == 0:
        ctx.ok("R4", "%s: base argument" % g, call.where, "constant 0: decimal, octal (0) and hexadecimal (0x) accepted")
    else:
        ctx.fail("R4", "%s: base argument" % g, call.where,
                 "base is %s, not 0: octal/hexadecimal literals are misread or refused" % (base if base is not None else render(args[2])),
                 key="base:%s" % g)
    ok_e, why_e = conv.errno_reset_before(f, call)
    if ok_e:
        ctx.ok("R4", "%s: errno cleared before the conversion" % g, call.where, why_e)
    else:
        ctx.fail("R4", "%s: errno cleared before the conversion" % g, call.where, why_e + ": valid text is refused (or invalid accepted) depending on earlier calls",
                 key="errno-reset:%s" % g)
    endp = None
    a1 = args[1].strip()
    if a1.k == "UnaryOperator" and a1.j.get("op") == "&":
        endp = render(a1.children[0])
    if endp:
        ok = cfg.success_cut(lambda lit, b, i: lit is not None and lit.kind == "eq" and not lit.pol and endp in (render(lit.lhs), render(lit.rhs)))
    else:
        ok = False
    if ok:
        ctx.ok("R4", "%s: no-digits test" % g, anchor.where, "every path to success carries %s != start of text" % endp)
    else:
        ctx.fail("R4", "%s: no-digits test" % g, anchor.where,
                 "success is reachable without the end-pointer having moved: text without digits yields 0", key="endptr:%s" % g)
    ok = cfg.success_cut(lambda lit, b, i: lit is not None and lit.kind == "eq" and not lit.pol
                         and "__errno_location" in lit.atom and conv.ERANGE in (lit.lhs.const_value(), lit.rhs.const_value()))
    if ok:
        ctx.ok("R4", "%s: ERANGE test" % g, anchor.where, "every path to success carries errno != ERANGE")
    else:
        ctx.fail("R4", "%s: ERANGE test" % g, anchor.where,
                 "success is reachable although %s reported ERANGE: out-of-range literals are clamped to the limit" % cname,
                 key="erange:%s" % g)
    # ---- R1 narrowing -------------------------------------------------------------------------
    stores = conv.result_stores(f)
    if not stores:
        raise Inconclusive("%s: no store to *result" % g)
    narrowing = (cw != width) or (cs != signed)
    if (cw < width):
        ctx.fail("R1", "%s: parsing routine wide enough" % g, call.where, "%s returns %d bits for a %d-bit result" % (cname, cw, width),
                 key="routine-narrow:%s" % g)
    lo, hi = conv.LIMITS[(width, signed)]
    for l, rhs, st in stores:
        o = origins(rd, rhs, st)
        if call not in o:
            # the stored value does not come from the conversion (e.g. a constant on an error path)
            continue
        if not narrowing or (cw == width and cs == signed):
            ctx.ok("R1", "%s: *result = %s" % (g, render(rhs)[:40]), st.where, "%s result has the result type's width and signedness" % cname)
            continue
        # which local holds the wide value?
        wide = None
        r = rhs.strip()
        if r.k == "DeclRefExpr" and r.j.get("dk") == "local":
            wide = r.j["name"]
        if wide is None:
            ctx.fail("R1", "%s: narrowing store" % g, st.where,
                     "the %d-bit %s result of %s is converted to %d-bit %s at the store itself: no range test of the wide value is "
                     "possible, '4294967296' becomes 0 with success" % (cw, "signed" if cs else "unsigned", cname, width,
                                                                        "signed" if signed else "unsigned"),
                     key="narrow:%s" % g)
            continue
        need_hi = cfg.success_cut(lambda lit, b, i: lit is not None and lit.kind == "lt" and
                                  ((render(lit.rhs) == wide and conv.const_of(lit.lhs) == hi and not lit.pol) or
                                   (render(lit.lhs) == wide and conv.const_of(lit.rhs) == hi + 1 and lit.pol)))
        if signed:
            need_lo = cfg.success_cut(lambda lit, b, i: lit is not None and lit.kind == "lt" and
                                      ((render(lit.lhs) == wide and conv.const_of(lit.rhs) == lo and not lit.pol) or
                                       (render(lit.rhs) == wide and conv.const_of(lit.lhs) == lo - 1 and lit.pol)))
        else:
            need_lo = True
        if need_hi and need_lo:
            ctx.ok("R1", "%s: narrowing store" % g, st.where, "every path to success carries %d <= %s <= %d" % (lo, wide, hi))
        else:
            ctx.fail("R1", "%s: narrowing store" % g, st.where,
                     "the wide value `%s` is stored into a %d-bit result without a %s range test on the path to success" % (
                         wide, width, "upper" if not need_hi else "lower"), key="narrow:%s" % g)
    # ---- R3 sign ---------------------------------------------------------------------------------
    if not signed:
        vuses = conv.value_field_uses(f)
        def no_minus(lit, b, i):
            if lit is None:
                return False
            if lit.kind == "eq" and not lit.pol and 45 in (lit.lhs.const_value(), lit.rhs.const_value()):
                return True
            if lit.kind == "truth" and not lit.pol and lit.node.k == "CallExpr" and lit.node.j.get("callee") in ("strchr", "memchr") \
                    and len(lit.node.call_args()) > 1 and lit.node.call_args()[1].const_value() == 45:
                return True
            return False
        if cfg.success_cut(no_minus):
            ctx.ok("R3", "%s refuses a minus sign" % g, anchor.where, "every path to success carries a `no '-'` test of the text")
        else:
            ctx.fail("R3", "%s refuses a minus sign" % g, call.where,
                     "%s silently negates: '-1' is returned as %d with success; no test for '-' on the path to success" % (cname, hi),
                     key="sign:%s" % g)


def r10_refusal_reasons(prog, ctx, g, f, width, signed):
    """R10: "returns the literal's value when the type can represent it": the conversion error is returned ONLY for the documented
    reasons - no digits (`endptr == <the text converted>`), ERANGE, `errno != 0 && value == 0`, a value outside the limits of the
    result type, a minus sign for the unsigned types.  Every test that sends the getter to ECONF_VALUE_CONVERSION_ERROR is one of them."""
    cfg = f.cfg
    call = conv.strto_call(f)
    text = render(call.call_args()[0])
    endp = None
    a1 = call.call_args()[1].strip()
    if a1.k == "UnaryOperator" and a1.j.get("op") == "&":
        endp = render(a1.children[0])
    up = call.up()
    val = up.j["decls"][0]["name"] if up is not None and up.k == "DeclStmt" else (render(up.children[0]) if up is not None and up.k == "BinaryOperator" and up.j.get("op") == "=" else None)
    lo, hi = conv.LIMITS[(width, signed)]
    errs = [r for r in f.returns() if query.returned_constant(r) == "ECONF_VALUE_CONVERSION_ERROR"]
    if not errs or val is None:
        ctx.inconclusive("R10", "%s refuses only for the documented reasons" % g, f.where, "conversion-error return / converted value not found")
        return
    eb = set(cfg.block_of(r) for r in errs)
    bad, seen = None, 0
    unknown9 = False
    cb = cfg.block_of(call)
    for (b, i, s2) in cfg.edges():
        if s2 not in eb or b in eb or cb not in cfg.reachable(b, forward=False):
            continue
        lit = cfg.edge_lit(b, i)
        if lit is None:
            continue
        seen += 1
        l_t, r_t = (render(lit.lhs), render(lit.rhs)) if lit.kind in ("eq", "lt") else (None, None)
        l_v, r_v = (conv.const_of(lit.lhs), conv.const_of(lit.rhs)) if lit.kind in ("eq", "lt") else (None, None)
        ok = False
        why = None
        req0 = cfg.required_literals(b)
        under_errno = any(q is not None and q.kind == "eq" and not q.pol and "__errno_location" in q.atom and 0 in (conv.const_of(q.lhs), conv.const_of(q.rhs)) for q in req0) or \
            any(q is not None and q.kind == "truth" and q.pol and "__errno_location" in q.atom for q in req0)
        if lit.kind == "eq" and lit.pol and endp in (l_t, r_t):
            other = r_t if l_t == endp else l_t
            ok = other == text
            why = None if ok else "the end pointer is compared with `%s`, the text converted is `%s`" % (other, text)
        elif under_errno and (val in (l_t, r_t) or (lit.kind == "truth" and lit.atom == val)):
            # any test of the result behind `errno != 0`: strtol()/strtoul() report an error only for ERANGE and for "no conversion", both
            # documented reasons - whatever the result then is, the refusal concerns no literal the type can hold
            ok = True
        elif lit.kind == "eq" and lit.pol and "__errno_location" in lit.atom:
            ok = conv.ERANGE in (l_v, r_v)
            why = None if ok else "errno is compared with %s" % (l_v if l_v is not None else r_v)
        elif (lit.kind == "eq" and lit.pol and val in (l_t, r_t) and 0 in (l_v, r_v)) or (lit.kind == "truth" and not lit.pol and lit.atom == val):
            # value == 0 counts only together with errno != 0
            req = cfg.required_literals(b)
            ok = any(q is not None and q.kind == "eq" and not q.pol and "__errno_location" in q.atom and 0 in (conv.const_of(q.lhs), conv.const_of(q.rhs)) for q in req) or \
                any(q is not None and q.kind == "truth" and q.pol and "__errno_location" in q.atom for q in req)
            why = None if ok else "`%s == 0` refuses without `errno != 0`: the literal 0 itself is a conversion error" % val
        elif lit.kind == "lt" and val in (l_t, r_t):
            # value < lo  or  hi < value
            if l_t == val and lit.pol:
                ok = r_v == lo
                why = None if ok else "`%s < %s`: the lower limit of the type is %s" % (val, r_v if r_v is not None else r_t, lo)
            elif r_t == val and lit.pol:
                ok = l_v == hi
                why = None if ok else "`%s > %s`: the upper limit of the type is %s" % (val, l_v if l_v is not None else l_t, hi)
            elif l_t == val and not lit.pol:            # !(value < c)  =  value >= c
                ok = r_v == hi + 1
                why = None if ok else "`%s >= %s`: the upper limit of the type is %s" % (val, r_v, hi)
            elif r_t == val and not lit.pol:            # !(c < value)  =  value <= c
                ok = l_v == lo - 1
                why = None if ok else "`%s <= %s`: the lower limit of the type is %s" % (val, l_v, lo)
        elif (lit.kind == "eq" and lit.pol and 45 in (l_v, r_v)) or (lit.kind == "truth" and lit.pol and lit.node.k == "CallExpr" and lit.node.j.get("callee") in ("strchr", "memchr")
                                                                     and len(lit.node.call_args()) > 1 and lit.node.call_args()[1].const_value() == 45):
            ok = not signed
            why = None if ok else "a minus sign is refused for a signed type"
        elif lit.kind == "truth" and lit.pol and "__errno_location" in lit.atom:
            ok = False
            why = "any errno left behind refuses"
        else:
            why = "`%s` is not one of the documented reasons" % lit
            if not any(t9 and t9 in lit.atom for t9 in (val, endp, "__errno_location")):
                unknown9 = True               # a test on something the rule does not follow (a helper's verdict ...)
                ok = True
        if not ok and bad is None:
            bad = (cfg.blocks[b].cond, why)
    if bad:
        ctx.fail("R10", "%s refuses only for the documented reasons" % g, bad[0].where,
                 "%s: a literal the type can represent is answered with ECONF_VALUE_CONVERSION_ERROR" % bad[1], key="over-refusal:%s" % g)
    elif unknown9:
        ctx.inconclusive("R10", "%s refuses only for the documented reasons" % g, errs[0].where, "a test that leads to the conversion error is not about the converted value, the end pointer or errno")
    elif seen:
        ctx.ok("R10", "%s refuses only for the documented reasons" % g, errs[0].where, "%d tests lead to the conversion error, each a documented one" % seen)
    else:
        ctx.inconclusive("R10", "%s refuses only for the documented reasons" % g, errs[0].where, "no test leading to the conversion error found")


def r10_float_refusals(prog, ctx, g, f):
    """R10 for the floating getters: refused are text without a number (`endptr == <the text>`), an overflow (`errno == ERANGE` together
    with a result of +-HUGE_VAL) and `errno != 0 && result == 0` - nothing else (a subnormal or an infinity written by the setter reads back)."""
    cfg = f.cfg
    call = conv.strto_call(f)
    text = render(call.call_args()[0])
    a1 = call.call_args()[1].strip()
    endp = render(a1.children[0]) if a1.k == "UnaryOperator" and a1.j.get("op") == "&" else None
    up = call.up()
    val = up.j["decls"][0]["name"] if up is not None and up.k == "DeclStmt" else (render(up.children[0]) if up is not None and up.k == "BinaryOperator" and up.j.get("op") == "=" else None)
    errs = [r for r in f.returns() if query.returned_constant(r) == "ECONF_VALUE_CONVERSION_ERROR"]
    if not errs or val is None:
        ctx.inconclusive("R10", "%s refuses only for the documented reasons" % g, f.where, "conversion-error return / converted value not found")
        return
    eb = set(cfg.block_of(r) for r in errs)
    cb = cfg.block_of(call)
    bad, seen = None, 0
    huge = []

    def errno_req(b, want_erange):
        for q in cfg.required_literals(b):
            if q is None or "__errno_location" not in q.atom:
                continue
            if want_erange and q.kind == "eq" and q.pol and conv.ERANGE in (conv.const_of(q.lhs), conv.const_of(q.rhs)):
                return True
            if not want_erange and ((q.kind == "eq" and not q.pol and 0 in (conv.const_of(q.lhs), conv.const_of(q.rhs))) or (q.kind == "truth" and q.pol)):
                return True
        return False
    for (b, i, s2) in cfg.edges():
        if s2 not in eb or b in eb or cb not in cfg.reachable(b, forward=False):
            continue
        lit = cfg.edge_lit(b, i)
        if lit is None:
            continue
        seen += 1
        t = str(lit)
        ok, why = False, "`%s` is not one of the documented reasons" % t
        if lit.kind == "eq" and lit.pol and endp in (render(lit.lhs), render(lit.rhs)):
            other = render(lit.rhs) if render(lit.lhs) == endp else render(lit.lhs)
            ok = other == text
            why = "the end pointer is compared with `%s`, the text converted is `%s`" % (other, text)
        elif lit.kind == "eq" and lit.pol and val in (render(lit.lhs), render(lit.rhs)) and ("HUGE_VAL" in t or "inf" in t.lower() or "__builtin_huge_val" in t):
            huge.append(t)
            ok = errno_req(b, True)
            why = "a result of HUGE_VAL refuses without `errno == ERANGE`: the infinity the setter wrote does not read back"
        elif (lit.kind == "eq" and lit.pol and val in (render(lit.lhs), render(lit.rhs)) and 0 in (conv.const_of(lit.lhs), conv.const_of(lit.rhs))) or (
                lit.kind == "truth" and not lit.pol and lit.atom == val):
            ok = errno_req(b, False)
            why = "`%s == 0` refuses without `errno != 0`: the literal 0 is a conversion error" % val
        elif "__errno_location" in lit.atom:
            ok = False
            why = "`%s` alone refuses: strtod() also raises ERANGE for subnormal results, which are valid values" % t
        if not ok and bad is None:
            bad = (cfg.blocks[b].cond, why)
    if huge and len(set(huge)) < 2:
        ctx.fail("R10", "%s refuses an overflow in either direction" % g, errs[0].where,
                 "only `%s` leads to the conversion error: the other infinity (or none, if the two tests are joined by &&) is handed out as a value for a literal "
                 "beyond the range of the type" % huge[0], key="overflow-one-sided:%s" % g)
    if bad:
        ctx.fail("R10", "%s refuses only for the documented reasons" % g, bad[0].where,
                 "%s: a literal the type can represent is answered with ECONF_VALUE_CONVERSION_ERROR" % bad[1], key="over-refusal:%s" % g)
    elif seen:
        ctx.ok("R10", "%s refuses only for the documented reasons" % g, errs[0].where, "%d tests lead to the conversion error, each a documented one" % seen)
    else:
        ctx.inconclusive("R10", "%s refuses only for the documented reasons" % g, errs[0].where, "no test leading to the conversion error found")


def r5_bool(prog, ctx):
    for fname, labeller, what, consumer in (("getBoolValueNum", _get_label, "getter", _get_consumer), ("setBoolValueNum", _set_label, "setter", _set_consumer)):
        f = prog.fn(fname)
        ctx.touch(f)
        rec, unknown = conv.bool_recognition(f, labeller, consumer)
        hashed = [(L, how, x) for s in rec.values() for (L, how, x) in s if how == "hash"] + [u for u in unknown if u[1] == "hash"]
        if hashed:
            ctx.fail("R5", "%s recognises words by string equality" % fname, f.where,
                     "%s compares a djb2 hash of the text with the hash of %s: any colliding text ('p-' for 'no', 'g@lse' for 'false') "
                     "is accepted as that word" % (fname, sorted(set(h[0] for h in hashed))), key="bool-hash:%s" % fname)
        t = set(L for (L, how, x) in rec.get(True, set()))
        fl = set(L for (L, how, x) in rec.get(False, set()))
        # today's spelling of "1"/"0": *v == 'c' && strlen(x) == 1
        singles = set(c for c, e in conv.single_char_tests(f))
        t_full = t | (singles & {"1"})
        fl_full = fl | (singles & {"0"})
        exp_f = FALSE_SET | ({""} if what == "getter" else set())
        if what == "setter":
            fl_full.discard("")
        extra = (t_full - TRUE_SET) | (fl_full - exp_f)
        missing = (TRUE_SET - t_full) | (FALSE_SET - fl_full)
        if extra:
            ctx.fail("R5", "%s word set" % fname, f.where, "accepts %s beyond 1/0 yes/no true/false" % sorted(extra),
                     key="bool-extra:%s" % fname)
        elif missing:
            opaque = [c for c in f.calls(conv.STRCMPS) if not any(x.string_value() is not None for x in c.call_args())]
            if (not t_full and not fl_full) or opaque or unknown:
                ctx.inconclusive("R5", "%s word set" % fname, f.where, "comparison idiom not recognised (%s)" % (
                    render(opaque[0]) if opaque else "no literal comparison leads to a result store"))
            else:
                ctx.fail("R5", "%s word set" % fname, f.where, "does not accept %s" % sorted(missing), key="bool-missing:%s" % fname)
        else:
            ctx.ok("R5", "%s word set" % fname, f.where, "true: %s, false: %s" % (sorted(t_full), sorted(fl_full)))
        if what == "getter" and "" not in fl_full and missing and not extra and ((not t_full and not fl_full) or unknown or
                [c for c in f.calls(conv.STRCMPS) if not any(x.string_value() is not None for x in c.call_args())]):
            ctx.inconclusive("R5", "%s: empty value is false" % fname, f.where, "comparison idiom not recognised")
        elif what == "getter" and "" not in fl_full:
            ctx.fail("R5", "%s: empty value is false" % fname, f.where, "no empty-text test leading to *result = false", key="bool-empty")
        # case-insensitivity: compared text is lower-cased or compared with strcasecmp
        compared = set(x for s in rec.values() for (L, how, x) in s if how in ("strcmp", "hash"))
        lowered = set()
        for c in f.calls("toLowerCase"):
            lowered.add(render(c.call_args()[0]))
            up = c.up()
            if up is not None and up.k == "BinaryOperator" and up.j.get("op") == "=":
                lowered.add(render(up.children[0]))
            if up is not None and up.k == "DeclStmt":
                for d in up.j.get("decls", []):
                    lowered.add(d["name"])
            if up is not None and up.k == "CallExpr" and up.j.get("callee") == "hashstring":
                pu = up.up()
                if pu is not None and pu.k == "DeclStmt":
                    for d in pu.j.get("decls", []):
                        lowered.add(d["name"])
        for c in f.calls("hashstring"):
            if c.call_args() and render(c.call_args()[0]) in lowered:
                pu = c.up()
                if pu is not None and pu.k == "DeclStmt":
                    for d in pu.j.get("decls", []):
                        lowered.add(d["name"])
                if pu is not None and pu.k == "BinaryOperator" and pu.j.get("op") == "=":
                    lowered.add(render(pu.children[0]))
        # lower-cased character by character: `copy[i] = tolower(text[i])`
        for lhs, rhs, st0, kind in query.stores(f):
            l0 = lhs.strip()
            if l0.k == "ArraySubscriptExpr" and rhs is not None and any(x.k == "CallExpr" and x.j.get("callee") == "tolower" for x in rhs.walk()):
                lowered.add(render(l0.children[0]))
        # the compared text must be a complete copy: not a fixed-size array that cuts the stored text
        from sa import buf as _buf
        from sa import loops as _loops
        arrays, sites = _buf.analyse_fixed_arrays(prog, False)
        for st in sites:
            if st.fn is not f or st.arr.name not in compared:
                continue
            if st.verdict in ("truncation", "overflow"):
                ctx.fail("R5", "%s compares the whole text" % fname, st.node.where,
                         "the text is compared after being copied into %s[%d]: %s - equality on the cut copy is a prefix match "
                         "('falsehood' reads as 'false')" % (st.arr.name, st.arr.size, st.why), key="bool-truncated:%s" % fname)
            elif st.copier == "element-store":
                # a copy loop that stops when the array is full cuts longer text, unless longer text was turned away before
                lp = next((a for a in st.node.ancestors() if a.k in ("ForStmt", "WhileStmt", "DoStmt")), None)
                if lp is None:
                    continue
                sh = _loops.index_shape(lp)
                if not (sh.ok and getattr(sh, "extra", None)):
                    continue        # the loop runs to its own bound: not a copy that stops at the end of the text
                hb = f.cfg.loop_header(lp)
                guarded = False
                for (b, i, s2) in f.cfg.edges():
                    lit = f.cfg.edge_lit(b, i)
                    if lit is not None and lit.kind == "lt" and "strlen(" in lit.atom and f.cfg.dominates(s2, hb):
                        if any(n.const_value() is not None and 0 < n.const_value() <= st.arr.size for n in lit.node.walk() if n.is_expr()):
                            guarded = True
                if not guarded:
                    ctx.fail("R5", "%s compares the whole text" % fname, st.node.where,
                             "the text is compared after being copied into %s[%d] by a loop that stops when the array is full (%s %s %s): longer text is "
                             "cut and equality on the cut copy is a prefix match ('falsehood' reads as 'false')" % (
                                 st.arr.name, st.arr.size, sh.var, sh.cmp, sh.bound), key="bool-truncated:%s" % fname)
        # ... and with the whole word: a comparison limited to the first n characters accepts every text that merely begins like the word
        for c in f.calls(("strncmp", "strncasecmp", "memcmp")):
            lits9 = [x.string_value() for x in c.call_args() if x.string_value() is not None]
            nlim = c.call_args()[2].const_value() if len(c.call_args()) > 2 else None
            if lits9 and nlim is None and len(c.call_args()) > 2 and not re.search(r"strlen\(\s*\"", render(c.call_args()[2])):
                ctx.inconclusive("R5", "%s compares the whole text" % fname, c.where,
                                 "`%s`: the number of characters compared is not a constant" % render(c)[:60])
            elif lits9 and (nlim is None or nlim <= len(lits9[0])):
                ctx.fail("R5", "%s compares the whole text" % fname, c.where,
                         "`%s` compares at most %s characters: every text that begins like \"%s\" ('yesterday', 'nonsense', '10') is taken for the word" % (
                             render(c)[:60], nlim if nlim is not None else "n", lits9[0]), key="bool-prefix:%s" % fname)
        not_lowered = [x for x in compared if x not in lowered]
        if compared and not not_lowered:
            ctx.ok("R5", "%s is case-insensitive" % fname, f.where, "compared text %s is lower-cased first" % sorted(compared))
        elif not_lowered:
            ctx.fail("R5", "%s is case-insensitive" % fname, f.where, "%s is compared without lower-casing" % not_lowered,
                     key="bool-case:%s" % fname)


def r5_lowering_helper(prog, ctx, rule="R5"):
    """the helper both boolean accessors rely on really lowers every capital letter, and only those"""
    if not prog.has_fn("toLowerCase"):
        ctx.inconclusive(rule, "toLowerCase lowers every capital letter", "", "helper vanished")
        return
    f = prog.fn("toLowerCase")
    ctx.touch(f)
    cfg = f.cfg
    inst = "toLowerCase lowers every capital letter"
    lps = [x for x in f.walk() if x.k in ("WhileStmt", "ForStmt", "DoStmt")]
    if len(lps) != 1:
        ctx.inconclusive(rule, inst, f.where, "%d loops" % len(lps))
        return
    lp = lps[0]
    from rules.C04 import _driven_loop, _deref_of
    kind, v, why = _driven_loop(f, cfg, lp, cfg.loop_header(lp), lp.child("cond"))
    if kind != "ok" or v is None:
        ctx.inconclusive(rule, inst, lp.where, "scan over the string not recognised")
        return
    stores = [(lhs, rhs, st) for lhs, rhs, st, k2 in query.stores(f) if k2 == "=" and _deref_of(lhs, v) and st.within(lp)]
    if not stores:
        ctx.fail(rule, inst, lp.where, "no character of the string is ever changed", key="tolower-none")
        return
    verdicts = []
    for lhs, rhs, st in stores:
        r = rhs.strip()
        uses_tolower = any(x.k == "CallExpr" and x.j.get("callee") in ("tolower", "__tolower") for x in r.walk()) or "__ctype_tolower_loc" in render(r)
        lo, hi, exact = None, None, False
        for lit in cfg.required_literals(cfg.block_of(st), start=cfg.loop_body_entry(lp)):
            if lit.kind == "truth" and "_ISupper" in lit.atom and lit.pol:
                exact = True
            if lit.kind != "lt":
                continue
            if _deref_of(lit.rhs, v) and lit.lhs.const_value() is not None:
                k = lit.lhs.const_value()
                if lit.pol:
                    lo = max(lo, k + 1) if lo is not None else k + 1
                else:
                    hi = min(hi, k) if hi is not None else k
            elif _deref_of(lit.lhs, v) and lit.rhs.const_value() is not None:
                k = lit.rhs.const_value()
                if lit.pol:
                    hi = min(hi, k - 1) if hi is not None else k - 1
                else:
                    lo = max(lo, k) if lo is not None else k
        guarded = lo is not None or hi is not None
        if uses_tolower and not guarded:
            verdicts.append(("ok", st, "every character goes through tolower()"))
        elif exact or (lo, hi) == (65, 90):
            verdicts.append(("ok", st, "characters in ['A','Z'] are mapped"))
        elif guarded and ((lo or 0) > 65 or (hi if hi is not None else 255) < 90):
            missing = [chr(c) for c in range(65, 91) if (lo is not None and c < lo) or (hi is not None and c > hi)]
            verdicts.append(("fail", st, "only characters in [%s,%s] are lowered: %s stay capital, so a spelling of a boolean word containing one of them "
                             "(e.g. 'FALSE') is not recognised" % (repr(chr(lo)) if lo else "-", repr(chr(hi)) if hi is not None and hi < 256 else "-", missing[:4])))
        else:
            verdicts.append(("unknown", st, "mapping `%s` under [%s,%s] not understood" % (render(st)[:50], lo, hi)))
    for kind2, st, why2 in verdicts:
        if kind2 == "ok":
            ctx.ok(rule, inst, st.where, why2)
        elif kind2 == "fail":
            ctx.fail(rule, inst, st.where, why2, key="tolower-range")
        else:
            ctx.inconclusive(rule, inst, st.where, why2)


def _alloc_locals(f):
    out = set()
    for lhs, rhs, st in f.assignments():
        if rhs is not None and rhs.strip().k == "CallExpr" and rhs.strip().j.get("callee") in ("malloc", "calloc", "strdup", "strndup", "realloc"):
            out.add(lhs["name"] if isinstance(lhs, dict) else render(lhs))
    return out


def r7_def_wrappers(prog, ctx):
    """the ...ValueDef wrappers hand the getter's verdict through: every return returns the variable that received the
    getter's result, unmodified, and the default is stored only for ECONF_NOKEY"""
    from sa.dataflow import ReachingDefs
    n = 0
    for name in prog.entry_points():
        if not (name.startswith("econf_get") and name.endswith("ValueDef")):
            continue
        f = prog.fn(name)
        ctx.touch(f)
        base = name[:-3]
        calls = f.calls(base)
        if len(calls) != 1:
            ctx.inconclusive("R7", "%s delegates to %s" % (name, base), f.where, "%d calls" % len(calls))
            continue
        n += 1
        c = calls[0]
        up = c.up()
        var = None
        if up is not None and up.k == "DeclStmt":
            var = up.j["decls"][0]["name"]
        elif up is not None and up.k == "BinaryOperator" and up.j.get("op") == "=":
            var = render(up.children[0])
        elif up is not None and up.k == "ReturnStmt":
            ctx.ok("R7", "%s returns the getter's verdict" % name, c.where, "returned directly")
            continue
        if var is None:
            ctx.inconclusive("R7", "%s returns the getter's verdict" % name, c.where, "result not bound to a variable")
            continue
        rd = ReachingDefs(f)
        bad = None
        cfg = f.cfg
        cb = cfg.block_of(c)
        def from_getter(e, at, depth=0):
            """the expression is the getter's verdict handed on through copies (error = <inlined helper>.$ret; return error;)"""
            e2 = e.strip()
            if e2.k == "BinaryOperator" and e2.j.get("op") == "=":
                return from_getter(e2.children[1], at, depth)
            if e2 is c:
                return True
            if e2.k != "DeclRefExpr" or e2.j.get("dk") != "local" or depth > 6:
                return False
            ds = rd.reaching(e2.j["name"], at)

            def refusal(d):
                # `if (!ef) return ECONF_ERROR;` of an inlined helper: a failure code stored before the getter is called, behind a test of an argument
                if d.rhs is None or d.node is None or d.rhs.const_value() in (None, 0) or cfg.block_of(d.node) in cfg.reachable(cb):
                    return False
                pn = [q["name"] for q in f.params]
                okp, cutp = cfg.all_paths_cut(cfg.block_of(d.node), lambda lit, b, i: lit is not None and lit.kind == "truth" and not lit.pol and lit.atom in pn)
                return bool(okp and cutp)
            def same_code(d):
                # `return ECONF_NOKEY;` where the getter's verdict is known to BE that code (`if (error != ECONF_NOKEY) return error; ... return ECONF_NOKEY;`)
                if d.rhs is None or d.node is None or d.rhs.const_value() is None:
                    return False
                cv = d.rhs.const_value()
                for q in cfg.required_literals(cfg.block_of(d.node), expand_locals=False):
                    if q is None or q.kind != "eq" or not q.pol:
                        continue
                    for x9, y9 in ((q.lhs, q.rhs), (q.rhs, q.lhs)):
                        if y9.const_value() == cv and x9.strip().k == "DeclRefExpr" and from_getter(x9, d.node, depth + 1):
                            return True
                return False
            return bool(ds) and all(d.node is up or refusal(d) or same_code(d) or (d.rhs is not None and d.node is not None and from_getter(d.rhs, d.node, depth + 1)) for d in ds) \
                and any(not refusal(d) for d in ds)
        for r in f.returns():
            if cb not in cfg.reachable(cfg.block_of(r), forward=False):
                continue
            if r.children and render(r.children[0]) != var and from_getter(r.children[0], r):
                continue
            if not r.children or render(r.children[0]) != var:
                # an argument refusal (`if (result == NULL) return ECONF_ARGUMENT_IS_NULL_VALUE;`, an allocation failure) is not a verdict about the text
                pnames = [q["name"] for q in f.params]
                okp, cutp = cfg.all_paths_cut(cfg.block_of(r), lambda lit, b, i: lit is not None and lit.kind == "truth" and not lit.pol and (
                    lit.atom in pnames or lit.atom in _alloc_locals(f)))
                if okp and cutp and r.children and query.returned_constant(r) not in (None, 0, "ECONF_SUCCESS"):
                    continue
                bad = (r, "returns %s instead of the getter's result" % (render(r.children[0]) if r.children else "nothing"))
                break
            defs = rd.reaching(var, r)
            if any(d.node is not up and not (d.rhs is not None and d.rhs.strip() is c) for d in defs):
                bad = (r, "`%s` is overwritten after the getter returned" % var)
                break
        if bad:
            ctx.fail("R7", "%s returns the getter's verdict" % name, bad[0].where,
                     "%s: an error of the typed getter (bare key, conversion error) is masked and a default/invented value returned with success" % bad[1],
                     key="def-masks:%s" % name)
        else:
            ctx.ok("R7", "%s returns the getter's verdict" % name, c.where, "every return hands back `%s` as assigned from %s()" % (var, base))
    ctx.floor("C09 defaulted getters", n, 8)


def _get_label(n):
    if n.k == "BinaryOperator" and n.j.get("op") == "=":
        l = n.children[0].strip()
        if l.k == "UnaryOperator" and l.j.get("op") == "*" and query.refs_param(l.children[0], "result"):
            v = n.children[1].const_value()
            if v in (0, 1):
                return bool(v)
    return None


def _set_label(n):
    if n.k == "CallExpr" and n.j.get("callee") == "strdup" and n.call_args():
        s = n.call_args()[0].string_value()
        if s == "true":
            return True
        if s == "false":
            return False
    # stored = "true"; ... value = strdup(stored);
    if n.k == "BinaryOperator" and n.j.get("op") == "=" and n.children[0].strip().k == "DeclRefExpr" and n.children[0].strip().j.get("dk") == "local":
        s = n.children[1].string_value()
        if s in ("true", "false"):
            v = n.children[0].strip().j["name"]
            if any(c.call_args() and render(c.call_args()[0]) == v for c in n.fn.calls("strdup")):
                return s == "true"
    return None


def _get_consumer(fn, m):
    """the getter hands the table's meaning on: *result = M (or the table field is stored into *result directly)"""
    if m == "*result":
        return lambda v: bool(v)
    for lhs, rhs, st, kind in query.stores(fn):
        l = lhs.strip()
        if kind == "=" and rhs is not None and l.k == "UnaryOperator" and l.j.get("op") == "*" and query.refs_param(l.children[0], "result") \
                and rhs.strip().k == "DeclRefExpr" and render(rhs.strip()) == m:
            return lambda v: bool(v)
    return None


def _set_consumer(fn, m):
    """the setter stores strdup(M ? "true" : "false")"""
    for c in fn.calls("strdup"):
        a = c.call_args()[0].strip() if c.call_args() else None
        if a is not None and a.k == "ConditionalOperator" and render(a.child("cond")) == m:
            t, e = a.child("then").string_value(), a.child("else").string_value()
            if (t, e) == ("true", "false"):
                return lambda v: bool(v)
            if (t, e) == ("false", "true"):
                return lambda v: not bool(v)
    return None


def run(prog, ctx):
    # R8: the text a typed getter interprets is the text of the key asked for - the first entry whose section and key EQUAL the
    # ones given (= C11.A4); a prefix or case-blind comparison makes `RETRY` read the text of `RETRY_MAX`
    from rules import common as _common
    from rules import C11 as _C11
    _common.import_obligations(ctx, prog, [_C11.a4, _C11.a4_no_entry_passed_over], "R8", "the getter reads the key asked for: ", what="lookup of the entry")
    # ... and the text it interprets is the text that was set: a string stored without its quotes turns "42" (text) into 42 (a number)
    _C11.a11_names_kept(prog, ctx, "R8")
    _common.index_param_rule(prog, ctx, "R8")
    # R9: the objects the getters are called on after a layered read are alive: the merge hands out a new object, not one of the
    # parsed files that are released right after it (= C03.M0)
    from rules import C03 as _C03
    _common.import_obligations(ctx, prog, [_C03.m0_result_is_fresh], "R9", "the getters read a live object: ", what="result of the merge")
    n = 0
    for g, (width, signed, kind) in conv.GETTERS.items():
        f = prog.fn(g)
        ctx.touch(f)
        n += 1
        if kind != "string" or True:
            r2_null_value(prog, ctx, g, f)
        if kind == "int":
            integer_getter(prog, ctx, g, f, width, signed)
            try:
                r10_refusal_reasons(prog, ctx, g, f, width, signed)
            except Inconclusive as e:
                ctx.inconclusive("R10", "%s refuses only for the documented reasons" % g, f.where, str(e))
        elif kind == "float":
            try:
                if conv.delegate_getter(f) is None:
                    r10_float_refusals(prog, ctx, g, f)
            except Inconclusive as e:
                ctx.inconclusive("R10", "%s refuses only for the documented reasons" % g, f.where, str(e))
            dele = conv.delegate_getter(f)
            if dele is not None:
                dw = conv.GETTERS[dele][0]
                if dw != width or conv.GETTERS[dele][2] != "float":
                    ctx.fail("R6", "%s parses with %s" % (g, "strtof" if width == 32 else "strtod"), f.where,
                             "%s converts through %s (%d-bit) and narrows the result: the text is rounded twice (decimal -> %d-bit -> %d-bit), which is not the "
                             "correctly rounded value for literals near a midpoint" % (g, dele, dw, dw, width), key="routine:%s" % g)
                else:
                    ctx.ok("R6", "%s delegates to %s" % (g, dele), f.where, "same type")
                continue
            call = conv.strto_call(f)
            want = "strtof" if width == 32 else "strtod"
            if call.j["callee"] == want:
                ctx.ok("R6", "%s parses with %s" % (g, want), call.where, "no double rounding")
            else:
                ctx.fail("R6", "%s parses with %s" % (g, want), call.where,
                         "uses %s: the text is rounded twice / to the wrong precision" % call.j["callee"], key="routine:%s" % g)
            if conv.uses_errno(f):
                ok_e, why_e = conv.errno_reset_before(f, call)
                if ok_e:
                    ctx.ok("R4", "%s: errno cleared before the conversion" % g, call.where, why_e)
                else:
                    ctx.fail("R4", "%s: errno cleared before the conversion" % g, call.where, why_e, key="errno-reset:%s" % g)
            succ = conv.success_returns(f)
            args = call.call_args()
            a1 = args[1].strip()
            endp = render(a1.children[0]) if a1.k == "UnaryOperator" and a1.j.get("op") == "&" else None
            anchor = succ[0] if succ else f
            if endp and f.cfg.success_cut(lambda lit, b, i: lit is not None and lit.kind == "eq" and not lit.pol and endp in (render(lit.lhs), render(lit.rhs))):
                ctx.ok("R4", "%s: no-digits test" % g, anchor.where, "every path to success carries %s != start of text" % endp)
            else:
                ctx.fail("R4", "%s: no-digits test" % g, anchor.where, "success without the end-pointer having moved", key="endptr:%s" % g)
    r5_bool(prog, ctx)
    r5_lowering_helper(prog, ctx)
    # the typed public getters reach these through the macro: 8 + 8 Def wrappers
    pub = [x for x in prog.entry_points() if x.startswith("econf_get") and x.endswith("Value")
           and "get" + x[len("econf_get"):] + "Num" in conv.GETTERS]
    for p in pub:
        f = prog.fn(p)
        tgt = "get" + p[len("econf_get"):] + "Num"
        if not f.calls(tgt):
            ctx.inconclusive("R0", "%s delegates to %s" % (p, tgt), f.where, "delegation not found")
    r7_def_wrappers(prog, ctx)
    ctx.floor("C09 typed getters", n, 8)
