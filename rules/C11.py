"""C11 - the set/get/list API behaves as an ordered map from (section, key) to text.

A1 NULL object refused     A2 NULL/empty key refused      A3 section names with/without brackets, NULL/empty = group-less
A4 first-match lookup over [0,length)     A5 miss appends at the end, array grows correctly
A6 default exactly when the key is absent    A7 listings visit everything in order    A8 generated siblings agree"""
import re

from sa.ast import render
from sa.facts import Inconclusive
from sa import query
from sa import loops
from rules import common
from sa.mod import ModAnalysis
from rules.C10 import indirect_table

META = {
    "level": "other",
    "technique": "static analysis: dominance of argument checks, loop-shape recognition (E-loop), path conditions of the default / "
                 "append branches, freshness of the bracket-stripped copy, sibling agreement of macro instantiations",
    "level_text": "Decides argument refusal, section-name normalisation, first-match lookup, append-at-end with correct growth, "
                  "default-iff-absent, ordered complete listings, and agreement of the 8+8+8 generated accessors - for every operation "
                  "sequence, because each is a fact about all paths of the accessor code. Not decided: full reference-map equivalence "
                  "(growth arithmetic across histories is value-level).",
    "level_note": "Partial. Trusted: clang front end/CFG, sa/loops.py, sa/mod.py.",
    "explanation": "argument checks, lookup/append loop shapes, default path condition, listing loops, sibling agreement",
    "trusted_base": ["clang-14 front end and CFG", "sa/loops.py", "sa/cfg.py", "sa/mod.py"],
    "assumptions": ["no allocation failure"],
}

MARKER = "_none_"
TYPES = ["Int", "Int64", "UInt", "UInt64", "Float", "Double", "String", "Bool"]


def accessors(prog):
    g = ["econf_get%sValue" % t for t in TYPES]
    s = ["econf_set%sValue" % t for t in TYPES]
    d = ["econf_get%sValueDef" % t for t in TYPES]
    for n in g + s + d:
        if not prog.has_fn(n):
            raise Inconclusive("anchor vanished: %s" % n)
    return g, s, d


def a1(prog, ctx, names):
    for n in names:
        f = prog.fn(n)
        ctx.touch(f)
        cfg = f.cfg
        p = f.params[0]["name"]
        if f.params[0].get("ct") != "struct econf_file *":
            ctx.inconclusive("A1", "%s object parameter" % n, f.where, "first parameter is %s" % f.params[0].get("t"))
            continue
        uses = [x for x in f.walk() if x.k == "DeclRefExpr" and x.j.get("name") == p and x.j.get("dk") == "param"]
        derefs = []
        for u in uses:
            up = u.up()
            if up is None:
                continue
            if (up.k == "MemberExpr" and up.j.get("arrow")) or (up.k == "UnaryOperator" and up.j.get("op") == "*") or up.k == "ArraySubscriptExpr":
                derefs.append(up)
            elif up.k == "CallExpr":
                derefs.append(up)      # handing the object on: callee may dereference it
        bad = None
        for d in derefs:
            ok, cut = cfg.all_paths_cut(cfg.block_of(d), lambda lit, b, i: lit is not None and lit.kind == "truth" and lit.atom == p and lit.pol)
            if not (ok and cut):
                bad = d
                break
        if bad is not None:
            ctx.fail("A1", "%s refuses a NULL object" % n, bad.where, "`%s` is used (%s) without a NULL test before it" % (p, render(bad)[:40]),
                     key="nullobj:%s" % n)
            continue
        # the NULL edge returns a non-zero constant
        okret = False
        for (b, i, s) in cfg.edges():
            lit = cfg.edge_lit(b, i)
            if lit is not None and lit.kind == "truth" and lit.atom == p and not lit.pol:
                r = cfg.return_of_block(s)
                if r is not None and query.returned_constant(r) not in (None, 0, "ECONF_SUCCESS"):
                    okret = True
        if okret:
            ctx.ok("A1", "%s refuses a NULL object" % n, f.where, "NULL test dominates every use; the NULL edge returns an error constant")
        else:
            ctx.fail("A1", "%s refuses a NULL object" % n, f.where, "the NULL edge does not return an error code", key="nullobj-ret:%s" % n)


def a2(prog, ctx, setters):
    fk = prog.fn("find_key")
    ctx.touch(fk)
    cfg = fk.cfg
    lp = [x for x in fk.walk() if x.k in ("ForStmt", "WhileStmt", "DoStmt") and any(c.j.get("callee") == "strcmp" for c in x.walk() if c.k == "CallExpr")]
    if len(lp) != 1:
        raise Inconclusive("find_key: lookup loop not recognised")
    hb = cfg.loop_header(lp[0])
    ok1, c1 = cfg.all_paths_cut(hb, lambda lit, b, i: lit is not None and lit.kind == "truth" and lit.atom == "key" and lit.pol)
    ok2, c2 = cfg.all_paths_cut(hb, lambda lit, b, i: lit is not None and lit.pol and (
        (lit.kind == "truth" and lit.atom in ("*key", "key[0]", "strlen(key)")) or (lit.kind == "lt" and "strlen(key)" in lit.atom)))
    if ok1 and ok2:
        ctx.ok("A2", "find_key refuses a NULL or empty key", lp[0].where, "every path to the lookup loop carries key != NULL and *key")
    else:
        ctx.fail("A2", "find_key refuses a NULL or empty key", lp[0].where,
                 "the lookup loop is reachable with %s" % ("key == NULL" if not ok1 else "an empty key"), key="findkey-key")
    # the refusing edges return non-zero
    for (b, i, s) in cfg.edges():
        lit = cfg.edge_lit(b, i)
        if lit is not None and lit.kind == "truth" and lit.atom in ("key", "*key") and not lit.pol:
            if hb in cfg.reachable(s):
                continue
            vals = cfg.returned_via((b, i))
            if vals and all(v not in (0, "ECONF_SUCCESS", None) for v in vals):
                ctx.ok("A2", "find_key: refusal returns an error code", lit.node.where, "returns %s" % sorted(vals))
            elif vals and all(v not in (0, "ECONF_SUCCESS") for v in vals):
                ctx.inconclusive("A2", "find_key: refusal returns an error code", lit.node.where, "returned value not a known constant")
            else:
                ctx.fail("A2", "find_key: refusal returns an error code", fk.where, "refusing path returns success", key="findkey-ret")
    for n in setters:
        f = prog.fn(n)
        cfg = f.cfg
        c = query.unique_call(f, "setKeyValue")
        tb = cfg.block_of(c)
        ok1, _ = cfg.all_paths_cut(tb, lambda lit, b, i: lit is not None and lit.kind == "truth" and lit.atom == "key" and lit.pol)
        ok2, _ = cfg.all_paths_cut(tb, lambda lit, b, i: lit is not None and lit.pol and (
            (lit.kind == "lt" and "strlen(key)" in lit.atom and lit.lhs.const_value() == 0) or (lit.kind == "truth" and lit.atom in ("*key", "strlen(key)"))))
        if ok1 and ok2:
            ctx.ok("A2", "%s refuses a NULL or empty key" % n, c.where, "setKeyValue only behind key != NULL and strlen(key) > 0")
        else:
            ctx.fail("A2", "%s refuses a NULL or empty key" % n, c.where,
                     "an entry can be created with %s" % ("a NULL key" if not ok1 else "an empty key"), key="setter-key:%s" % n)


def a3(prog, ctx, getters, setters):
    ma = ModAnalysis(prog, indirect_targets=indirect_table(prog))
    for n in getters + setters:
        f = prog.fn(n)
        target = "find_key" if (n in getters or n.endswith("ValueDef")) else "setKeyValue"
        c = query.unique_call(f, target)
        tf = prog.fn(target)
        gi = tf.param_names().index("group")
        a = c.call_args()[gi].strip()
        if a.k == "CallExpr" and a.j.get("callee") == "stripbrackets":
            inner = a.call_args()[0]
            ok, why = ma.is_fresh_expr(f, inner)
            # the fresh copy must be a copy of `group`
            src_ok = False
            i2 = inner.strip()
            if i2.k == "DeclRefExpr":
                for lhs, rhs, st in f.assignments():
                    nm = lhs["name"] if isinstance(lhs, dict) else render(lhs)
                    if nm == i2.j["name"] and "strdup(group)" in render(rhs):
                        src_ok = True
            if ok and src_ok:
                ctx.ok("A3", "%s strips brackets from a private copy of the section name" % n, c.where, "stripbrackets(%s), %s" % (render(inner), why))
            else:
                ctx.fail("A3", "%s strips brackets from a private copy of the section name" % n, c.where,
                         "stripbrackets() is applied to %s (%s)" % (render(inner), why if not ok else "not a copy of group"), key="brackets-copy:%s" % n)
        else:
            ctx.fail("A3", "%s accepts [section] and section alike" % n, c.where,
                     "the section argument reaches %s as %s without stripbrackets(): '[s]' and 's' denote different sections for this accessor" % (target, render(a)),
                     key="brackets:%s" % n)
    # NULL / empty section = the group-less marker, in lookup, creation and listing alike.  The choice may be a
    # conditional expression or an if/else; its condition is evaluated for the three kinds of section argument.
    from sa.cond import eval_str_cases
    holder = common.holder_of(prog, "new_key", ("key_file_append", "setGroup", "setKey"))
    for n in ("find_key", holder.name if holder is not None else "new_key", "econf_getKeys"):
        f = prog.fn(n)
        ctx.touch(f)
        strparams = [p["name"] for p in f.params if "char" in p.get("type", p.get("ct", "char"))]
        found = []
        for lit in f.walk():
            if lit.k != "StringLiteral":
                continue
            # enclosing choice
            cur, prev = lit.parent, lit
            while cur is not None and cur.k not in ("ConditionalOperator", "IfStmt"):
                if cur.k in ("CompoundStmt",) and cur.parent is not None and cur.parent.k not in ("IfStmt",):
                    break
                prev, cur = cur, cur.parent
            if cur is None or cur.k not in ("ConditionalOperator", "IfStmt"):
                continue
            cond = cur.child("cond")
            side = "then" if prev is cur.child("then") or (cur.child("then") is not None and lit.within(cur.child("then"))) else "else"
            other = cur.child("else") if side == "then" else cur.child("then")
            if other is None and cur.k == "IfStmt" and side == "then" and any(x.k == "ReturnStmt" for x in cur.child("then").walk()):
                # if (c) return A;  return B;   -  the statement behind the if is the other arm
                par = cur.parent
                if par is not None and par.k == "CompoundStmt" and cur in par.children:
                    k2 = par.children.index(cur)
                    if k2 + 1 < len(par.children):
                        other = par.children[k2 + 1]
            for pnm in strparams:
                if not query.mentions_name(cond, pnm) or other is None or not query.mentions_name(other, pnm):
                    continue
                ev = eval_str_cases(cond, pnm)
                found.append((lit.string_value(), render(cond), cur, side, ev))
        if not found:
            ctx.inconclusive("A3", "%s maps NULL/empty section to the marker" % n, f.where, "idiom not found")
            continue
        for val, ctext, x, side, ev in found:
            if ev is None:
                ctx.inconclusive("A3", "%s maps NULL/empty section to the marker" % n, x.where, "condition `%s` not understood" % ctext)
                continue
            marker_when = {c: (v if side == "then" else (not v)) if v != "deref" else "deref" for c, v in ev.items()}
            if "deref" in marker_when.values():
                ctx.fail("A3", "%s maps NULL/empty section to the marker" % n, x.where, "`%s` dereferences a NULL section name" % ctext, key="marker:%s" % n)
            elif val == MARKER and marker_when == {"null": True, "empty": True, "text": False}:
                ctx.ok("A3", "%s maps NULL/empty section to the marker" % n, x.where, "(%s): NULL and \"\" give %r, any other name is used as given" % (ctext, MARKER))
            else:
                ctx.fail("A3", "%s maps NULL/empty section to the marker" % n, x.where,
                         "uses %r for %s under (%s); the other accessors use %r for NULL and empty names" % (
                             val, [c for c, v in marker_when.items() if v], ctext, MARKER), key="marker:%s" % n)


def a4(prog, ctx):
    f = prog.fn("find_key")
    cfg = f.cfg
    lps = [x for x in f.walk() if x.k in ("ForStmt", "WhileStmt", "DoStmt") and any(c.j.get("callee") == "strcmp" for c in x.walk() if c.k == "CallExpr")]
    if len(lps) != 1:
        raise Inconclusive("find_key: lookup loop not recognised")
    lp = lps[0]
    sh = loops.index_shape(lp)
    obj = f.params[0]["name"]
    want = "%s.length" % obj if f.params[0].get("ct") == "struct econf_file" else "%s->length" % obj
    # a countdown next to a moving pointer (`for (left = n; left > 0; left--, entry++)`): the counter is not the index
    by_pointer = sh.ok and not any(x.k == "ArraySubscriptExpr" and render(x.children[1]) == sh.var for x in lp.walk()) and any(
        x.k == "UnaryOperator" and x.j.get("op") == "++" and (x.children[0].strip().j.get("ct") or "").rstrip().endswith("*") for x in lp.walk())
    if by_pointer and not loops.covers_range(sh, 0, want):
        ctx.inconclusive("A4", "find_key scans [0,length) ascending", lp.where, "%s next to a moving pointer: not followed" % sh.describe())
    elif loops.covers_range(sh, 0, want):
        ctx.ok("A4", "find_key scans [0,length) ascending", lp.where, sh.describe())
    elif sh.ok and "alloc_length" in (sh.bound or ""):
        ctx.fail("A4", "find_key scans [0,length) ascending", lp.where,
                 "bound is %s: the pre-initialised slots beyond `length` (key '_none_') are visible to lookups" % sh.bound, key="findkey-bound")
    elif sh.ok:
        ctx.fail("A4", "find_key scans [0,length) ascending", lp.where, "loop is %s" % sh.describe(), key="findkey-shape")
    else:
        ctx.inconclusive("A4", "find_key scans [0,length) ascending", lp.where, sh.describe())
    # match: group and key both equal; the index is published; nothing is published after the first match
    pubs = [st for lhs, rhs, st, kind in query.stores(f) if render(lhs) == "*num" and rhs is not None]
    if not pubs:
        ctx.fail("A4", "find_key returns the first match", f.where, "*num is never set", key="findkey-first")
        return
    why = []
    for st in pubs:
        sb = cfg.block_of(st)

        def eqtest(field):
            def p(lit, b, i):
                return (lit is not None and lit.kind == "truth" and not lit.pol and lit.node.k == "CallExpr" and lit.node.j.get("callee") == "strcmp"
                        and any(render(a).endswith("." + field) or render(a).endswith("->" + field) for a in lit.node.call_args()))
            return p
        okg, cg = cfg.all_paths_cut(sb, eqtest("group"), start=cfg.loop_body_entry(lp))
        okk, ck = cfg.all_paths_cut(sb, eqtest("key"), start=cfg.loop_body_entry(lp))
        if not (okg and cg):
            why.append("group is not compared with strcmp() == 0")
        if not (okk and ck):
            why.append("key is not compared with strcmp() == 0")
        if sh.ok and render(st.children[1]) != sh.var and not by_pointer:
            why.append("*num is set to %s, not to the matching index" % render(st.children[1]))
        # success is what the function returns after publishing
        ok_ret = True
        for r in f.returns():
            rb = cfg.block_of(r)
            if rb in cfg.reachable(sb):
                wp = cfg.feasible_reach(rb, lambda lit, b, i: False, lambda a: True, start=sb)
                if wp is not None and query.returned_constant(r) not in ("ECONF_SUCCESS", 0):
                    # a variable return: must hold SUCCESS on the consistent paths from the store
                    val = r.children[0].strip() if r.children else None
                    if val is not None and val.k == "DeclRefExpr" and val.j.get("dk") == "local":
                        sets = [s2 for l2, r2, s2, k2 in query.stores(f) if render(l2) == val.j["name"] and r2 is not None
                                and query.returned_constant_expr(r2) in ("ECONF_SUCCESS", 0) and cfg.block_of(s2) == sb]
                        if sets:
                            continue
                    ok_ret = False
        if not ok_ret:
            why.append("a match does not end in ECONF_SUCCESS")
        # first match wins: no consistent way from the publication back to it
        again = cfg.feasible_reach(sb, lambda lit, bb, ii: False, lambda a: True, start=sb, nonempty=True)
        if again is not None:
            why.append("the loop keeps scanning after a match (last match wins)")
    if not why:
        ctx.ok("A4", "find_key returns the first match", pubs[0].where, "strcmp(group)==0 and strcmp(key)==0, *num = %s, and the scan ends with the first match" % sh.var)
    else:
        ctx.fail("A4", "find_key returns the first match", pubs[0].where, "; ".join(dict.fromkeys(why)), key="findkey-first")


def a4_no_entry_passed_over(prog, ctx):
    """A4 (converse): the scan passes an entry over only because one of its names differs.  A further filter in the loop
    (a cached hash of the key compared first) is accepted when the cached field is kept equal to h(key) wherever a key is
    stored; otherwise entries whose names do match become invisible to get/set."""
    f = prog.fn("find_key")
    cfg = f.cfg
    lps = [x for x in f.walk() if x.k in ("ForStmt", "WhileStmt", "DoStmt") and any(c.j.get("callee") == "strcmp" for c in x.walk() if c.k == "CallExpr")]
    if len(lps) != 1:
        return
    lp = lps[0]
    hb = cfg.loop_header(lp)
    nl = cfg.natural_loop(hb)

    def is_namecmp(lit):
        return (lit is not None and lit.kind == "truth" and lit.node.k == "CallExpr" and lit.node.j.get("callee") == "strcmp"
                and any(render(a).endswith((".group", "->group", ".key", "->key")) for a in lit.node.call_args()))
    others = []
    for (b, i, s2) in cfg.edges():
        if b not in nl or b == hb or s2 not in nl:
            continue
        lit = cfg.edge_lit(b, i)
        if lit is None or is_namecmp(lit):
            continue
        # does this edge lead to the next round without a name comparison having failed and without a match?
        pubs = set(cfg.block_of(st) for lhs, rhs, st, kind in query.stores(f) if render(lhs) == "*num")
        if s2 == hb or hb in cfg.reachable(s2, avoid_blocks=pubs | set(bb for (bb, ii, ss) in cfg.edges() if is_namecmp(cfg.edge_lit(bb, ii)))):
            others.append((lit, b, i))
    if not others:
        ctx.ok("A4", "find_key passes an entry over only when a name differs", lp.where, "the only tests in the scan are strcmp() on group and key")
        return
    for lit, b, i in others:
        fld = None
        local = None
        if lit.kind == "eq":
            for side, other in ((lit.lhs, lit.rhs), (lit.rhs, lit.lhs)):
                s0 = side.strip()
                if s0.k == "MemberExpr" and s0.j.get("rec") == "file_entry" and other.strip().k == "DeclRefExpr":
                    fld, local = s0.j.get("member"), other.strip()
        if fld is None:
            ctx.inconclusive("A4", "find_key passes an entry over only when a name differs", lit.node.where,
                             "the scan also skips entries on `%s`" % render(lit.node))
            continue
        from sa.dataflow import ReachingDefs
        ds = ReachingDefs(f).reaching(local.j["name"], lit.node)
        hcall = None
        if len(ds) == 1 and ds[0].rhs is not None and ds[0].rhs.strip().k == "CallExpr" and render(ds[0].rhs.strip().call_args()[0]) == "key":
            hcall = ds[0].rhs.strip().j.get("callee")
        if hcall is None:
            ctx.inconclusive("A4", "find_key passes an entry over only when a name differs", lit.node.where,
                             "entries are skipped on .%s against `%s`, which is not h(key)" % (fld, render(local)))
            continue
        # coherence of the cached field with the key, wherever either is stored
        bad, seen_sites = [], 0
        for g in prog.lib_functions(with_helpers=False):
            keyst, fst = {}, {}
            for lhs, rhs, st, kind in query.stores(g):
                l0 = lhs.strip()
                if l0.k == "MemberExpr" and l0.j.get("rec") == "file_entry" and rhs is not None:
                    base = render(l0.children[0])
                    if l0.j.get("member") == "key":
                        keyst.setdefault(base, []).append((st, rhs))
                    elif l0.j.get("member") == fld:
                        fst.setdefault(base, []).append((st, rhs))
            for base, ks in keyst.items():
                seen_sites += 1
                if base not in fst:
                    bad.append((ks[0][0], "%s stores %s.key but leaves .%s as it was" % (g.name, base, fld)))
                    continue
                for st2, r2 in fst[base]:
                    r0 = r2.strip()
                    while r0.k in ("ImplicitCastExpr", "ParenExpr", "CStyleCastExpr") and r0.children:
                        r0 = r0.children[0].strip()
                    if r0.k == "CallExpr" and r0.j.get("callee") == hcall:
                        src = render(r0.call_args()[0])
                        if src in ("%s.key" % base, "%s->key" % base):
                            continue        # the hash of the key just stored
                        srcs = set([src])
                        a0 = r0.call_args()[0].strip()
                        if a0.k == "ConditionalOperator":
                            srcs = set(render(x) for x in a0.children[1:])
                        whole = set()
                        for st3, r3 in ks:
                            k0 = r3.strip()
                            if k0.k == "CallExpr" and k0.j.get("callee") == "strdup":
                                whole.add(render(k0.call_args()[0]))
                            elif k0.k == "CallExpr":
                                whole.add("<%s>" % render(k0))
                            else:
                                whole.add(render(k0))
                        if not whole <= srcs and not srcs <= set(x for x in whole if not x.startswith("<")) or any(x.startswith("<") for x in whole):
                            bad.append((st2, "%s caches %s(%s) while the key it stores is %s" % (g.name, hcall, src, sorted(x.strip("<>") for x in whole))))
                    elif r0.k == "MemberExpr" and r0.j.get("member") == fld:
                        srcbase = render(r0.children[0])
                        if not any(render(r3).replace(" ", "") in ("strdup(%s.key)" % srcbase, "%s.key" % srcbase, "strdup(%s->key)" % srcbase) for st3, r3 in ks):
                            bad.append((st2, "%s copies .%s from %s but the key from elsewhere" % (g.name, fld, srcbase)))
        if bad:
            st2, why = bad[0]
            ctx.fail("A4", "find_key passes an entry over only when a name differs", st2.where,
                     "the scan skips entries whose .%s differs from %s(key), but %s: an entry whose names match is never found (get reports "
                     "no key, set appends a second entry)" % (fld, hcall, why), key="findkey-filter:%s" % fld)
        elif seen_sites:
            ctx.ok("A4", "find_key passes an entry over only when a name differs", lit.node.where,
                   "pre-filter on .%s; the field is stored as %s(<the key stored>) at all %d places that store a key" % (fld, hcall, seen_sites))
        else:
            ctx.inconclusive("A4", "find_key passes an entry over only when a name differs", lit.node.where, "no store of .key found")


def _delivers_index(prog, fname, pi, depth=0):
    """does function `fname` hand the index of the entry it appended back through its pi-th parameter (a size_t *)?
    key_file_append: `*p = kf->length++` (or `kf->length - 1` behind the increment) on every way to success;
    anything else: passes the parameter on to a function that does."""
    if depth > 3 or not prog.has_fn(fname):
        return False
    g = prog.fn(fname)
    if pi >= len(g.params) or not (g.params[pi].get("ct") or "").endswith("*"):
        return False
    pn = g.params[pi]["name"]
    gcfg = g.cfg
    blocks = set()
    for lhs, rhs, st, kind in query.stores(g):
        if render(lhs) == "*" + pn and rhs is not None:
            r0 = rhs.strip()
            while r0.k in ("ImplicitCastExpr", "ParenExpr", "CStyleCastExpr") and r0.children:
                r0 = r0.children[0].strip()
            if r0.k == "UnaryOperator" and r0.j.get("op") == "++" and r0.j.get("postfix", True) and render(r0.children[0]).endswith("->length"):
                blocks.add(gcfg.block_of(st))
            elif render(r0).endswith("->length - 1") and any(k2 == "++" and render(l2).endswith("->length") and gcfg.node_dominates(s2, st)
                                                             for l2, r2, s2, k2 in query.stores(g)):
                blocks.add(gcfg.block_of(st))
            elif r0.k == "DeclRefExpr" and r0.j.get("dk") == "local":
                # *out = appended;  where a callee that delivers the index was handed &appended before
                for c in g.calls():
                    cn = c.j.get("callee")
                    for ai, a in enumerate(c.call_args()):
                        if render(a) == "&" + r0.j["name"] and cn != fname and gcfg.node_dominates(c, st) and _delivers_index(prog, cn, ai, depth + 1) and not [
                                s3 for l3, r3, s3, k3 in query.stores(g) if render(l3) == r0.j["name"]]:
                            blocks.add(gcfg.block_of(st))
    for c in g.calls():
        cn = c.j.get("callee")
        for ai, a in enumerate(c.call_args()):
            if render(a) == pn and cn != fname and _delivers_index(prog, cn, ai, depth + 1):
                blocks.add(gcfg.block_of(c))
    if not blocks:
        return False
    if gcfg.entry in blocks:
        return True
    succ = {(b, i): s2 for (b, i, s2) in gcfg.edges()}
    # (a caller that passes NULL for the out-parameter asks for nothing)
    return gcfg.success_path_avoiding(lambda lit, b, i: succ.get((b, i)) in blocks or (
        lit is not None and ((lit.kind == "truth" and lit.atom == pn and not lit.pol) or (lit.kind == "eq" and lit.pol and pn in (render(lit.lhs), render(lit.rhs))
                                                                                          and 0 in (lit.lhs.const_value(), lit.rhs.const_value()))))) is None


def _capacity_local_grows(k, kcfg, rcall, size=None):
    """realloc(p, new_cap * sizeof(entry)) with the new capacity in a local: every definition of the local is larger than the capacity the
    object has (a positive constant where that is 0, a multiple or sum of it where it is not, a bound it was compared against), and the
    local is then stored as the object's capacity.  None when the size is not of that form."""
    m = re.fullmatch(r"(\w+) \* sizeof\(struct file_entry\)|sizeof\(struct file_entry\) \* (\w+)", size or render(rcall.call_args()[1]))
    if not m:
        return None
    v = m.group(1) or m.group(2)
    defs = [(r2, st2) for l2, r2, st2 in k.assignments() if (l2["name"] if isinstance(l2, dict) else render(l2)) == v and r2 is not None]
    if not defs:
        return None
    olds = set(["kf->alloc_length"])
    for l2, r2, st2 in k.assignments():
        if isinstance(l2, dict) and r2 is not None and render(r2).endswith("->alloc_length"):
            olds.add(l2["name"])
    published = [st2 for l2, r2, st2, k2 in query.stores(k) if k2 == "=" and render(l2).endswith("->alloc_length") and r2 is not None and render(r2) == v
                 and (kcfg.node_dominates(rcall, st2) or kcfg.node_dominates(st2, rcall))]
    if not published:
        return ("unknown", "the new capacity `%s` is not stored as the object's capacity with the realloc" % v)
    why = []
    for r2, st2 in defs:
        t = render(r2)
        req = kcfg.required_literals(kcfg.block_of(st2))
        zero = any(l.kind == "eq" and l.pol and render(l.lhs) in olds and l.rhs.const_value() == 0 or l.kind == "eq" and l.pol and render(l.rhs) in olds and l.lhs.const_value() == 0
                   or (l.kind == "truth" and not l.pol and l.atom in olds) for l in req)
        nonzero = any((l.kind == "eq" and not l.pol and (render(l.lhs) in olds or render(l.rhs) in olds) and 0 in (l.lhs.const_value(), l.rhs.const_value()))
                      or (l.kind == "truth" and l.pol and l.atom in olds) for l in req)
        cv = r2.const_value()
        mm = re.fullmatch(r"(\w[\w>\-]*) \* (\d+)|(\d+) \* (\w[\w>\-]*)", t)
        ma = re.fullmatch(r"(\w[\w>\-]*) \+ (\d+)", t)
        if any(l.kind == "lt" and l.pol and render(l.lhs) in olds and render(l.rhs) == t for l in req):
            why.append("%s behind capacity < %s" % (t, t))
        elif cv is not None and cv > 0 and zero:
            why.append("%s where the capacity is 0" % t)
        elif cv is not None and cv > 0 and not zero:
            return ("unknown", "`%s = %s`: a constant capacity where the old one is not known to be 0" % (v, t))
        elif mm and (mm.group(1) or mm.group(4)) in olds and int(mm.group(2) or mm.group(3)) >= 2:
            if not nonzero:
                return ("fail", "`%s = %s` also when the capacity is 0: 0 stays 0, the array does not grow and the new entry is written outside it (objects "
                                "created without entries: econf_newKeyFile_with_options(), a comment-only file)" % (v, t))
            why.append("%s where it is not 0" % t)
        elif ma and ma.group(1) in olds and int(ma.group(2)) >= 1:
            why.append(t)
        elif any(l.kind == "lt" and l.pol and render(l.lhs) in olds and render(l.rhs) == t for l in req):
            why.append("%s behind capacity < %s" % (t, t))
        else:
            return ("unknown", "`%s = %s`: not seen to exceed the present capacity" % (v, t))
    return ("ok", "the new capacity is larger than the old one on every path (%s)" % "; ".join(why))


def a5(prog, ctx):
    f = prog.fn("setKeyValue")
    ctx.touch(f)
    cfg = f.cfg
    nk = f.calls("new_key")
    if not nk and not prog.has_fn("new_key"):
        nk = f.calls("key_file_append")         # new_key() folded into its only caller: the append is the creation point
    if len(nk) != 1:
        raise Inconclusive("setKeyValue: new_key call not found")
    ok, cut = cfg.all_paths_cut(cfg.block_of(nk[0]), lambda lit, b, i: lit is not None and lit.kind == "eq" and "ECONF_NOKEY" in lit.atom and lit.pol
                                or (lit is not None and lit.kind == "eq" and "ECONF_NOKEY" in lit.atom and not lit.pol and False))
    # today's form: if (error != ECONF_NOKEY) return error;  -> the continuing edge carries error == ECONF_NOKEY
    if ok and cut:
        ctx.ok("A5", "a new entry is created exactly on a lookup miss", nk[0].where, "new_key() behind error == ECONF_NOKEY")
    else:
        ctx.fail("A5", "a new entry is created exactly on a lookup miss", nk[0].where, "new_key() reachable for other lookup results", key="newkey-cond")
    idx = [st for lhs, rhs, st, kind in query.stores(f) if render(lhs) == "num" and rhs is not None]
    good = [st for st in idx if render(st.children[1]) == "kf->length - 1" and cfg.must_pass(nk[0], st)]
    out_ok = [ai for ai, a in enumerate(nk[0].call_args()) if render(a) == "&num" and _delivers_index(prog, nk[0].j.get("callee"), ai)]
    if good:
        ctx.ok("A5", "the value is stored into the appended entry", good[0].where, "num = kf->length - 1 after new_key()")
    elif out_ok and not [st for st in idx if cfg.block_of(st) in cfg.reachable(cfg.block_of(nk[0])) and cfg.block_of(st) != cfg.block_of(nk[0])]:
        ctx.ok("A5", "the value is stored into the appended entry", nk[0].where,
               "%s() hands the index of the entry it appended back through &num (`*p = kf->length++` in key_file_append)" % nk[0].j.get("callee"))
    else:
        ctx.fail("A5", "the value is stored into the appended entry", nk[0].where, "after new_key() the index is %s" % [render(s.children[1]) for s in idx],
                 key="newkey-index")
    # the setter function receives that index
    k = prog.fn("key_file_append")
    kcfg = k.cfg
    re_ = k.calls("realloc")
    if len(re_) != 1:
        raise Inconclusive("key_file_append: realloc not found")
    rb = kcfg.block_of(re_[0])
    verdict = None
    for (b, i, s) in kcfg.edges():
        lit = kcfg.edge_lit(b, i)
        if lit is None or lit.kind != "lt":
            continue
        l, r = render(lit.lhs), render(lit.rhs)
        if "length" in l and "alloc_length" in r and "alloc_length" not in l:
            # (length++ < alloc_length) false  -> grow       [ >= ]
            if rb in kcfg.reachable(s) and not lit.pol:
                verdict = ("ok", "grows when length (before the increment) >= alloc_length", kcfg.blocks[b].cond)
            elif rb in kcfg.reachable(s) and lit.pol:
                verdict = ("fail", "grows when length < alloc_length (inverted)", kcfg.blocks[b].cond)
        elif "alloc_length" in l and "length" in r:
            # (alloc_length < length++) true -> grow       [ > ]  recognised deviant
            if rb in kcfg.reachable(s) and lit.pol and rb not in kcfg.reachable(kcfg.blocks[b].succs[1 - i]):
                verdict = ("fail", "grows only when length > alloc_length: when they are equal the new entry is written one slot past the array",
                           kcfg.blocks[b].cond)
    if verdict is None:
        ctx.inconclusive("A5", "key_file_append grows at the right moment", k.where, "growth test not recognised")
    elif verdict[0] == "ok":
        ctx.ok("A5", "key_file_append grows at the right moment", verdict[2].where, verdict[1])
    else:
        ctx.fail("A5", "key_file_append grows at the right moment", verdict[2].where, verdict[1], key="append-growth")
    size = re.sub(r"sizeof\s*\(?\s*(\*\s*\(?\w+->file_entry\)?|\w+->file_entry\[0\])\s*\)?", "sizeof(struct file_entry)", render(re_[0].call_args()[1]))
    grown = _capacity_local_grows(k, kcfg, re_[0], size) if "alloc_length" not in size and "sizeof(struct file_entry)" in size else None
    if grown is not None:
        if grown[0] == "ok":
            ctx.ok("A5", "key_file_append grows by one entry", re_[0].where, "realloc(%s): %s" % (size, grown[1]))
        elif grown[0] == "fail":
            ctx.fail("A5", "key_file_append grows by one entry", re_[0].where, grown[1], key="append-size")
        else:
            ctx.inconclusive("A5", "key_file_append grows by one entry", re_[0].where, grown[1])
    elif "alloc_length" in size and "sizeof(struct file_entry)" in size:
        incs = [st for lhs, rhs, st, kind in query.stores(k) if kind == "++" and "alloc_length" in render(lhs) and kcfg.node_dominates(st, re_[0])]
        if incs or "alloc_length + 1" in size:
            ctx.ok("A5", "key_file_append grows by one entry", re_[0].where, "realloc(%s)" % size)
        else:
            ctx.fail("A5", "key_file_append grows by one entry", re_[0].where, "size %s without incrementing alloc_length" % size, key="append-size")
    elif "sizeof(struct file_entry)" in size and re.search(r"->length\b", size) and any(k2 == "++" and render(l2).endswith("->length") for l2, r2, st2, k2 in query.stores(k)):
        # sized by the number of entries in use (already counted up): equal to the capacity plus one exactly when the array was full - not followed
        ctx.inconclusive("A5", "key_file_append grows by one entry", re_[0].where, "size %s: the count of entries instead of the capacity" % size)
    else:
        ctx.fail("A5", "key_file_append grows by one entry", re_[0].where, "size %s" % size, key="append-size")
    # new_key: append, then group and key go into the last entry
    n = common.holder_of(prog, "new_key", ("key_file_append", "setGroup", "setKey"))
    if n is None:
        ctx.inconclusive("A5", "new_key fills the appended entry", "", "neither new_key nor a function that appends and sets group and key found")
        return
    ctx.touch(n)
    for callee in ("setGroup", "setKey"):
        cs = n.calls(callee)
        idx_ok = False
        if len(cs) == 1 and n.calls("key_file_append"):
            want_idx = "%s->length - 1" % render(cs[0].call_args()[0])
            ia = cs[0].call_args()[1].strip()
            if render(ia) == want_idx:
                idx_ok = True
            elif ia.k == "UnaryOperator" and ia.j.get("op") == "*":
                # the index the append handed back through an out-parameter that this function passes on
                pn9 = render(ia.children[0])
                ka = n.calls("key_file_append")[0]
                idx_ok = any(render(a9) == pn9 and _delivers_index(prog, "key_file_append", ai9) for ai9, a9 in enumerate(ka.call_args()))
            elif ia.k == "DeclRefExpr" and ia.j.get("dk") == "local" and any(
                    render(a9) == "&" + ia.j["name"] and _delivers_index(prog, "key_file_append", ai9) for ai9, a9 in enumerate(n.calls("key_file_append")[0].call_args())) \
                    and not [s3 for l3, r3, s3, k3 in query.stores(n) if render(l3) == ia.j["name"]]:
                # the index the append handed back in a local of this function
                idx_ok = True
            elif ia.k == "DeclRefExpr" and ia.j.get("dk") == "local":
                # through a local that was set to the last index after the append
                from sa.dataflow import ReachingDefs
                ds = ReachingDefs(n).reaching(ia.j["name"], cs[0])
                wants = [d for d in ds if d.rhs is not None and render(d.rhs) == want_idx and d.node is not None]
                others = [d for d in ds if d not in wants]
                ncfg = n.cfg
                idx_ok = len(wants) == 1 and ncfg.must_pass(n.calls("key_file_append")[0], wants[0].node) and ncfg.must_pass(wants[0].node, cs[0]) and \
                    all(d.node is None or ncfg.block_of(d.node) not in ncfg.reachable(ncfg.block_of(wants[0].node)) for d in others)
        if idx_ok and \
                n.cfg.must_pass(n.calls("key_file_append")[0], cs[0]):
            ctx.ok("A5", "new_key fills the appended entry (%s)" % callee, cs[0].where, "index key_file->length - 1 after key_file_append()")
        else:
            ctx.fail("A5", "new_key fills the appended entry (%s)" % callee, n.where, "index %s" % [render(c.call_args()[1]) for c in cs], key="newkey-%s" % callee)
    # ... and leaves it there: the caller stores the value at `length - 1`, so nothing between the append and the return may move entries
    moved = []
    for c in n.calls(("memmove", "memcpy", "qsort", "mempcpy")):
        if any("file_entry" in render(a) for a in c.call_args()):
            moved.append((c, "%s() over the entry array" % c.j.get("callee")))
    for lhs, rhs, st, kind in query.stores(n):
        l0 = lhs.strip()
        if l0.k == "ArraySubscriptExpr" and render(l0.children[0]).endswith("file_entry") and "file_entry" in (l0.j.get("t") or l0.j.get("ct") or ""):
            moved.append((st, "whole entry stored: %s" % render(st)[:80]))
    if moved and good:
        ctx.fail("A5", "new_key leaves the new entry at the end", moved[0][0].where,
                 "%s: the entry new_key() created is no longer the last one, but setKeyValue() stores the value at `kf->length - 1` - the value lands in another "
                 "key and the new key stays without value" % moved[0][1], key="newkey-moved")
    elif moved:
        ctx.inconclusive("A5", "new_key leaves the new entry at the end", moved[0][0].where, moved[0][1])
    else:
        ctx.ok("A5", "new_key leaves the new entry at the end", n.where, "no entry is moved after key_file_append(); the caller's index `length - 1` is the new entry")


def a6(prog, ctx, defs):
    for n in defs:
        f = prog.fn(n)
        ctx.touch(f)
        cfg = f.cfg
        sts = [st for lhs, rhs, st, kind in query.stores(f) if render(lhs) == "*result"]
        if len(sts) != 1:
            ctx.inconclusive("A6", "%s stores the default" % n, f.where, "%d stores to *result" % len(sts))
            continue
        st = sts[0]
        src = render(st.children[1])
        ok, cut = cfg.all_paths_cut(cfg.block_of(st), lambda lit, b, i: lit is not None and lit.kind == "eq" and lit.pol and "ECONF_NOKEY" in lit.atom)
        # and nothing else decides: the edge's target is the store's block
        direct = any(cfg.blocks[b].succs[i] == cfg.block_of(st) for (b, i) in cut)
        if not direct and ok and cut:
            # between the key-absent test and the store only tests of the ARGUMENTS may stand (`if (result == NULL) return ..;`)
            pn6 = [q["name"] for q in f.params]
            sb6 = cfg.block_of(st)
            inter = []
            for (b, i) in cut:
                s6 = cfg.blocks[b].succs[i]
                region = cfg.reachable(s6, avoid_blocks=[sb6])
                for (b2, i2, s2) in cfg.edges():
                    if b2 in region and sb6 in (cfg.reachable(s2) | {s2}):
                        l6 = cfg.edge_lit(b2, i2)
                        if l6 is not None:
                            inter.append(l6)
                # a switch that still chooses (more than one way out) between the test and the store decides as well
                if any(cfg.blocks[b2].termk == "SwitchStmt" and len([x for x in cfg.blocks[b2].succs if x is not None]) > 1
                       and sb6 in cfg.reachable(b2) for b2 in region):
                    inter.append(None)
            direct = all(l6 is not None and l6.kind == "truth" and l6.atom in pn6 for l6 in inter)
        others = [x for x in cut if False]
        if ok and cut and direct and "def" in src:
            ctx.ok("A6", "%s returns the default exactly when the key is absent" % n, st.where, "*result = %s behind error == ECONF_NOKEY only" % src)
        else:
            ctx.fail("A6", "%s returns the default exactly when the key is absent" % n, st.where,
                     "*result = %s is %s" % (src, "also stored for other results of the getter (conversion error, bare key ...)" if not ok else "guarded by more than the key-absent test"),
                     key="default-cond:%s" % n)


def a7(prog, ctx):
    g = prog.fn("econf_getGroups")
    ctx.touch(g)
    lps = [x for x in g.walk() if x.k in ("ForStmt", "WhileStmt", "DoStmt")]
    trs = [(x, t) for x in lps for t in loops.traversals(x) if t.base == "kf->groups"]
    if len(trs) != 1:
        raise Inconclusive("econf_getGroups: loop not recognised")
    lp0, tr = trs[0]
    lp = [lp0]
    if tr.covers("kf->groups", "kf->group_count"):
        ctx.ok("A7", "econf_getGroups visits every section in order", lp[0].where, tr.describe())
    else:
        ctx.fail("A7", "econf_getGroups visits every section in order", lp[0].where, "loop is %s" % tr.describe(), key="groups-loop")
    cfg = g.cfg
    app = [st for lhs, rhs, st, kind in query.stores(g) if render(lhs).startswith("(*groups)[") and rhs is not None and "strdup" in render(rhs)]
    if app:
        st = app[0]
        r0 = st.children[1].strip()
        srcok = r0.k == "CallExpr" and r0.j.get("callee") == "strdup" and r0.call_args() and tr.is_elem(render(r0.call_args()[0]))

        def marker_test(lit, b, i):
            return (lit is not None and lit.kind == "truth" and lit.pol and lit.node.k == "CallExpr" and lit.node.j.get("callee") == "strcmp"
                    and any(a.string_value() == MARKER for a in lit.node.call_args()) and any(tr.is_elem(render(a)) for a in lit.node.call_args()))
        okm, cutm = cfg.all_paths_cut(cfg.block_of(st), marker_test)
        hb = cfg.loop_header(lp[0])
        other_conds = [(b, i) for (b, i, s) in cfg.edges() if b in cfg.natural_loop(hb) and b != hb and cfg.edge_lit(b, i) is not None
                       and (b, i) not in cutm and not cfg.edge_lit(b, i).atom.startswith("*groups") and "strcmp" not in cfg.edge_lit(b, i).atom
                       and "(*groups)[" not in cfg.edge_lit(b, i).atom and cfg.blocks[b].cond is not None and not cfg.blocks[b].cond.within(lp[0].child("cond") or lp[0])
                       and cfg.block_of(st) in cfg.reachable(cfg.blocks[b].succs[i], avoid_blocks=[hb]) and
                       cfg.block_of(st) not in cfg.reachable(cfg.blocks[b].succs[1 - i], avoid_blocks=[hb])]
        if srcok and okm and cutm and not other_conds:
            ctx.ok("A7", "econf_getGroups lists exactly the named sections", st.where, "copies the current element unless it is the group-less marker")
        else:
            ctx.fail("A7", "econf_getGroups lists exactly the named sections", st.where,
                     "copy of %s %s" % (render(st.children[1]), "under further conditions" if other_conds else "not filtered by the marker only"), key="groups-filter")
    else:
        ctx.fail("A7", "econf_getGroups lists exactly the named sections", g.where, "no copy into the result", key="groups-filter")
    # ECONF_NOGROUP is the answer for an object that has no section at all - not for one with a single section
    ng = [r for r in query.returns_of_constant(g, "ECONF_NOGROUP")]
    for r in ng:
        lits = [l for l in cfg.required_literals(cfg.block_of(r)) if l is not None and "group_count" in l.atom]
        verdict = None
        for l in lits:
            c_l, c_r = l.lhs.const_value() if l.kind in ("lt", "eq") else None, l.rhs.const_value() if l.kind in ("lt", "eq") else None
            if l.kind == "truth" and not l.pol:
                verdict = verdict or "ok"
            elif l.kind == "eq" and l.pol and 0 in (c_l, c_r):
                verdict = verdict or "ok"
            elif l.kind == "lt" and not l.pol and c_l == 0:            # !(0 < count)  = count <= 0
                verdict = verdict or "ok"
            elif l.kind == "lt" and l.pol and c_r == 1:                # count < 1
                verdict = verdict or "ok"
            elif l.kind == "lt" and ((not l.pol and isinstance(c_l, int) and c_l >= 1) or (l.pol and isinstance(c_r, int) and c_r >= 2)):
                verdict = "fail"
                bad_l = l
        if verdict == "ok":
            ctx.ok("A7", "econf_getGroups answers ECONF_NOGROUP only without any section", r.where, "behind group_count <= 0")
        elif verdict == "fail":
            ctx.fail("A7", "econf_getGroups answers ECONF_NOGROUP only without any section", r.where,
                     "ECONF_NOGROUP is returned under `%s`: an object whose only section is a real one (a parsed file with one section and no group-less "
                     "key) is reported to have none" % bad_l, key="nogroup-threshold")
        elif lits:
            ctx.inconclusive("A7", "econf_getGroups answers ECONF_NOGROUP only without any section", r.where, "test %s not understood" % lits[0])
    # setGroupList: append only on miss, at the end
    from sa import arrays
    s = prog.fn("setGroupList")
    ctx.touch(s)
    scfg = s.cfg
    first = s.calls("getFromGroupList")
    obj = s.params[0]["name"]
    cnt_key = "%s->group_count" % obj
    # the store of the new name: groups[I] = strdup(name) (directly, or of a local holding the copy)
    app = []
    # the list under a local name: grown = realloc(obj->groups, ..); grown[n] = ..; obj->groups = grown;
    bases = set(["%s->groups" % obj])
    for lhs, rhs, st, kind in query.stores(s):
        if kind == "=" and render(lhs) == "%s->groups" % obj and rhs is not None and rhs.strip().k == "DeclRefExpr" and rhs.strip().j.get("dk") == "local":
            loc = rhs.strip().j["name"]
            ds9 = [r9 for l9, r9, s9 in s.assignments() if (l9["name"] if isinstance(l9, dict) else render(l9)) == loc and r9 is not None]
            if ds9 and all(r9.strip().k == "CallExpr" and r9.strip().j.get("callee") == "realloc" and render(r9.strip().call_args()[0]) == "%s->groups" % obj for r9 in ds9):
                bases.add(loc)
    for lhs, rhs, st, kind in query.stores(s):
        l = lhs.strip()
        if kind == "=" and l.k == "ArraySubscriptExpr" and render(l.children[0]) in bases and rhs is not None and not rhs.is_null_const():
            app.append((l, st))
    if first and app:
        v = first[0].up()
        var = v.j["decls"][0]["name"] if v is not None and v.k == "DeclStmt" else (render(v.children[0]) if v is not None and v.k == "BinaryOperator" else None)
        l, st = app[0]
        ok, cut = scfg.all_paths_cut(scfg.block_of(st), lambda lit, b, i: lit is not None and lit.kind == "truth" and lit.atom == var and not lit.pol)
        snaps = arrays.symbolic_snapshots(s, [st])
        idx_vals = set()
        for env in snaps.get(st.id, []):
            idx_vals.add(arrays.symval(l.children[1], env))
        finals = set(env.get(cnt_key, (cnt_key, 0)) for env, passed in snaps["exit"] if st.id in passed)
        at_end = idx_vals == {(cnt_key, 0)} and finals == {(cnt_key, 1)}
        if ok and cut and at_end:
            ctx.ok("A7", "a section is added to the list once, at the end", st.where,
                   "append behind getFromGroupList() == NULL, at the old group_count, which then grows by one")
        elif not (ok and cut):
            ctx.fail("A7", "a section is added to the list once, at the end", st.where, "append also when the section is already listed", key="grouplist-dup")
        elif None in idx_vals or None in finals:
            ctx.inconclusive("A7", "a section is added to the list once, at the end", st.where, "index / counter arithmetic not understood")
        else:
            ctx.fail("A7", "a section is added to the list once, at the end", st.where,
                     "the new name is stored at index %s and the counter ends at %s (relative to the old group_count)" % (
                         sorted(str(x) for x in idx_vals), sorted(str(x) for x in finals)), key="grouplist-end")
    else:
        ctx.fail("A7", "a section is added to the list once, at the end", s.where, "append idiom not found", key="grouplist-dup")
    # the lookup in the section list is by whole-name equality
    if prog.has_fn("getFromGroupList"):
        gl = prog.fn("getFromGroupList")
        ctx.touch(gl)
        cmps = [c for c in gl.calls(("strcmp", "strncmp", "strcasecmp", "strncasecmp", "memcmp")) if any("->groups[" in render(a2) for a2 in c.call_args())]
        if not cmps:
            ctx.inconclusive("A7", "a section name is looked up by whole-name equality", gl.where, "no comparison with the list elements found")
        for c in cmps:
            if c.j["callee"] == "strcmp":
                ctx.ok("A7", "a section name is looked up by whole-name equality", c.where, render(c))
            else:
                ctx.fail("A7", "a section name is looked up by whole-name equality", c.where,
                         "%s: the comparison covers only a prefix / ignores case - a section whose name begins like (or only differs in case from) an "
                         "existing one is filed under that one" % render(c), key="grouplist-compare")
    # econf_getKeys
    k = prog.fn("econf_getKeys")
    ctx.touch(k)
    kl = [x for x in k.walk() if x.k == "ForStmt"]
    for lp_ in kl:
        sh = loops.for_shape(lp_)
        if loops.covers_range(sh, 0, "kf->length"):
            ctx.ok("A7", "econf_getKeys scans every entry in order", lp_.where, sh.describe())
        elif not sh.ok:
            sh2 = loops.index_shape(lp_)
            if sh2.ok and sh2.step > 0 and sh2.start == "0" and sh2.bound == "kf->length":
                # a further conjunct (`&& j < tmp`: all the keys counted before have been copied) can only end the scan early
                ctx.inconclusive("A7", "econf_getKeys scans every entry in order", lp_.where, "%s, with a further condition in the loop test" % sh2.describe())
            else:
                ctx.inconclusive("A7", "econf_getKeys scans every entry in order", lp_.where, "loop is %s" % sh.describe())
        elif sh.start_node is not None and (sh.start_node.j.get("ct") or "").rstrip().endswith("*"):
            ctx.inconclusive("A7", "econf_getKeys scans every entry in order", lp_.where, "a pointer walk (%s): not followed" % sh.describe())
        else:
            ctx.fail("A7", "econf_getKeys scans every entry in order", lp_.where, "loop is %s" % sh.describe(), key="keys-loop:%d" % kl.index(lp_))
    ctx.floor("C11 loops of econf_getKeys", len(kl), 2)
    cmp_ = [c for c in k.calls(("strcmp", "strncmp", "strcasecmp")) if any(".group" in render(a) or "->group" in render(a) for a in c.call_args())]
    if len(cmp_) > 1 and len(set(render(c) for c in cmp_)) == 1:
        cmp_ = cmp_[:1]          # the same test in a counting pass and in a copying pass
    if len(cmp_) == 1 and cmp_[0].j["callee"] == "strcmp" and "group" not in [render(a) for a in cmp_[0].call_args()] and any(
            (a9.strip().k == "DeclRefExpr" and a9.strip().j.get("dk") == "local") for a9 in cmp_[0].call_args()):
        # compared with a local that stands for the section asked for (`const char *group = grp ? grp : KEY_FILE_NULL_VALUE`): not followed
        ctx.inconclusive("A7", "econf_getKeys filters by section equality", cmp_[0].where, "`%s`: the section asked for is held in a local" % render(cmp_[0]))
        cmp_ = []
        return
    if len(cmp_) == 1 and cmp_[0].j["callee"] == "strcmp" and "group" in [render(a) for a in cmp_[0].call_args()]:
        ctx.ok("A7", "econf_getKeys filters by section equality", cmp_[0].where, render(cmp_[0]))
    else:
        ctx.fail("A7", "econf_getKeys filters by section equality", (cmp_[0] if cmp_ else k).where,
                 "section filter is %s" % ([render(c) for c in cmp_] or "missing"), key="keys-filter")
    # which entries are listed is decided by the section alone: nothing else (a hash of the key, a "seen before" table) takes an entry
    # of the section off the list
    if len(cmp_) == 1:
        kcfg = k.cfg
        lp0 = next((a for a in cmp_[0].ancestors() if a.k in ("ForStmt", "WhileStmt")), None)
        marks = [st for lhs, rhs, st, kind in query.stores(k) if lp0 is not None and st.within(lp0) and kind in ("++", "=") and (
            render(lhs) == "tmp" or (lhs.strip().k == "ArraySubscriptExpr" and rhs is not None and rhs.const_value() == 1))]
        if lp0 is not None and marks:
            hb0 = kcfg.loop_header(lp0)
            extra = []
            for st in marks:
                for l9 in kcfg.required_literals(kcfg.block_of(st), start=hb0):
                    if l9 is None or cmp_[0].within(l9.node) or l9.node.within(cmp_[0]) or render(cmp_[0]) in l9.atom:
                        continue
                    ct9 = render(lp0.child("cond")) if lp0.child("cond") is not None else ""
                    if ct9 and (l9.atom in ct9 or ct9 in l9.atom or render(l9.node) in ct9):
                        continue
                    extra.append(l9)
            byname = [l9 for l9 in extra if "strcmp(" in l9.atom and ".key" in l9.atom]
            if not extra:
                ctx.ok("A7", "econf_getKeys lists every entry of the section", marks[0].where, "marked / counted behind the section test only")
            elif len(byname) == len(extra):
                ctx.inconclusive("A7", "econf_getKeys lists every entry of the section", marks[0].where, "entries are also selected by a comparison of key names (%s)" % byname[0].atom[:60])
            else:
                ctx.fail("A7", "econf_getKeys lists every entry of the section", extra[0].node.where,
                         "whether an entry of the section is listed also depends on `%s`: not a comparison of names - two different keys for which it answers "
                         "alike (equal hash values) are listed as one, the second key is missing from every listing" % extra[0].atom[:70], key="keys-extra-filter")
    # the copying pass takes entry i when entry i was marked: mark test and copy use the index of their loop
    for lp_ in kl:
        sh = loops.for_shape(lp_)
        if not sh.ok:
            continue
        for x in lp_.walk():
            if x.k == "ArraySubscriptExpr" and (render(x.children[0]).endswith("file_entry") or render(x.children[0]) == "uniques") and \
                    next((a9 for a9 in x.ancestors() if a9.k in ("ForStmt", "WhileStmt")), None) is lp_:
                ix = render(x.children[1])
                if ix != sh.var and not ix.startswith(sh.var):
                    ctx.fail("A7", "econf_getKeys reads the entry of its round", x.where,
                             "`%s` inside the loop over `%s`: the mark of one entry decides about / the key of one entry is copied for another" % (render(x)[:50], sh.var),
                             key="keys-index")
    cp = [st for lhs, rhs, st, kind in query.stores(k) if render(lhs).startswith("(*keys)[")]
    def _stepped_after(st9):
        # `list[n] = ..; ..; n++;` with the count stepped once per round of the same loop and set nowhere else in it
        m9 = re.fullmatch(r"\(\*keys\)\[([\w$.]+)\]", render(st9.children[0]))
        lp9 = next((a9 for a9 in st9.ancestors() if a9.k in ("ForStmt", "WhileStmt")), None)
        if not m9 or lp9 is None:
            return False
        inside = [(st2, k2) for l2, r2, st2, k2 in query.stores(k) if render(l2) == m9.group(1) and st2.within(lp9)]
        return len(inside) == 1 and inside[0][1] == "++" and inside[0][0].j.get("op") == "++" and \
            next((a9 for a9 in inside[0][0].ancestors() if a9.k in ("ForStmt", "WhileStmt", "IfStmt")), None) is lp9 and \
            k.cfg.block_of(inside[0][0]) in k.cfg.reachable(k.cfg.block_of(st9))
    if cp and re.match(r"strdup\(kf->file_entry\[[\w$.]+\]\.key\)", render(cp[0].children[1])) and ("++" in render(cp[0].children[0]) or _stepped_after(cp[0])):
        ctx.ok("A7", "econf_getKeys returns the keys in entry order", cp[0].where, render(cp[0]))
    elif not cp and any(r9 is not None and re.match(r"strdup\(.*(\.|->)key\)$", render(r9)) and l9.strip().k == "UnaryOperator" for l9, r9, s9, k9 in query.stores(k)):
        ctx.inconclusive("A7", "econf_getKeys returns the keys in entry order", k.where, "the keys are copied through a moving pointer (`*out++ = strdup(..->key)`): not followed")
    else:
        ctx.fail("A7", "econf_getKeys returns the keys in entry order", (cp[0] if cp else k).where, "copy statement %s" % ([render(c) for c in cp]), key="keys-copy")


def a8(prog, ctx, getters, setters, defs):
    for fam, names, macro in (("getters", getters, "econf_getValue"), ("setters", setters, "libeconf_setValue"), ("defaulted getters", defs, "econf_getValueDef")):
        shapes = {}
        for n in names:
            f = prog.fn(n)
            txt = []
            for x in f.body.walk():
                if x.k in ("CallExpr", "ReturnStmt", "IfStmt", "BinaryOperator"):
                    if x.k == "CallExpr":
                        txt.append("call " + re.sub(r"(get|set)(%s)Value" % "|".join(sorted(TYPES, key=len, reverse=True)), r"\1TValue", x.j.get("callee") or "?"))
                    elif x.k == "ReturnStmt":
                        txt.append(re.sub(r"(get|set)(%s)Value" % "|".join(sorted(TYPES, key=len, reverse=True)), r"\1TValue", render(x)))
                    elif x.k == "IfStmt":
                        txt.append("if " + re.sub(r"(get|set)(%s)Value" % "|".join(sorted(TYPES, key=len, reverse=True)), r"\1TValue", render(x.child("cond"))))
            shapes[n] = "\n".join(t for t in txt if "strdup(def)" not in t and not (fam == "defaulted getters" and t == "call strdup"))
        ref = shapes[names[0]]
        odd = [n for n in names if shapes[n].replace("&value", "value") != ref.replace("&value", "value")]
        from_macro = [n for n in names if prog.fn(n).from_macro == macro]
        if odd and all(prog.fn(n).from_macro is None for n in odd) and any(n not in odd for n in names):
            # a member written out by hand (the string variant has to allocate its copy of the default): it must agree with the
            # generated ones in what it checks about its arguments and in which accessor it delegates to
            def core(txt, fn9):
                pn9 = set(q["name"] for q in prog.fn(fn9).params)
                keep = []
                for t in txt.split("\n"):
                    if t.startswith("if ") and set(re.findall(r"[A-Za-z_]\w*", t[3:])) - {"NULL"} <= pn9:
                        keep.append(t)
                    elif t.startswith("call ") and "TValue" in t:
                        keep.append(t)
                return sorted(set(keep))
            refn = [n for n in names if n not in odd][0]
            odd = [n for n in odd if not set(core(shapes[refn], refn)) <= set(core(shapes[n], n))]      # it may check more, not less
        if not odd:
            ctx.ok("A8", "the 8 %s agree" % fam, prog.fn(names[0]).where, "identical control structure modulo the type slot (%d generated by %s)" % (len(from_macro), macro))
        else:
            ctx.fail("A8", "the 8 %s agree" % fam, prog.fn(odd[0]).where, "%s differ(s) from %s in checks/calls/returns" % (odd, names[0]), key="siblings:%s" % fam)


def a9(prog, ctx, getters, setters):
    """A set creates or replaces an entry and a get looks the key up for EVERY acceptable call: the only calls an accessor
    may turn down before it reaches the worker (setKeyValue / find_key) are those the statement names - no object, no key,
    empty key (an allocation that failed is outside the claim)."""
    for n in getters + setters:
        f = prog.fn(n)
        cfg = f.cfg
        target = "find_key" if n in getters else "setKeyValue"
        c = query.unique_call(f, target)
        wb = cfg.block_of(c)
        p = f.params[0]["name"]
        allocated = set()
        for lhs, rhs, st in f.assignments():
            nm = lhs["name"] if isinstance(lhs, dict) else render(lhs)
            if rhs is not None and re.search(r"\b(strdup|strndup|malloc|calloc|realloc)\(", render(rhs)):
                allocated.add(nm)

        def named_refusal(lit, b, i):
            if cfg.blocks[b].succs[i] == wb:
                return True
            if lit is None or lit.pol:
                return False
            if lit.kind == "truth" and lit.atom in (p, "key", "*key", "key[0]", "strlen(key)"):
                return True
            if lit.kind == "lt" and "strlen(key)" in lit.atom and lit.lhs.const_value() == 0:
                return True
            if lit.kind == "truth" and lit.atom in allocated:
                return True
            return False
        if wb == cfg.entry:
            ok = True
        else:
            ok, _cut = cfg.all_paths_cut(cfg.exit, named_refusal)
        if ok:
            ctx.ok("A9", "%s turns down only calls without object or key" % n, c.where, "every path that leaves without %s() carries %s == NULL, key == NULL or an empty key" % (target, p))
        else:
            wp = cfg.feasible_reach(cfg.exit, named_refusal, lambda a: re.match(r"^\*?[A-Za-z_][\w$.]*$", a) is not None)
            ctx.fail("A9", "%s turns down only calls without object or key" % n, c.where,
                     "a call with an object and a non-empty key can return without reaching %s(): the operation is refused (or skipped) for arguments the "
                     "map accepts" % target, key="refusal:%s" % n, path=cfg.describe_path(wp) if wp else None)


def a10_set_path_keeps_text(prog, ctx):
    """A10: what a setter stores is the whole text it produced: no fixed buffer on the set path cuts it (= C14.B1/B2 restricted to the
    functions between the public setters and the entry)."""
    from sa.report import Ctx as _Ctx
    from rules import C14 as _C14
    sub = _Ctx(ctx.prop, ctx.tier, prog)
    try:
        _C14.judge(prog, sub, False)
    except Inconclusive as e:
        ctx.inconclusive("A10", "the set path keeps the whole text", "", str(e))
        return
    n = 0
    for ob in sub.obs:
        fn0 = ob.instance.split(" ")[0].split(":")[0]
        if re.match(r"^(set\w*ValueNum|setKeyValue|new_key|key_file_append|setKey|setGroup|econf_set\w+Value)$", fn0):
            n += 1
            ob.rule = "A10"
            ctx.obs.append(ob)
    if n == 0:
        ctx.ok("A10", "the set path keeps the whole text", "", "no fixed-size buffer between the setters and the entry")


def a11_names_kept(prog, ctx, rule="A11"):
    """A11: keys and string values are stored letter for letter, so that the lookup by the same name / the read-back compare equal"""
    common.verbatim_store_rule(prog, ctx, rule, "setKey", "key", 2, "setKey stores the key name as given")
    common.verbatim_store_rule(prog, ctx, rule, "setStringValueNum", "value", 2, "setStringValueNum stores the text as given")


def a12_group_list_intact(prog, ctx):
    """A12: the section list every listing walks (NULL-terminated, one slot per section) stays inside its allocation when a section is
    added (= C04.S9 for setGroupList)"""
    from rules import C04 as _C04

    def s9_all(p9, c9):
        _C04.s9(p9, c9, set(f9.name for f9 in p9.lib_functions()))
    n = common.import_obligations(ctx, prog, [s9_all], "A12", "the section list stays intact: ", keep=lambda ob: ob.rule == "S9" and ob.instance.startswith("setGroupList"),
                                  what="stores into the section list")
    if n == 0:
        ctx.inconclusive("A12", "the section list stays intact", "", "no store into the section list found in setGroupList")


def a13_creators_agree(prog, ctx):
    """A13: the two plain creators hand out objects in the same initial state: econf_newIniFile() is econf_newKeyFile() with '=' and
    '#'.  What matters for the map: both register the section of the group-less keys (initialize() -> setGroupList()), so that a listing
    of a still empty object answers the same (success, no sections) for both."""
    from sa import query as _q
    reach = {}
    for name in ("econf_newKeyFile", "econf_newIniFile"):
        if not prog.has_fn(name):
            ctx.inconclusive("A13", "%s registers the group-less section" % name, "", "anchor vanished")
            return
        seen, todo = set(), [name]
        while todo:
            x = todo.pop()
            if x in seen or not prog.has_fn(x):
                continue
            seen.add(x)
            todo += [c.j.get("callee") for c in prog.fn(x).calls() if c.j.get("callee")]
        reach[name] = seen
    base = "setGroupList" in reach["econf_newKeyFile"]
    for name in ("econf_newKeyFile", "econf_newIniFile"):
        f = prog.fn(name)
        ctx.touch(f)
        if "setGroupList" in reach[name]:
            ctx.ok("A13", "%s registers the group-less section" % name, f.where, "reaches setGroupList() through initialize()")
        elif base:
            ctx.fail("A13", "%s registers the group-less section" % name, f.where,
                     "%s no longer reaches initialize()/setGroupList(), econf_newKeyFile() does: an empty object of this creator has no section registered and "
                     "econf_getGroups() answers ECONF_NOGROUP where the other creator's object answers success with no sections" % name, key="creator-state:%s" % name)
        else:
            ctx.inconclusive("A13", "%s registers the group-less section" % name, f.where, "neither creator reaches setGroupList()")


def run(prog, ctx):
    # A14: the per-entry accessors (get*/set*ValueNum, setKey, setGroup, initialize ...) work on the entry whose index they are given
    common.index_param_rule(prog, ctx, "A14")
    a11_names_kept(prog, ctx)
    a12_group_list_intact(prog, ctx)
    a13_creators_agree(prog, ctx)
    getters, setters, defs = accessors(prog)
    a1(prog, ctx, getters + setters + defs + ["econf_getKeys", "econf_getGroups", "econf_getExtValue"])
    a2(prog, ctx, setters)
    # a defaulted getter that looks the key up itself (instead of delegating to the plain getter) is bound by the same naming rules
    direct_defs = [d for d in defs if prog.fn(d).calls("find_key")]
    a3(prog, ctx, getters + direct_defs, setters)
    a4(prog, ctx)
    a4_no_entry_passed_over(prog, ctx)
    a5(prog, ctx)
    a6(prog, ctx, defs)
    a7(prog, ctx)
    a8(prog, ctx, getters, setters, defs)
    a9(prog, ctx, getters, setters)
    a10_set_path_keeps_text(prog, ctx)
    ctx.floor("C11 public accessors", len(getters + setters + defs) + 3, 25)
