"""C13 - parse failures name the right error, file and line and return nothing partial.

E1 each malformed-line branch returns its specific constant (path conditions)
E2 the location record is up to date at every exit of an iteration; file name recorded before the loop
E3 failure frees and clears (ownership, rules/own_rules.py)      E4 the n-th file's failure aborts (= C06.G4)
E5 every error code has exactly one message; econf_errString indexes the table by its argument under the range guard"""
from sa.ast import render
from sa.facts import Inconclusive
from sa import query
from sa.dataflow import ReachingDefs
from rules import parser, common

META = {
    "level": "other",
    "technique": "static analysis: path conditions of each error assignment (edge-cut reachability), dominance of the location "
                 "bookkeeping over every iteration exit, table agreement enum <-> messages[], error-propagation regions",
    "level_text": "Decides which constant each malformed-line branch yields, that the process-wide location record is current at "
                  "every exit of a line iteration (hence for every position of the offending line and whatever precedes it), that "
                  "the n-th drop-in's failure aborts the layered read, and that every code has a message. Not decided: that the FIRST "
                  "malformed line is the one reported for every file (depends on which lines the parser treats as continuations, C02).",
    "level_note": "Partial. Trusted: clang front end/CFG, sa/cfg.py, sa/dataflow.py.",
    "explanation": "error constants by path condition, location bookkeeping by dominance, enum/message table agreement",
    "trusted_base": ["clang-14 front end and CFG", "sa/cfg.py", "sa/dataflow.py"],
    "assumptions": ["no allocation failure"],
}


def _assignments_of_const(f, const):
    out = []
    for lhs, rhs, st in f.assignments():
        r = rhs.strip()
        if r.k == "DeclRefExpr" and r.j.get("dk") == "enum" and r.j.get("name") == const:
            out.append((lhs, st))
    return out


def _lit_calls(lit, callee, arg1_const=None):
    if lit is None or lit.kind != "truth" or lit.node.k != "CallExpr" or lit.node.j.get("callee") != callee:
        return False
    if arg1_const is not None:
        a = lit.node.call_args()
        return len(a) > 1 and a[1].const_value() == arg1_const
    return True


def e1(prog, ctx, L):
    f, cfg = L.fn, L.cfg
    rd = ReachingDefs(f)
    LB, RB = ord("["), ord("]")

    def is_header_test(lit):      # name[0] == '['
        return lit is not None and lit.kind == "eq" and lit.pol and LB in (lit.lhs.const_value(), lit.rhs.const_value())

    def last_is_close(lit):       # *p == ']'
        return lit is not None and lit.kind == "eq" and RB in (lit.lhs.const_value(), lit.rhs.const_value())

    specs = {
        "ECONF_MISSING_BRACKET": [("header line", lambda l: is_header_test(l)),
                                  ("last non-blank is not ']'", lambda l: last_is_close(l) and not l.pol),
                                  ("no ']' anywhere in the rest", lambda l: _lit_calls(l, "strchr", RB) and not l.pol)],
        "ECONF_TEXT_AFTER_SECTION": [("header line", lambda l: is_header_test(l)),
                                     ("last non-blank is not ']'", lambda l: last_is_close(l) and not l.pol),
                                     ("a ']' exists", lambda l: _lit_calls(l, "strchr", RB) and l.pol)],
        "ECONF_EMPTY_SECTION_NAME": [("header line", lambda l: is_header_test(l)),
                                     ("closing bracket present", lambda l: last_is_close(l) and l.pol),
                                     ("name is empty", lambda l: l is not None and ("strlen" in l.atom or l.atom.startswith("*")) and
                                      ((l.kind == "lt" and not l.pol) or (l.kind == "truth" and not l.pol)))],
    }
    for const, conds in specs.items():
        sites = [(lhs, st) for lhs, st in _assignments_of_const(f, const) if st.within(L.loop)]
        rets = [r for r in query.returns_of_constant(f, const) if r.within(L.loop)]
        if not sites and not rets:
            ctx.fail("E1", "%s is produced" % const, f.where, "no branch of the line loop yields %s" % const, key="missing:%s" % const)
            continue
        for lhs, st in sites:
            tb = cfg.block_of(st)
            bad = []
            for label, pred in conds:
                ok, cut = cfg.all_paths_cut(tb, lambda lit, b, i: pred(lit), start=L.header)
                if not (ok and cut):
                    bad.append(label)
            def _joined_by_or(label):
                # the bracket comparison is one alternative of an `||` (`len == 0 || name[len - 1] != ']'`): the other alternative - no
                # text at all behind the '[' - is a way to the same verdict that the rule does not follow
                pred = dict(conds)[label]
                for (b9, i9, s9) in cfg.edges():
                    if pred(cfg.edge_lit(b9, i9)) and (s9 == tb or tb in cfg.reachable(s9)):
                        c9 = cfg.blocks[b9].cond
                        top9 = c9
                        chain9 = [c9.strip()] if c9 is not None else []
                        while top9 is not None and top9.parent is not None and top9.parent.k in ("BinaryOperator", "ParenExpr", "ImplicitCastExpr", "UnaryOperator"):
                            top9 = top9.parent
                            chain9.append(top9)
                        for top9 in chain9:
                            if top9.k == "BinaryOperator" and top9.j.get("op") == "||":
                                others = [x9 for x9 in top9.walk() if x9.k == "BinaryOperator" and x9.j.get("op") in ("==", "<", "<=") and
                                          0 in (x9.children[0].const_value(), x9.children[1].const_value())]
                                if others:
                                    return True
                return False
            if bad == ["last non-blank is not ']'"] and _joined_by_or(bad[0]):
                ctx.inconclusive("E1", "%s only for its malformed line" % const, st.where,
                                 "the test for the closing bracket is joined by `||` with a test for an empty text: not followed")
            elif not bad:
                ctx.ok("E1", "%s only for its malformed line" % const, st.where, "every path carries: " + "; ".join(c[0] for c in conds))
            else:
                ctx.fail("E1", "%s only for its malformed line" % const, st.where,
                         "%s is also assigned on paths that do not carry: %s (codes swapped or condition changed)" % (const, "; ".join(bad)),
                         key="cond:%s" % const)
            # the assignment leaves the loop and reaches the function's return unchanged
            var = render(lhs) if not isinstance(lhs, dict) else lhs["name"]
            if L.header in cfg.reachable(tb) and cfg.feasible_reach(L.header, lambda lit, b, i: False, lambda a: True, start=tb) is not None:
                ctx.fail("E1", "%s aborts the read" % const, st.where, "after the assignment the loop goes on reading lines", key="continue:%s" % const)
            else:
                want = prog.enumerators.get(const)
                vals = cfg.returned_values_from(tb)
                if vals == {want}:
                    ctx.ok("E1", "%s reaches the caller" % const, st.where, "every consistent path from the assignment ends in a return of this value")
                elif None in vals:
                    ctx.fail("E1", "%s reaches the caller" % const, st.where,
                             "on some path between the assignment and the return the variable is assigned again: the parse error is replaced "
                             "(e.g. by the result of a clean-up or post-processing call) and the caller sees success", key="lost:%s" % const)
                else:
                    ctx.fail("E1", "%s reaches the caller" % const, st.where, "the code is overwritten or a different value is returned (%s)" % sorted(
                        str(v) for v in vals), key="lost:%s" % const)
    # missing delimiter: only under a delimiter set without blanks
    md = [(lhs, st) for lhs, st in _assignments_of_const(f, "ECONF_MISSING_DELIMITER") if st.within(L.loop)]
    if not md:
        ctx.fail("E1", "ECONF_MISSING_DELIMITER is produced", f.where, "no branch yields it", key="missing:ECONF_MISSING_DELIMITER")
    for lhs, st in md:
        tb = cfg.block_of(st)
        ok1, c1 = cfg.all_paths_cut(tb, lambda lit, b, i: lit is not None and lit.kind == "truth" and lit.atom == "has_wsp" and not lit.pol, start=L.header)
        # ... about the character the cursor stands on when the key has been taken off (`data`), not about some character further right
        # the cursor under other names: locals of (inlined) helpers that receive it, skip blanks from it, hand it back
        curs = set(["data"])
        grew = True
        while grew:
            grew = False
            for l9, r9, s9 in f.assignments():
                nm9 = l9["name"] if isinstance(l9, dict) else render(l9)
                if nm9 in curs or r9 is None:
                    continue
                r0 = r9.strip()
                if r0.k == "DeclRefExpr" and r0.j.get("name") in curs and "$" in nm9 + r0.j.get("name"):
                    curs.add(nm9)
                    grew = True
        cur_atoms = set("*" + c9 for c9 in curs) | set(c9 + "[0]" for c9 in curs)

        def next_char_no_delim(lit, b, i, depth=0):
            if lit is None or lit.pol:
                return False
            if lit.kind == "truth" and lit.atom in cur_atoms:
                return True
            if _lit_calls(lit, "strchr"):
                a9 = [render(x) for x in lit.node.walk() if x.k == "CallExpr" and x.j.get("callee") == "strchr" for x in x.call_args()[1:2]]
                return any(t9 in cur_atoms for t9 in a9)
            if lit.kind == "truth" and lit.node is not None and lit.node.strip().k == "DeclRefExpr" and lit.node.strip().j.get("dk") == "local" and depth == 0:
                # `at_delim = *p && strchr(delim, *p) != NULL; if (!at_delim)`: the flag is false when one of its conjuncts is
                rhs9 = cfg._flag_def(lit.node.strip().j["name"], b)
                if rhs9 is not None:
                    from sa.cond import norm_cond as _nc

                    def parts(e):
                        e2 = e.strip()
                        if e2.k == "BinaryOperator" and e2.j.get("op") == "&&":
                            return parts(e2.children[0]) + parts(e2.children[1])
                        return [e2]
                    ps = parts(rhs9)
                    return bool(ps) and all(next_char_no_delim(_nc(x9).negated(), b, i, 1) for x9 in ps)
            return False
        ok2, c2 = cfg.all_paths_cut(tb, next_char_no_delim, start=L.header)
        if ok1 and ok2:
            ctx.ok("E1", "ECONF_MISSING_DELIMITER only for key + text without delimiter", st.where,
                   "every path carries: delimiter set has no blank; next character is not a delimiter")
        else:
            ctx.fail("E1", "ECONF_MISSING_DELIMITER only for key + text without delimiter", st.where,
                     "assigned on paths without %s" % ("the non-blank-delimiter condition" if not ok1 else "the no-delimiter test"),
                     key="cond:ECONF_MISSING_DELIMITER")
    # missing file
    fo = f.calls(("fopen",))
    okf = False
    for c in fo:
        up = c.up()
        var = None
        if up is not None and up.k == "DeclStmt":
            var = up.j["decls"][0]["name"]
        elif up is not None and up.k == "BinaryOperator" and up.j.get("op") == "=":
            var = render(up.children[0])
        if var is None:
            continue
        for r in query.returns_of_constant(f, "ECONF_NOFILE"):
            ok, cut = cfg.all_paths_cut(cfg.block_of(r), lambda lit, b, i: lit is not None and lit.kind == "truth" and lit.atom == var and not lit.pol)
            if ok and cut:
                okf = True
                ctx.ok("E1", "unopenable file gives ECONF_NOFILE", r.where, "return behind `%s == NULL`" % var)
    if not okf:
        ctx.fail("E1", "unopenable file gives ECONF_NOFILE", f.where, "fopen failure does not return ECONF_NOFILE", key="nofile:fopen")
    gate = prog.fn(common.GATE)
    ctx.touch(gate)
    gcfg = gate.cfg
    okg = False
    for r in query.returns_of_constant(gate, "ECONF_NOFILE"):
        ok, cut = gcfg.all_paths_cut(gcfg.block_of(r), lambda lit, b, i: lit is not None and lit.kind == "eq" and lit.pol and "lstat" in lit.atom)
        if ok and cut:
            okg = True
            ctx.ok("E1", "missing file gives ECONF_NOFILE", r.where, "return behind `lstat(...) == -1`")
            break
    if not okg:
        # through a status variable (err = ECONF_NOFILE; ... return err;): what the function returns on the consistent paths behind the
        # failed lstat() of the file itself
        want9 = prog.enumerators.get("ECONF_NOFILE")
        pn9 = gate.params[1]["name"] if len(gate.params) > 1 else None
        for (b, i, s2) in gcfg.edges():
            lit = gcfg.edge_lit(b, i)
            if lit is None or lit.kind != "eq" or not lit.pol or "lstat" not in lit.atom or s2 is None:
                continue
            lc = [x for x in lit.node.walk() if x.k == "CallExpr" and x.j.get("callee") == "lstat"]
            if not lc or not lc[0].call_args() or render(lc[0].call_args()[0]) != pn9:
                continue
            vals9 = gcfg.returned_values_from(s2)
            if vals9 == {want9}:
                okg = True
                ctx.ok("E1", "missing file gives ECONF_NOFILE", gcfg.blocks[b].cond.where, "every consistent path behind `lstat(%s, ..) == -1` returns ECONF_NOFILE" % pn9)
            break
    if not okg:
        ctx.fail("E1", "missing file gives ECONF_NOFILE", gate.where, "lstat failure does not return ECONF_NOFILE", key="nofile:lstat")


def e2(prog, ctx, L):
    f, cfg = L.fn, L.cfg
    if len(L.line_args) != 1:
        ctx.fail("E2", "one line counter", f.where, "store() calls pass different line numbers: %s" % sorted(L.line_args), key="line-args")
        return
    line = list(L.line_args)[0]
    incs = [n for n in f.walk() if n.within(L.loop) and
            ((n.k == "UnaryOperator" and n.j.get("op") in ("++",) and render(n.children[0]) == line) or
             (n.k == "CompoundAssignOperator" and render(n.children[0]) == line))]
    others = [st for lhs, rhs, st in f.assignments() if not isinstance(lhs, dict) and render(lhs) == line and st.within(L.loop)]
    if len(incs) != 1 or others:
        ctx.fail("E2", "line counter advances once per line read", (incs[1] if len(incs) > 1 else (others[0] if others else f)).where,
                 "`%s` is changed %d times per iteration" % (line, len(incs) + len(others)), key="line-inc")
        return
    inc = incs[0]
    # not inside an inner loop
    inner = [a for a in inc.ancestors() if a.k in ("WhileStmt", "ForStmt", "DoStmt") and a is not L.loop and a.within(L.loop)]
    if inner:
        ctx.fail("E2", "line counter advances once per line read", inc.where, "increment sits in an inner loop", key="line-inc")
        return
    recs = [st for lhs, rhs, kind_st, k in [(a, b, c, d) for (a, b, c, d) in query.stores(f)]
            for st in [kind_st] if render(lhs) == "last_scanned_line_nr" and st.within(L.loop)]
    if not recs:
        ctx.fail("E2", "location record updated per line", f.where, "no store to last_scanned_line_nr in the line loop", key="loc-store")
        return
    rec = recs[0]
    if render(rec.children[1]) != line:
        ctx.fail("E2", "location record holds the current line", rec.where, "stores %s, not the line counter" % render(rec.children[1]), key="loc-value")
    incb, recb = cfg.index_of(inc), cfg.index_of(rec)
    if not cfg.node_dominates(inc, rec):
        ctx.fail("E2", "location record holds the current line", rec.where, "the record is written before the counter is advanced: it names the previous line",
                 key="loc-order")
    # every place an error can arise in an iteration is dominated by the record: edges that leave the
    # loop from inside the body (goto out / return) and every assignment of an error code / store() result.
    # Plain `continue`s cannot carry an error and may precede the update.
    body = L.body_blocks
    points = []
    for (b, i, s) in cfg.edges():
        if b in body and b != L.header and s not in body:
            if any(e.k == "BinaryOperator" and e.j.get("op") == "=" and e.children[1].strip().k == "DeclRefExpr"
                   and e.children[1].strip().j.get("name") == "ECONF_NOMEM" for e in list(cfg.blocks[b].elems) + list(cfg.blocks[s].elems)):
                continue    # the out-of-memory exit
            points.append((b, cfg.blocks[b].elems[-1] if cfg.blocks[b].elems else rec))
    for lhs, rhs, st in f.assignments():
        if isinstance(lhs, dict) or not st.within(L.loop):
            continue
        r = rhs.strip()
        if r.k == "DeclRefExpr" and r.j.get("dk") == "enum" and r.j.get("name") == "ECONF_NOMEM":
            continue        # running out of memory is not a finding about a line of the file
        if (r.k == "DeclRefExpr" and r.j.get("dk") == "enum" and r.j.get("val") != 0) or (r.k == "CallExpr" and r.j.get("callee") == parser.STORE):
            points.append((cfg.block_of(st), st))
    bad = [(b, n) for (b, n) in points if not cfg.dominates(recb[0], b)]
    if bad:
        b, n = bad[0]
        ctx.fail("E2", "location record current wherever an error can arise", n.where,
                 "an error can be raised in an iteration before last_scanned_line_nr is updated: it is reported for the previous line",
                 key="loc-dominance")
    else:
        ctx.ok("E2", "location record current wherever an error can arise", rec.where,
               "`last_scanned_line_nr = %s` after `%s++` dominates all %d error points of the loop body" % (line, line, len(points)))
    # the record can hold any path the file was opened under
    gv = prog.globals.get("last_scanned_filename")
    if gv is None or not gv.arr:
        ctx.inconclusive("E2", "the location record holds a whole path", f.where, "last_scanned_filename is not a fixed array any more")
    elif gv.arr.get("size", 0) >= 4096:
        ctx.ok("E2", "the location record holds a whole path", f.where, "last_scanned_filename[%s] = %d bytes" % (gv.arr.get("size_src") or gv.arr.get("size"), gv.arr["size"]))
    else:
        ctx.fail("E2", "the location record holds a whole path", f.where,
                 "last_scanned_filename has %d bytes (%s): the path of a malformed file deeper than that is reported cut off - not the file that was read" % (
                     gv.arr["size"], gv.arr.get("size_src") or ""), key="loc-buffer")
    # file name recorded before the loop from read_file's own parameter
    fnrec = [c for c in f.calls(("snprintf", "strncpy", "strcpy", "stpcpy")) if c.call_args() and render(c.call_args()[0]) == "last_scanned_filename"]
    if not fnrec:
        ctx.fail("E2", "file name recorded", f.where, "last_scanned_filename is never written", key="loc-file")
    else:
        c = fnrec[0]
        srcs = [render(a) for a in c.call_args()[1:]]
        if "file" in srcs and cfg.dominates(cfg.block_of(c), L.header) and f.param("file") is not None:
            ctx.ok("E2", "file name recorded before the first line", c.where, "copied from read_file's parameter `file`, dominates the loop")
        else:
            ctx.fail("E2", "file name recorded before the first line", c.where, "source %s / not before the loop" % srcs, key="loc-file")
    # econf_errLocation hands out exactly these two
    el = prog.fn("econf_errLocation")
    ctx.touch(el)
    # the record is read by econf_errLocation itself or by the internal helpers it calls (one helper with two out-parameters
    # as confirmed, or one per part)
    reads, seen, todo = set(), set(), [el]
    while todo:
        g = todo.pop()
        if g.name in seen:
            continue
        seen.add(g.name)
        ctx.touch(g)
        reads |= set(query.global_refs(g))
        for c in g.calls():
            cn = c.j.get("callee")
            if cn in prog.functions and cn not in prog.exports_names():
                todo.append(prog.functions[cn])
    if {"last_scanned_line_nr", "last_scanned_filename"} <= reads:
        ctx.ok("E2", "econf_errLocation returns the record", el.where, "copies of last_scanned_filename / last_scanned_line_nr (read in %s)" % sorted(seen))
    else:
        ctx.fail("E2", "econf_errLocation returns the record", el.where, "reads %s" % sorted(reads), key="loc-getter")


def _e5_by_cases(prog, ctx, vals):
    """econf_errString without a table: a switch over the codes that hands out literals.  Decided code by code: with the parameter
    set to the code, every return that a consistent path reaches delivers one non-empty literal."""
    es = prog.fn("econf_errString")
    if not any(x.k == "SwitchStmt" for x in es.walk()):
        return False
    ctx.touch(es)
    cfg = es.cfg
    p = es.params[0]["name"]
    dense = [v for _, v in vals] == list(range(len(vals)))
    if not dense:
        ctx.fail("E5", "error codes are dense from 0", "include/libeconf.h", "enumerator values %s" % [v for _, v in vals], key="enum-dense")
    missing, texts = [], {}
    for name, v in vals:
        got = set()
        for r in es.returns():
            got |= cfg.values_at_return(r, init_facts={p: bool(v), "=" + p: v})
        if len(got) == 1 and isinstance(next(iter(got)), tuple) and next(iter(got))[1]:
            texts[name] = next(iter(got))[1]
        else:
            missing.append((name, sorted(str(x) for x in got)))
    if missing:
        unknown = [m for m in missing if m[1] != ["None"] and "None" in m[1] or not m[1]]
        ctx.fail("E5", "one message per error code", es.where,
                 "no fixed text for %s" % ", ".join("%s (delivers %s)" % (n9, g9) for n9, g9 in missing[:4]), key="messages-count")
    else:
        ctx.ok("E5", "one message per error code", es.where, "%d enumerators, each with its own case and a non-empty literal" % len(vals))
        ctx.ok("E5", "econf_errString selects the text by its argument", es.where, "switch over %s; decided for each of the %d codes" % (p, len(vals)))
    return True


def e5(prog, ctx):
    enum = prog.enum("econf_err")
    vals = [(c["name"], c["val"]) for c in enum["enumerators"]]
    g = prog.globals.get("messages")
    if g is None:
        # the table as a function-local static of econf_errString
        from sa.facts import _subtree
        from sa.ast import GlobalVar
        es0 = prog.fn("econf_errString")
        for n0 in es0.nodes:
            if n0 is not None and n0.k == "DeclStmt":
                for d0 in n0.j.get("decls", []):
                    if d0.get("name") == "messages" and d0.get("static") and d0.get("init", -1) >= 0:
                        j0 = dict(d0)
                        j0["nodes"] = _subtree(es0.j["nodes"], d0["init"])
                        j0["init"] = 0
                        j0["is_def"] = True
                        j0["file"] = es0.file
                        g = GlobalVar(j0, es0.unit)
    if g is None and _e5_by_cases(prog, ctx, vals):
        return
    if g is None:
        raise Inconclusive("messages[] vanished")
    msgs = g.init_strings()
    n = g.init_list_len()
    dense = [v for _, v in vals] == list(range(len(vals)))
    if not dense:
        ctx.fail("E5", "error codes are dense from 0", "include/libeconf.h", "enumerator values %s" % [v for _, v in vals], key="enum-dense")
    if n == len(vals) and len(msgs) == n and all(m for m in msgs):
        ctx.ok("E5", "one message per error code", "%s:%s" % (g.unit, g.line), "%d enumerators, %d non-empty messages" % (len(vals), n))
    else:
        ctx.fail("E5", "one message per error code", "%s:%s" % (g.unit, g.line),
                 "%d enumerators but %s messages (%d non-empty): %s" % (len(vals), n, len([m for m in msgs if m]),
                                                                         "codes at the end have no text" if (n or 0) < len(vals) else "table and enum differ"),
                 key="messages-count")
    es = prog.fn("econf_errString")
    ctx.touch(es)
    cfg = es.cfg
    p = es.params[0]["name"]
    idx = [x for x in es.walk() if x.k == "ArraySubscriptExpr" and render(x.children[0]) == "messages"
           and not any(a.k == "UnaryExprOrTypeTraitExpr" for a in x.ancestors())]
    if not idx:
        ctx.fail("E5", "econf_errString indexes the table", es.where, "messages[] is not indexed", key="errstring-index")
    from rules import common as _c5
    srch = _c5.searched_message_table(prog, es)
    if srch is not None:
        if srch[0]:
            ctx.ok("E5", "econf_errString selects the text by its argument", srch[2].where, srch[1])
        else:
            ctx.fail("E5", "econf_errString selects the text by its argument", srch[2].where, srch[1], key="errstring-index")
        return
    for x in idx:
        if render(x.children[1]) != p:
            ctx.fail("E5", "econf_errString indexes the table by its argument", x.where, "index is %s" % render(x.children[1]), key="errstring-index")
            continue
        ok, cut = cfg.all_paths_cut(cfg.block_of(x), lambda lit, b, i: lit is not None and lit.kind == "lt" and render(lit.lhs) == p
                                    and lit.pol and lit.rhs.const_value() is not None and lit.rhs.const_value() <= (n or 0))
        if ok and cut:
            ctx.ok("E5", "econf_errString indexes the table by its argument under the range guard", x.where, "messages[%s] behind %s < %d" % (p, p, n))
        else:
            ctx.fail("E5", "econf_errString range guard", x.where, "messages[%s] reachable without `%s < table size`" % (p, p), key="errstring-guard")


def run(prog, ctx):
    L = parser.landmarks(prog)
    ctx.touch(L.fn)
    e1(prog, ctx, L)
    e2(prog, ctx, L)
    from rules import C06
    chain = C06.chain_functions(prog)
    before = len(ctx.obs)
    C06.g4(prog, ctx, chain)
    for ob in ctx.obs[before:]:
        if ob.rule == "G4":
            ob.rule = "E4"
    e5(prog, ctx)
    parser.blank_set_rule(prog, ctx, "E7")
    from sa.report import Ctx as _CtxH
    subh = _CtxH(ctx.prop, ctx.tier, prog)
    parser.header_and_set_rules(prog, subh, "E1", "E1x")
    ctx.obs.extend(ob for ob in subh.obs if ob.rule == "E1")
    # E8: which error a layered read reports depends on every layer being looked at: a layer without drop-in directory is passed over
    # (= C01.L20); E2: and the file parsed - the one the location names - is the one addressed (get_absolute_path, = C06.G2)
    from rules import common as _common
    from rules import C01 as _C01x, C06 as _C06x
    _common.import_obligations(ctx, prog, [_C01x.l20_absent_dropin_dir], "E8", what="scan of a drop-in directory")
    _common.import_obligations(ctx, prog, [lambda p9, c9: _C06x.abs_path_rule(p9, c9, "G2")], "E2", "the file parsed is the file named: ", what="get_absolute_path")
    # a malformed file can only be reported if it is parsed at all, and the location can only name the file the caller addressed
    # if the name is kept as found: both are rules of C01 (L18, L16), imported under this property's ids
    try:
        from sa.report import Ctx as _Ctx
        from rules import C01 as _C01
        sub = _Ctx(ctx.prop, ctx.tier, prog)
        _C01.l15_l17(prog, sub)
        _C01.l18_l19(prog, sub)
        for ob in sub.obs:
            if ob.rule == "L16":
                ob.rule = "E2"
                ob.instance = "the location names the file as it was addressed: " + ob.instance
                ctx.obs.append(ob)
            elif ob.rule == "L18":
                ob.rule = "E6"
                ob.instance = "no candidate file escapes the syntax check: " + ob.instance
                ctx.obs.append(ob)
    except Inconclusive as e:
        ctx.inconclusive("E6", "every candidate file is parsed / named as addressed", "", str(e))
    try:
        from rules import own_rules
        own_rules.c13_e3(prog, ctx)
    except ImportError:
        ctx.notes.append("E3 (failure frees and clears) waits for the ownership engine")
