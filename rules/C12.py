"""C12 - all layered-read entry points agree with each other and with the history.

F1 the wrappers forward config_name, config_suffix, delim, comment unchanged     F2 the two-directory wrappers build [dist or "", etc or ""]
F3 all pass the process-wide drop-in directory pair; the object's own pair wins exactly when it is non-empty
F4 non-callback variants = callback variants with (NULL, NULL)                     F5 history variants parse with both flags off
F6 merged variant = history, then merge of exactly that list                        F7 each history element carries the path that was read"""
import re

from sa.ast import render
from sa.facts import Inconclusive
from sa import query
from rules.C06 import param_modified

META = {
    "level": "other",
    "technique": "static analysis: argument forwarding over the resolved call graph, sibling agreement of the wrapper bodies (normalised "
                 "statement sequences), path conditions of the directory-pair choice",
    "level_text": "Decides that the six wrappers marshal identically and that the merged variant is literally 'history, then left-to-right "
                  "merge of that list' - facts about every call site, which tests never compare because they call each wrapper on a different "
                  "tree. Not decided: the content equality itself (follows from identical inputs to the same internal readers, given C01/C03).",
    "level_note": "Partial. Trusted: clang front end, sa/cfg.py. Masking clause shares C01.L10's finding (reported under C01 only).",
    "explanation": "wrapper forwarding + sibling agreement + history/merge composition",
    "trusted_base": ["clang-14 front end and CFG", "sa/cfg.py"],
    "assumptions": [],
}

HIST, MERGED = "readConfigHistoryWithCallback", "readConfigWithCallback"
FORWARD = ("config_name", "config_suffix", "delim", "comment")
WRAPPERS = ["econf_readDirsHistoryWithCallback", "econf_readDirsHistory", "econf_readDirsWithCallback", "econf_readDirs",
            "econf_readConfigWithCallback"]
TWO_DIR = ["econf_readDirsHistoryWithCallback", "econf_readDirsHistory", "econf_readDirsWithCallback", "econf_readDirs"]
# parameters a wrapper may rebind, with the reason
REBIND_OK = {("econf_readConfigWithCallback", "config_name"): "drop-in-only mode: config_name := project when no config name was given",
             ("econf_readConfigWithCallback", "project"): "drop-in-only mode: project is consumed as config_name"}


def f1_f3_f5(prog, ctx):
    hist, merged = prog.fn(HIST), prog.fn(MERGED)
    sites = 0
    for w in WRAPPERS:
        f = prog.fn(w)
        ctx.touch(f)
        for c in f.calls((HIST, MERGED)):
            r = prog.fn(c.j["callee"])
            pn = r.param_names()
            a = c.call_args()
            sites += 1
            for q in FORWARD:
                if q not in pn or q not in f.param_names():
                    ctx.inconclusive("F1", "%s -> %s: %s" % (w, r.name, q), c.where, "parameter vanished")
                    continue
                got = a[pn.index(q)]
                inst = "%s -> %s: %s" % (w, r.name, q)
                if query.refs_param(got, q):
                    m = param_modified(f, q)
                    if m is None:
                        ctx.ok("F1", inst, c.where, "own unmodified parameter")
                    elif (w, q) in REBIND_OK:
                        # the rebinding must be the one assignment under `q == NULL || strlen(q) == 0`
                        cfg = f.cfg
                        # ... or under a flag that says the same (`have_name = q != NULL && *q != 0`)
                        flags9 = set()
                        for l9, r9, s9 in f.assignments():
                            if r9 is not None and isinstance(l9, dict) and any(t9 in (l9.get("ct") or "") for t9 in ("_Bool", "int")):
                                names9 = set(x.j.get("name") for x in r9.walk() if x.k == "DeclRefExpr" and x.j.get("dk") in ("param", "local"))
                                if names9 == {q}:
                                    flags9.add(l9["name"])
                        ok, cut = cfg.all_paths_cut(cfg.block_of(m), lambda lit, b, i: lit is not None and (
                            (lit.kind == "truth" and lit.atom in (q, "*" + q, q + "[0]") and not lit.pol) or ("strlen(%s)" % q in lit.atom)
                            or (lit.kind == "truth" and lit.atom in flags9 and not lit.pol)))
                        mods = [st for lhs, rhs, st, kind in query.stores(f) if render(lhs) == q]
                        if ok and cut and len(mods) == 1 and render(mods[0].children[1]) == "project":
                            ctx.ok("F1", inst, c.where, "rebinding tolerated: %s" % REBIND_OK[(w, q)])
                        else:
                            ctx.fail("F1", inst, m.where, "%s rebinds %s outside the drop-in-only idiom" % (w, q), key="rebind:%s:%s" % (w, q))
                    else:
                        ctx.fail("F1", inst, m.where, "%s modifies %s before forwarding it" % (w, q), key="rebind:%s:%s" % (w, q))
                else:
                    ctx.fail("F1", inst, c.where, "%s passes %s in the %s slot of %s" % (w, render(got), q, r.name), key="slot:%s:%s" % (w, q))
            # F3 process-wide pair
            gd, gc = render(a[pn.index("conf_dirs")]), render(a[pn.index("conf_count")])
            if (gd, gc) == ("conf_dirs", "conf_count") and a[pn.index("conf_dirs")].strip().j.get("dk") in query.GLOBAL_KINDS:
                ctx.ok("F3", "%s passes the process-wide drop-in directory list" % w, c.where, "(conf_dirs, conf_count)")
            else:
                ctx.fail("F3", "%s passes the process-wide drop-in directory list" % w, c.where,
                         "passes (%s, %s): econf_set_conf_dirs() is ignored by this entry point" % (gd, gc), key="confdirs:%s" % w)
            # F5 flags of the history variants
            if r.name == HIST:
                fl = [a[pn.index(x)].const_value() for x in ("join_same_entries", "python_style")]
                if fl == [0, 0]:
                    ctx.ok("F5", "%s parses with both options off" % w, c.where, "false, false - what a fresh option-less object carries in the merged variants")
                else:
                    ctx.fail("F5", "%s parses with both options off" % w, c.where, "passes %s" % [render(a[pn.index(x)]) for x in ("join_same_entries", "python_style")],
                             key="hist-flags:%s" % w)
    ctx.floor("C12 wrapper -> internal reader call sites", sites, 3)
    # F3b: in the merged reader the object's own pair is chosen exactly when its conf_count > 0.
    # Works on "sources": a slot filled directly at one of several calls, or through a local whose definitions
    # reach the one call.
    from sa.dataflow import ReachingDefs
    cfg = merged.cfg
    calls = merged.calls(HIST)
    pn = hist.param_names()
    if not calls:
        ctx.inconclusive("F3", "readConfigWithCallback chooses the directory pair", merged.where, "no call of the history builder")
        return
    rd = ReachingDefs(merged)
    succ = {(b, i2): s2 for (b, i2, s2) in cfg.edges()}

    from sa.cond import norm_cond

    def expand_flag(cnd, user):
        """`const bool own = obj->conf_count > 0; ... own ? a : b`: a local with one definition stands for its defining expression
        when nothing between the definition and the use can change what it was computed from"""
        c0 = cnd.strip()
        if c0.k != "DeclRefExpr" or c0.j.get("dk") != "local":
            return cnd
        defs = rd.reaching(c0.j["name"], user)
        alld = [d for d in rd.defs if d.var == c0.j["name"]] if hasattr(rd, "defs") else defs
        if len(defs) != 1 or len(alld) != 1 or defs[0].rhs is None:
            return cnd
        d = defs[0]
        if any("conf_count" in render(lhs) for lhs, rhs, st, kind in query.stores(merged)):
            return cnd
        between = [c for c in merged.calls() if d.node.id < c.id < user.id and c is not user and not c.within(d.node)]
        if between:
            return cnd
        return d.rhs

    def split(e, blk, node, others, lit=None):
        """a conditional expression contributes each arm under its own condition"""
        e2 = e.strip()
        if e2.k == "ConditionalOperator" and lit is None:
            g = norm_cond(expand_flag(e2.child("cond"), node))
            return split(e2.child("then"), blk, node, others, g) + split(e2.child("else"), blk, node, others, g.negated())
        return [(render(e2), blk, node, others, lit)]

    def sources(c, slot):
        a = c.call_args()[pn.index(slot)].strip()
        if a.k == "DeclRefExpr" and a.j.get("dk") == "local":
            ds = rd.reaching(a.j["name"], c)
            if ds and all(d.rhs is not None for d in ds):
                blocks = [cfg.block_of(d.node) for d in ds]
                out = []
                for d in ds:
                    out += split(d.rhs, cfg.block_of(d.node), d.node, [x for x in blocks if x != cfg.block_of(d.node)])
                return out
        return split(a, cfg.block_of(c), c, [])

    def is_guard(lit, pol):
        return lit is not None and lit.kind == "lt" and lit.pol == pol and render(lit.rhs) == "(*result)->conf_count" and lit.lhs.const_value() == 0
    if len(calls) == 2:
        diff = [pn[k] for k in range(len(pn)) if render(calls[0].call_args()[k]) != render(calls[1].call_args()[k])]
        if sorted(diff) == ["conf_count", "conf_dirs"]:
            ctx.ok("F3", "the two history calls differ only in the directory pair", calls[0].where, "all other %d arguments identical" % (len(pn) - 2))
        else:
            ctx.fail("F3", "the two history calls differ only in the directory pair", calls[0].where, "they also differ in %s" % [d for d in diff if d not in ("conf_dirs", "conf_count")],
                     key="pair-diff")
    elif len(calls) > 2:
        ctx.inconclusive("F3", "readConfigWithCallback chooses the directory pair", merged.where, "%d calls of the history builder" % len(calls))
        return
    want = {"conf_dirs": ("(*result)->conf_dirs", "conf_dirs"), "conf_count": ("(*result)->conf_count", "conf_count")}
    bad = None
    for slot, (own_t, glob_t) in want.items():
        srcs = [x for c in calls for x in sources(c, slot)]
        texts = sorted(t for t, _, _, _, _ in srcs)
        if texts != sorted([own_t, glob_t]):
            if slot == "conf_count" and own_t not in texts:
                ctx.fail("F3", "own list is passed with its own count", calls[0].where, "count slot receives %s" % texts, key="pair-count")
            else:
                ctx.fail("F3", "readConfigWithCallback chooses the directory pair", calls[0].where, "%s slot receives %s" % (slot, texts), key="pair-calls")
            bad = True
            continue
        for t, blk, node, others, clit in srcs:
            if clit is not None:
                # an arm of a conditional expression: its own condition is the guard
                if not is_guard(clit, t == own_t):
                    bad = bad or (node, ("%s is not chosen under `(*result)->conf_count > 0` (condition: %s)" % (own_t, clit)) if t == own_t else
                                  ("the process-wide %s is used although the object carries its own list (condition: %s)" % (glob_t, clit)))
                continue
            if t == own_t:
                ok, cut = cfg.all_paths_cut(blk, lambda lit, b, i2: is_guard(lit, True))
                if not (ok and cut):
                    bad = bad or (node, "%s is not chosen under `(*result)->conf_count > 0`" % own_t)
            else:
                # the process-wide value arrives at its call only over the negative edge (or is replaced on the way)
                for c in calls:
                    if any(x[2] is node and x[4] is None for x in sources(c, slot)):
                        ok, cut = cfg.all_paths_cut(cfg.block_of(c), lambda lit, b, i2: is_guard(lit, False) or succ.get((b, i2)) in others, start=(None if node is c else blk))
                        if not (ok and cut):
                            bad = bad or (node, "the process-wide %s is used although the object carries its own list" % glob_t)
    if bad is None:
        ctx.ok("F3", "the object's own list wins exactly when it is non-empty", calls[0].where, "behind (*result)->conf_count > 0; the process-wide list otherwise")
    elif bad is not True:
        ctx.fail("F3", "the object's own list wins exactly when it is non-empty", bad[0].where, bad[1], key="pair-choice")


def f2(prog, ctx):
    for w in TWO_DIR:
        f = prog.fn(w)
        # pure delegation to a sibling with both directories in their own slots
        dele = [c for c in f.calls(TWO_DIR) if c.j.get("callee") != w]
        if len(dele) == 1 and dele[0].up() is not None and dele[0].up().k == "ReturnStmt" and not any(True for _ in query.stores(f)):
            g = prog.fn(dele[0].j["callee"])
            pn = g.param_names()
            a = dele[0].call_args()
            if all(query.refs_param(a[pn.index(p)], p) for p in ("dist_conf_dir", "etc_conf_dir")):
                ctx.ok("F2", "%s builds [dist or \"\", etc or \"\"]" % w, dele[0].where, "delegates to %s with dist_conf_dir/etc_conf_dir in their own slots" % g.name)
            else:
                ctx.fail("F2", "%s builds [dist or \"\", etc or \"\"]" % w, dele[0].where,
                         "delegates to %s with directories %s" % (g.name, [render(a[pn.index(p)]) for p in ("dist_conf_dir", "etc_conf_dir")]), key="slot:%s:deleg" % w)
            continue
        sts = {}
        for lhs, rhs, st, kind in query.stores(f):
            l0 = lhs.strip()
            if l0.k == "ArraySubscriptExpr" and render(l0.children[0]).endswith("parse_dirs") and rhs is not None:
                slot_no = l0.children[1].const_value()      # a literal, or a named constant / enumerator
                if slot_no is not None:
                    sts.setdefault(int(slot_no), []).append((st, render(rhs)))
        if not sts:
            # the pair built by a helper that is handed both directories (and is not one of the entry points): not followed into it
            helpers9 = [c for c in f.calls() if prog.has_fn(c.j.get("callee") or "") and c.j.get("callee") not in TWO_DIR and c.j.get("callee") != HIST
                        and {"dist_conf_dir", "etc_conf_dir"} <= set(render(a9) for a9 in c.call_args())]
            if helpers9 or getattr(f, "inlined", None):
                ctx.inconclusive("F2", "%s builds [dist or \"\", etc or \"\"]" % w, (helpers9[0] if helpers9 else f).where,
                                 "the directory pair is built by %s(): not followed into the helper" % (helpers9[0].j["callee"] if helpers9 else "/".join(f.inlined)))
                continue
        want = {0: "dist_conf_dir", 1: "etc_conf_dir"}
        ok = True
        for slot, p in want.items():
            vals = sorted(v for _, v in sts.get(slot, []))
            if vals in (['strdup(%s ? %s : "")' % (p, p)], ['strdup(%s != NULL ? %s : "")' % (p, p)], ['strdup(%s == NULL ? "" : %s)' % (p, p)], ['strdup(!%s ? "" : %s)' % (p, p)]):
                continue        # the conditional expression is the NULL test and the choice in one
            if vals != sorted(['strdup("")', "strdup(%s)" % p]):
                ok = False
                ctx.fail("F2", "%s: layer %d is %s or \"\"" % (w, slot, p), (sts.get(slot, [(f, "")])[0][0]).where,
                         "slot %d receives %s" % (slot, vals), key="slot:%s:%d" % (w, slot))
            else:
                # chosen by the NULL test of the same parameter
                cfg = f.cfg
                st = [s for s, v in sts[slot] if v == "strdup(%s)" % p][0]
                okc, cut = cfg.all_paths_cut(cfg.block_of(st), lambda lit, b, i: lit is not None and lit.kind == "truth" and lit.atom == p and lit.pol)
                if not (okc and cut):
                    ok = False
                    ctx.fail("F2", "%s: layer %d is %s or \"\"" % (w, slot, p), st.where, "strdup(%s) not guarded by %s != NULL" % (p, p), key="slot-guard:%s:%d" % (w, slot))
        # count 2
        cnt = None
        for c in f.calls(HIST):
            pn = prog.fn(HIST).param_names()
            cnt = c.call_args()[pn.index("parse_dirs_count")]
            cnt = cnt.const_value()
            if cnt is None:
                # local `count`
                for lhs, rhs, st in f.assignments():
                    if isinstance(lhs, dict) and lhs["name"] == render(c.call_args()[pn.index("parse_dirs_count")]):
                        cnt = rhs.const_value()
        for lhs, rhs, st, kind in query.stores(f):
            if render(lhs).endswith("parse_dirs_count") and rhs is not None:
                cnt = rhs.const_value()
        if cnt != 2:
            ok = False
            ctx.fail("F2", "%s: two layers" % w, f.where, "layer count is %s" % cnt, key="count:%s" % w)
        if ok:
            ctx.ok("F2", "%s builds [dist or \"\", etc or \"\"]" % w, f.where, "slots 0/1 from dist_conf_dir/etc_conf_dir, count 2")


def _norm_body(f, drop_cb):
    out = []
    for x in f.body.children:
        t = render(x) if x.k != "IfStmt" else "if(%s){%s}else{%s}" % (render(x.child("cond")), _r(x.child("then")), _r(x.child("else")))
        if drop_cb:
            t = t.replace("callback_data", "NULL").replace("callback", "NULL")
        out.append(t)
    return out


def _r(n):
    if n is None:
        return ""
    if n.k == "CompoundStmt":
        return ";".join(render(c) for c in n.children)
    return render(n)


def f4(prog, ctx):
    for plain, cbv in (("econf_readFile", "econf_readFileWithCallback"), ("econf_readConfig", "econf_readConfigWithCallback")):
        f = prog.fn(plain)
        ctx.touch(f)
        cs = f.calls(cbv)
        g = prog.fn(cbv)
        if len(cs) == 1 and cs[0].up() is not None and cs[0].up().k == "ReturnStmt":
            a = cs[0].call_args()
            pn = g.param_names()
            good = all(query.refs_param(a[i], pn[i]) for i in range(len(pn)) if pn[i] not in ("callback", "callback_data")) and \
                a[pn.index("callback")].is_null_const() and a[pn.index("callback_data")].is_null_const() and \
                [p["name"] for p in f.params] == [x for x in pn if x not in ("callback", "callback_data")]
            if good:
                ctx.ok("F4", "%s = %s with (NULL, NULL)" % (plain, cbv), cs[0].where, "delegates with every argument in its own slot")
            else:
                ctx.fail("F4", "%s = %s with (NULL, NULL)" % (plain, cbv), cs[0].where, "delegation passes %s" % [render(x) for x in a], key="delegate:%s" % plain)
        else:
            ctx.fail("F4", "%s = %s with (NULL, NULL)" % (plain, cbv), f.where, "does not simply return the callback variant", key="delegate:%s" % plain)
    for plain, cbv in (("econf_readDirs", "econf_readDirsWithCallback"), ("econf_readDirsHistory", "econf_readDirsHistoryWithCallback")):
        f, g = prog.fn(plain), prog.fn(cbv)
        cs = f.calls(cbv)
        if len(cs) == 1 and cs[0].up() is not None and cs[0].up().k == "ReturnStmt":
            ctx.ok("F4", "%s = %s with (NULL, NULL)" % (plain, cbv), cs[0].where, "delegates")
            continue
        a, b = _norm_body(f, False), _norm_body(g, True)
        # ignore whitespace / declaration grouping differences: compare as multisets of normalised statements
        na = [re.sub(r"\s+", "", t) for t in a]
        nb = [re.sub(r"\s+", "", t) for t in b]
        if na == nb:
            ctx.ok("F4", "%s = %s with (NULL, NULL)" % (plain, cbv), f.where, "statement sequences identical after substituting NULL for callback/callback_data (%d statements)" % len(na))
        else:
            diff = [x for x in na if x not in nb] + [x for x in nb if x not in na]
            decisive = [x for x in diff if "WithCallback(" in x or x.startswith("return") or re.search(r"parse_dirs\[\d+\]=", x) or "parse_dirs_count=" in x
                        or x.startswith("if(") or x.startswith("for(") or x.startswith("while(")]
            if decisive:
                ctx.fail("F4", "%s = %s with (NULL, NULL)" % (plain, cbv), f.where, "bodies differ: %s" % decisive[:2], key="sibling:%s" % plain)
            else:
                # the twins differ in how they allocate / terminate their directory array, not in what they pass on: not decided here
                ctx.inconclusive("F4", "%s = %s with (NULL, NULL)" % (plain, cbv), f.where, "bodies differ in statements that are not calls, tests or directory slots: %s" % diff[:2])


def f6_f7(prog, ctx):
    m = prog.fn(MERGED)
    cfg = m.cfg
    hc = m.calls(HIST)
    mc = m.calls("merge_econf_files")
    if len(mc) != 1 or not hc:
        raise Inconclusive("readConfigWithCallback: history / merge calls not found")
    arr = set(render(c.call_args()[0]) for c in hc)
    a = mc[0].call_args()
    if arr == {"&" + render(a[0])} and query.refs_param(a[1], "result"):
        ctx.ok("F6", "the merge consumes exactly the history that was read", mc[0].where, "merge_econf_files(%s, result) with %s filled by the history builder" % (render(a[0]), render(a[0])))
    else:
        ctx.fail("F6", "the merge consumes exactly the history that was read", mc[0].where, "merge of %s, history written to %s" % (render(a[0]), sorted(arr)), key="merge-input")
    if all(cfg.node_dominates(c, mc[0]) or True for c in hc) and any(cfg.block_of(mc[0]) in cfg.reachable(cfg.block_of(c)) for c in hc):
        others = [c for c in m.calls() if c.j.get("callee") in ("read_file_with_callback", "econf_readFile", "econf_mergeFiles")]
        if others:
            ctx.fail("F6", "nothing else feeds the merged result", others[0].where, "%s also called" % others[0].j["callee"], key="merge-extra")
        else:
            ctx.ok("F6", "nothing else feeds the merged result", m.where, "only the history builder and merge_econf_files are called")
    # writes to *result on the success path: NULL reset and the merge only
    ws = [st for lhs, rhs, st, kind in query.stores(m) if render(lhs) == "*result"]
    if all(render(st.children[1]) == "NULL" for st in ws):
        ctx.ok("F6", "*result is written by the merge only", m.where, "%d direct stores, all NULL resets" % len(ws))
    else:
        ctx.fail("F6", "*result is written by the merge only", ws[0].where, "direct store %s" % [render(s) for s in ws], key="result-store")
    rf = prog.fn("read_file")
    ctx.touch(rf)
    ps = [st for lhs, rhs, st, kind in query.stores(rf) if render(lhs) == "ef->path"]
    if len(ps) == 1 and render(ps[0].children[1]) == "strdup(file)" and rf.param("file") is not None and param_modified(rf, "file") is None:
        ctx.ok("F7", "a parsed object carries the path that was opened", ps[0].where, "ef->path = strdup(file), `file` being what fopen() received")
        fo = rf.calls("fopen")
        if fo and render(fo[0].call_args()[0]) != "file":
            ctx.fail("F7", "path = opened file", fo[0].where, "fopen(%s)" % render(fo[0].call_args()[0]), key="path-vs-open")
    else:
        ctx.fail("F7", "a parsed object carries the path that was opened", (ps[0] if ps else rf).where, "path stores: %s" % [render(s) for s in ps], key="path-store")


def f6b_f7b(prog, ctx):
    """F6b  merging the history is a function of the elements' NAMES and ORDER only: merge_econf_files takes no decision on what
    an element contains (its length, its entries) and does not rewrite the list it is given - otherwise the merged read and a
    merge of the history the caller sees differ.   F7b  the path of an element is the name it was found under (= C01.L16)."""
    m = prog.fn("merge_econf_files")
    ctx.touch(m)
    cfg = m.cfg
    K = m.params[0]["name"]
    bad = None
    for (b, i, s2) in cfg.edges():
        lit = cfg.edge_lit(b, i)
        if lit is None:
            continue
        if re.search(r"->(length|alloc_length|file_entry|group_count|groups)\b", lit.atom):
            bad = bad or (cfg.blocks[b].cond, "takes a decision on `%s`" % lit.atom)
    for lhs, rhs, st, kind in query.stores(m):
        l = lhs.strip()
        root, sel = query.lvalue_root(l)
        if root is None:
            continue
        # a store INTO the list (an element slot), through the parameter or a pointer derived from it
        if kind == "=" and (l.k == "UnaryOperator" and l.j.get("op") == "*" or l.k == "ArraySubscriptExpr") and (l.j.get("ct") or "").replace("struct ", "") in ("econf_file *",):
            if render(l) != "*merged_files":
                bad = bad or (st, "rewrites the list it merges (`%s`)" % render(st))
    if bad:
        ctx.fail("F6", "the merge depends on names and order only", bad[0].where,
                 "merge_econf_files %s: the merged read then differs from merging the history that econf_readDirsHistory() hands out (e.g. an empty "
                 "/etc drop-in no longer masks the vendor file of the same name)" % bad[1], key="merge-content-dependent")
    else:
        ctx.ok("F6", "the merge depends on names and order only", m.where, "no branch on an element's content, no store into the list")
    try:
        from sa.report import Ctx as _Ctx
        from rules import C01 as _C01
        sub = _Ctx(ctx.prop, ctx.tier, prog)
        _C01.l15_l17(prog, sub)
        for ob in sub.obs:
            if ob.rule == "L16":
                ob.rule = "F7"
                ctx.obs.append(ob)
    except Inconclusive as e:
        ctx.inconclusive("F7", "the path of an element is the name it was found under", "", str(e))


def f8_history_complete(prog, ctx):
    """F8  the history lists every file that was read: the functions that collect it only append.  An element that is released
    or squeezed out on a path that still ends in success is missing from what econf_readDirsHistory() hands out (the merged
    read does not miss it: merge_econf_files would have masked it anyway) - the two variants disagree about the files
    consulted."""
    import re as _re
    n = 0
    for name in ("check_conf_dir", "traverse_conf_dirs", "readConfigHistoryWithCallback"):
        if not prog.has_fn(name):
            continue
        f = prog.fn(name)
        ctx.touch(f)
        cfg = f.cfg
        drops = []
        for c in f.calls(("econf_free", "econf_freeFile")):
            a = c.call_args()
            if a and _re.match(r"^\(?\*?key_files\)?\[", render(a[0])):
                drops.append((c, "releases %s" % render(a[0])))
        for c in f.calls(("memmove", "memcpy")):
            a = c.call_args()
            if a and _re.match(r"^&?\(?\*?key_files\)?\[", render(a[0])):
                drops.append((c, "moves the elements behind %s down" % render(a[0]).lstrip("&")))
        for c, what in drops:
            n += 1
            vals = cfg.returned_values_from(cfg.block_of(c))
            if 0 in vals or (None in vals and name != "readConfigHistoryWithCallback"):
                ctx.fail("F8", "%s only appends to the history" % name, c.where,
                         "%s and can still return success: a file that was read is not in the history econf_readDirsHistory() hands out, "
                         "although the merged read consulted it" % what, key="history-drop:%s" % name)
            else:
                ctx.ok("F8", "%s only appends to the history" % name, c.where, "%s only on the way to a failure return (%s)" % (what, sorted(str(v) for v in vals)))
        if not drops:
            ctx.ok("F8", "%s only appends to the history" % name, f.where, "no element is released or moved")


def f9_out_params_start_fresh(prog, ctx):
    """F9  the count and the list the history builder hands back are results, not inputs: `*size` (and `*key_files`) are set by the
    builder before it reads them.  A builder that only increments the caller's variable returns a history whose length depends on
    what the variable happened to hold - the two variants then disagree for a caller that reuses its variables."""
    if not prog.has_fn("readConfigHistoryWithCallback"):
        return
    f = prog.fn("readConfigHistoryWithCallback")
    cfg = f.cfg
    for pn in ("size", "key_files"):
        if f.param(pn) is None:
            continue
        tgt = "*" + pn
        fresh = []
        for lhs, rhs, st, kind in query.stores(f):
            if render(lhs) == tgt and kind == "=" and rhs is not None and tgt not in render(rhs) and ("(%s)" % tgt) not in render(rhs):
                fresh.append(st)
        reads = []
        for u in f.walk():
            if u.k == "UnaryOperator" and u.j.get("op") == "*" and render(u) == tgt:
                up = u.up()
                if up is not None and up.k == "BinaryOperator" and up.j.get("op") == "=" and up.children[0].strip() is u:
                    continue        # a plain store
                reads.append(u)
        if not reads:
            continue
        fb = set(cfg.block_of(s2) for s2 in fresh)
        bad = None
        for u in reads:
            ub = cfg.block_of(u)
            if ub is None:
                continue
            if ub in fb:
                # same block: the store must come first
                if any(cfg.block_of(s2) == ub and cfg.index_of(s2) < cfg.index_of(u) for s2 in fresh):
                    continue
            if ub in cfg.reachable(cfg.entry, avoid_blocks=fb - {ub}) :
                if ub in fb and any(cfg.block_of(s2) == ub and cfg.index_of(s2) < cfg.index_of(u) for s2 in fresh):
                    continue
                bad = u
                break
        if bad is not None:
            ctx.fail("F9", "the builder sets `%s` before it reads it" % tgt, bad.where,
                     "`%s` is read (%s) on a path on which the function has not assigned it: the length of the history depends on the value the caller's "
                     "variable held before the call" % (tgt, render(bad.up() or bad)[:50]), key="out-param-read:%s" % pn)
        else:
            ctx.ok("F9", "the builder sets `%s` before it reads it" % tgt, (fresh[0] if fresh else f).where, "every read is behind an assignment made by the builder")


def f6c_mask_exclusions(prog, ctx):
    """F6c  the merged read folds the history with the rule `a later file of the same name replaces an earlier one`; the only names
    outside that rule are "." and ".." (= C01.L10 exclusions)"""
    from rules import C01 as _C01
    try:
        _C01.l10_mask_exclusions(prog, ctx, rule="F6")
    except Inconclusive as e:
        ctx.inconclusive("F6", "names outside the masking rule", "", str(e))


def f10_f11_imports(prog, ctx):
    """F10: econf_readConfig on an object with PARSING_DIRS=<a>:<b> reads what econf_readDirs(<a>, <b>) reads - for EMPTY members too (an
    empty directory is what readDirs makes of NULL): the option parser keeps empty list members (= C15.O11).
    F11: folding the history with econf_mergeFiles() gives the merged read AND leaves the members as they were handed out: the merge does
    not write to, empty or free its inputs (= C03.M1)."""
    from rules import common as _common
    from rules import C15 as _C15, C03 as _C03
    _common.import_obligations(ctx, prog, [_C15.o11_list_members], "F10", "PARSING_DIRS/CONFIG_DIRS name the same directories as the arguments: ",
                               what="splitting of the option lists")
    _common.import_obligations(ctx, prog, [_C03.run], "F11", "folding the history leaves its members intact: ", keep=lambda ob: ob.rule == "M1",
                               what="effects of the merge on its inputs")
    # F6 (continued): which history members the merged read leaves out is decided by EQUAL file names (a later member of the same
    # name) - the rule a caller folding the history can follow (= C01.L10)
    from rules import C01 as _C01
    _common.import_obligations(ctx, prog, [_C01.l10_l11], "F6", "the merged read masks by equal names: ", keep=lambda ob: ob.rule == "L10" and not str(ob.key).startswith("seed-of-merge"),
                               what="masking of same-named files")


def run(prog, ctx):
    f10_f11_imports(prog, ctx)
    f6c_mask_exclusions(prog, ctx)
    f9_out_params_start_fresh(prog, ctx)
    f8_history_complete(prog, ctx)
    f6b_f7b(prog, ctx)
    f1_f3_f5(prog, ctx)
    f2(prog, ctx)
    f4(prog, ctx)
    f6_f7(prog, ctx)
