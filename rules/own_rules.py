"""Ownership obligations (E-own) shared by C20 (H1/H2), C06.G5, C13.E3 and C15.O4."""
from sa.ast import render
from sa.facts import Inconclusive
from sa import query
from sa.own import OwnAnalysis, Summary, NULL, UNK


def _opts_outcomes(call):
    a = call.call_args()
    lit = a[1].string_value() if len(a) > 1 else None
    if lit == "":
        return [("ok", {0: "new"})]
    return [("ok", {0: "new"}), ("fail", {0: "new"})]


SUMMARIES = {
    "econf_newKeyFile_with_options": Summary(_opts_outcomes),
    "econf_newKeyFile": Summary([("ok", {0: "new"})]),
    "econf_newIniFile": Summary([("ok", {0: "new"})]),
    # gate: early returns keep the object, the parse-error path frees it and clears the pointer
    "read_file_with_callback": Summary([("ok", {0: "keep"}), ("fail", {0: "keep"}), ("fail", {0: "null"})], needs=(0,)),
    "readConfigHistoryWithCallback": Summary([("ok", {0: "new"}), ("fail", {0: "null"}), ("fail", {0: "keep"})]),
    "econf_mergeFiles": Summary([("ok", {0: "new"}), ("fail", {0: "null"})]),
    "merge_econf_files": Summary([("ok", {1: "new"}), ("fail", {1: "keep"})]),
    "readConfigWithCallback": Summary([("ok", {0: "replace"}), ("fail", {0: "keep"})]),
    "getStringValueNum": Summary([("ok", {2: "new?"})], ret_err=False),
    "getCommentsNum": Summary([("ok", {2: "new?", 3: "new?"})], ret_err=False),
    "getPath": Summary([("ok", {1: "new?"})], ret_err=False),
    "econf_getStringValue": Summary([("ok", {3: "new?"}), ("fail", {3: "keep"})]),
    "econf_getKeys": Summary([("ok", {3: "new"}), ("fail", {3: "keep"})]),
    "econf_getGroups": Summary([("ok", {2: "new"}), ("fail", {2: "keep"})]),
    "econf_getExtValue": Summary([("ok", {3: "new"}), ("fail", {3: "keep"})]),
    "econf_readFile": Summary([("ok", {0: "new"}), ("fail", {0: "null"})]),
    "econf_readDirs": Summary([("ok", {0: "new"}), ("fail", {0: "new"}), ("fail", {0: "null"})]),
}
FRESH_FUNCS = ("combine_strings", "get_absolute_path", "addbrackets", "econf_getPath")
MAYBE_NULL = ("get_absolute_path", "addbrackets")

# functions under the typestate (H1).  The merge loop is decided structurally (aliases of array elements).
LIB_FUNCS = ["read_file_with_callback", "read_file", "econf_readFileWithCallback", "readConfigHistoryWithCallback",
             "readConfigWithCallback", "check_conf_dir", "traverse_conf_dirs", "econf_readConfigWithCallback",
             "econf_readDirsHistoryWithCallback", "econf_readDirsHistory", "econf_readDirsWithCallback", "econf_readDirs",
             "econf_readFile", "econf_readConfig", "econf_newKeyFile", "econf_newKeyFile_with_options", "econf_mergeFiles",
             "econf_getGroups", "econf_getKeys", "econf_getExtValue", "econf_set_conf_dirs", "econf_writeFile",
             "get_absolute_path", "combine_strings", "addbrackets", "getBoolValueNum", "setBoolValueNum", "setStringValueNum",
             "find_key", "new_key", "store", "join_same_entries"]
TRACK_FIELDS = {"econf_newKeyFile_with_options": ("parse_dirs", "conf_dirs", "root_prefix"),
                "econf_readConfigWithCallback": ("conf_dirs", "parse_dirs"),
                "econf_readDirsWithCallback": ("parse_dirs",), "econf_readDirs": ("parse_dirs",)}

_CACHE = {}


_DERIVED = {}


def summaries_for(prog):
    """the frozen table plus rows derived for library functions the table does not know: a new internal constructor
    (`econf_err new_parse_file(econf_file **kf, ...)` that wraps econf_newKeyFile_with_options() and sets two flags) gets the row its own
    exit states show - per return class, what stands behind each `econf_file **` parameter: a new object, NULL, or what was there."""
    k = id(prog)
    if k in _DERIVED:
        return _DERIVED[k]
    table = dict(SUMMARIES)
    _DERIVED[k] = table
    for name, fn in sorted(prog.functions.items()):
        if name in table or fn.body is None or not fn.j.get("cfg") or getattr(fn, "is_inlined_helper", False) or name in LIB_FUNCS:
            continue
        pp = [i for i, q in enumerate(fn.params) if (q.get("ct") or "").replace("struct ", "") in ("econf_file **",)]
        if not pp or (fn.j.get("ret", {}) or {}).get("ct") not in ("enum econf_err", "econf_err"):
            continue
        try:
            a = OwnAnalysis(prog, fn, table, FRESH_FUNCS, MAYBE_NULL, ())
            a.run()
        except Exception:
            continue
        if a.truncated or a.findings:
            continue
        outcomes, ok = [], True
        for ret, st in a.exit_states:
            const = query.returned_constant(ret) if ret is not None else None
            if const == "ECONF_NOMEM":
                continue
            if const in ("ECONF_SUCCESS", 0):
                cls = "ok"
            elif const is not None:
                cls = "fail"
            else:
                v = render(ret.children[0]) if ret is not None and ret.children else None
                cls = "ok" if st.facts.get(v) == "Z" else "fail"
            eff = {}
            for i in pp:
                obj = st.env.get("*" + fn.params[i]["name"])
                if obj == NULL:
                    eff[i] = "null"
                elif obj == "caller:" + fn.params[i]["name"]:
                    eff[i] = "keep"
                elif obj not in (None, UNK) and st.heap.get(obj) in ("O", "C"):
                    eff[i] = "new"
                else:
                    ok = False
            if (cls, eff) not in outcomes:
                outcomes.append((cls, eff))
        if ok and outcomes:
            table[name] = Summary(outcomes)
    return table


def analyse(prog, name, util=False):
    key = (id(prog), name, util)
    if key in _CACHE:
        return _CACHE[key]
    f = prog.fn(name, util=util)
    a = OwnAnalysis(prog, f, summaries_for(prog), FRESH_FUNCS, MAYBE_NULL, TRACK_FIELDS.get(name, ()))
    a.run()
    _CACHE[key] = a
    return a


def accessor_macros(prog):
    return sorted(n for n in prog.entry_points()
                  if (n.startswith("econf_get") or n.startswith("econf_set")) and n.endswith("Value")
                  and prog.functions[n].from_macro)


KIND_TEXT = {
    "leak": "allocation not released on this exit",
    "leak-by-overwrite": "owning pointer overwritten without release",
    "double-free": "released twice",
    "use-after-free": "used after release",
    "free-after-move": "released after ownership was handed over",
    "dangling-out-pointer": "out-pointer left pointing to freed memory",
    "free-of-borrowed": "memory released that the caller still owns",
    "null-object": "a released object is handed on",
}


def report(ctx, rule, name, a, only_kinds=None, skip_kinds=()):
    """turn the findings of one function into obligations"""
    ctx.touch(a.fn)
    if a.truncated:
        ctx.inconclusive(rule, "ownership in %s" % name, a.fn.where, "state space truncated")
        return 0
    n = 0
    for k, f in sorted(a.findings.items()):
        if only_kinds is not None and f.kind not in only_kinds:
            continue
        if f.kind in skip_kinds:
            continue
        n += 1
        ctx.fail(rule, "%s: %s" % (name, KIND_TEXT.get(f.kind, f.kind)), f.node.where, f.detail, key=f.key, path=f.path)
    if n == 0:
        exits = len(a.exit_states)
        ctx.ok(rule, "ownership in %s" % name, a.fn.where,
               "%d exit states explored: every allocation released exactly once or handed over; no use after free" % exits)
    return n


def rederive_gate_summary(prog, ctx, rule):
    """the frozen summary row of the gate is re-derived from the gate's own exit states"""
    a = analyse(prog, "read_file_with_callback")
    seen = set()
    for ret, st in a.exit_states:
        const = query.returned_constant(ret) if ret is not None else None
        if const == "ECONF_NOMEM":
            continue
        if const in ("ECONF_SUCCESS", 0):
            cls = "ok"
        elif const is not None:
            cls = "fail"
        else:
            v = render(ret.children[0]) if ret is not None and ret.children else None
            f = st.facts.get(v)
            cls = "ok" if f == "Z" else "fail"
        obj = st.env.get("*key_file")
        if obj == NULL:
            eff = "null"
        elif obj not in (None, UNK) and st.heap.get(obj) == "C":
            eff = "keep"
        elif obj not in (None, UNK) and st.heap.get(obj) == "F":
            eff = "dangling"
        else:
            eff = "other"
        seen.add((cls, eff))
    table = set((cls, eff[0]) for cls, eff in SUMMARIES["read_file_with_callback"].outcomes)
    if seen == table:
        ctx.ok(rule, "summary of read_file_with_callback re-derived", a.fn.where, "exit states %s match the summary row" % sorted(seen))
    elif ("fail", "dangling") in seen or ("ok", "dangling") in seen:
        pass      # reported as dangling-out-pointer by the typestate itself
    else:
        ctx.inconclusive(rule, "summary of read_file_with_callback", a.fn.where,
                         "exit states %s differ from the summary row %s (summary stale)" % (sorted(seen), sorted(table)))


# ---- structural rules around the history array and the merge pipeline --------------------------------

def history_array_rules(prog, ctx, rule):
    """array-with-count idiom: every free of the history array / scandir array is preceded by the release of
    its elements; every object entering the history carries the pipeline's ownership flag"""
    # (1) scandir array in check_conf_dir: each element freed on every way round the loop, or in the bail-out loop
    f = prog.fn("check_conf_dir")
    ctx.touch(f)
    cfg = f.cfg
    sc = [c for c in f.calls("scandir")]
    if len(sc) != 1:
        raise Inconclusive("check_conf_dir: scandir call not found")
    a1 = sc[0].call_args()[1].strip()
    de = render(a1.children[0]) if a1.k == "UnaryOperator" else None
    loops = [n for n in f.walk() if n.k == "ForStmt"]
    main = [l for l in loops if not any(x.k == "ForStmt" for x in l.ancestors())]
    if de is None or len(main) != 1:
        raise Inconclusive("check_conf_dir: loop over the scandir result not recognised")
    main = main[0]
    hb = cfg.loop_header(main)
    body = cfg.natural_loop(hb)
    frees_elem = [c for c in f.calls("free") if c.call_args() and render(c.call_args()[0]).startswith(de + "[")]
    frees_arr = [c for c in f.calls("free") if c.call_args() and render(c.call_args()[0]) == de]
    inner_free_blocks = set(cfg.block_of(c) for c in frees_elem)
    # every back edge of the main loop is reached only through a block that frees de[i]
    cond = main.child("cond")
    ivar = None
    inc = main.child("inc")
    if inc is not None:
        for x in inc.walk():
            if x.k == "DeclRefExpr":
                ivar = x.j["name"]
    same_iter_free = [c for c in frees_elem if render(c.call_args()[0]) == "%s[%s]" % (de, ivar) and not any(
        a.k == "ForStmt" and a is not main for a in c.ancestors())]
    if not same_iter_free:
        ctx.fail(rule, "check_conf_dir releases every directory entry", main.where,
                 "no free(%s[%s]) in the loop over the scandir result" % (de, ivar), key="dirent-leak")
    else:
        fb = cfg.block_of(same_iter_free[0])
        fbs = [cfg.block_of(c9) for c9 in same_iter_free]        # any of the free(de[i]) statements will do
        back = [(b, i) for (b, i, s) in cfg.back_edges() if s == hb]
        incb = [b for b in cfg.blocks.values() if inc is not None and any(e is inc or e.within(inc) for e in b.elems)]
        target = incb[0].id if incb else hb
        # all paths from the loop body entry to the increment pass the free block
        body_entry = cfg.loop_body_entry(main)
        reach = cfg.reachable(body_entry, avoid_blocks=fbs + [hb])
        if target in reach:
            wp = cfg.witness_path(target, start=body_entry, avoid_blocks=fbs + [hb])
            ctx.fail(rule, "check_conf_dir releases every directory entry", same_iter_free[0].where,
                     "an iteration can reach the next one without free(%s[%s]): that entry leaks" % (de, ivar), key="dirent-leak",
                     path=cfg.describe_path(wp))
        else:
            ctx.ok(rule, "check_conf_dir releases every directory entry", same_iter_free[0].where,
                   "every way round the loop passes free(%s[%s])" % (de, ivar))
    # early returns inside the loop: preceded by a loop freeing the remaining entries and the array
    for r in f.returns():
        if not r.within(main):
            continue
        if query.returned_constant(r) == "ECONF_NOMEM" or (r.children and r.children[0].strip().k == "DeclRefExpr" and False):
            continue
        rb = cfg.block_of(r)
        # OOM guard: return of the error of econf_newKeyFile_with_options("") is an allocation failure
        doms = [c for c in frees_arr if cfg.node_dominates(c, r)]
        bail = [l for l in loops if l is not main and l.within(main) and any(c.within(l) for c in frees_elem)
                and cfg.node_dominates(l, r)]
        # loop statement nodes are not CFG elements; use their cond
        bail = [l for l in loops if l is not main and l.within(main) and any(c.within(l) for c in frees_elem)
                and l.child("cond") is not None and cfg.node_dominates(l.child("cond"), r)]
        newfail = [c for c in f.calls("econf_newKeyFile_with_options") if cfg.node_dominates(c, r) and
                   any(render(x) for x in [r.children[0]] if r.children)]
        guard_is_alloc = False
        for anc in r.ancestors():
            if anc.k == "IfStmt" and anc.child("cond") is not None and any(
                    x.k == "CallExpr" and x.j.get("callee") == "econf_newKeyFile_with_options" and len(x.call_args()) > 1
                    and x.call_args()[1].string_value() == "" for x in anc.child("cond").walk()) and r.within(anc.child("then")):
                guard_is_alloc = True
        if guard_is_alloc:
            ctx.ok(rule, "early return in the drop-in loop (%s)" % render(r), r.where, "only on allocation failure of the per-file object (outside the fault list)")
        elif doms and bail:
            ctx.ok(rule, "early return in the drop-in loop releases the directory listing", r.where,
                   "dominated by a loop freeing the remaining entries and by free(%s)" % de)
        else:
            ctx.fail(rule, "early return in the drop-in loop releases the directory listing", r.where,
                     "return without releasing %s" % ("the remaining entries" if doms else "the scandir array"), key="dirent-leak-return")
    # the bail-out loops start with the entry of the current round: its own free(de[i]) stands at the end of the round and has not run yet
    from sa import loops as _loops9
    for l9 in loops:
        if l9 is main or not l9.within(main) or not any(c9.within(l9) for c9 in frees_elem):
            continue
        sh9 = _loops9.for_shape(l9)
        if not sh9.ok or ivar is None:
            continue
        already = any(cfg.node_dominates(c9, l9.child("cond")) for c9 in same_iter_free if l9.child("cond") is not None)
        if sh9.start == ivar or (already and sh9.start == "%s + 1" % ivar):
            ctx.ok(rule, "the bail-out loop releases the entries from the current one on", l9.where, sh9.describe())
        elif sh9.start == "%s + 1" % ivar:
            ctx.fail(rule, "the bail-out loop releases the entries from the current one on", l9.where,
                     "the loop is %s: %s[%s] - the entry of the failing file, whose free() at the end of the round is skipped by the return - leaks" % (
                         sh9.describe(), de, ivar), key="dirent-leak-current")
    # (2) history array in the builder: free(*key_files) sites
    h = prog.fn("readConfigHistoryWithCallback")
    ctx.touch(h)
    hcfg = h.cfg
    # the loops that release the collected objects cover the slots in use, [0, *size - 1): the last slot is the spare one the next
    # object would go into - NULL at first, whatever realloc() returned after the array has grown
    for l9 in h.walk():
        if l9.k != "ForStmt":
            continue
        rel9 = [x for x in l9.walk() if x.k == "CallExpr" and x.j.get("callee") in ("econf_freeFile", "econf_free") and x.call_args()
                and render(x.call_args()[0]).startswith("(*key_files)[")
                and next((a9 for a9 in x.ancestors() if a9.k in ("ForStmt", "WhileStmt", "DoStmt")), None) is l9]
        if not rel9:
            continue
        sh9 = _loops9.for_shape(l9)
        if sh9.ok and sh9.step > 0 and sh9.start == "0" and sh9.cmp == "<" and sh9.bound in ("*size - 1", "(*size) - 1"):
            ctx.ok(rule, "the release loop covers the slots in use", l9.where, sh9.describe())
        elif sh9.ok and sh9.step > 0 and sh9.start == "0" and ((sh9.cmp == "<" and sh9.bound in ("*size", "(*size)")) or (sh9.cmp == "<=" and "size" in sh9.bound)):
            ctx.fail(rule, "the release loop covers the slots in use", l9.where,
                     "%s: the loop also releases the spare slot behind the collected objects - uninitialised memory once the array has grown (a failing file that is "
                     "not the first drop-in)" % sh9.describe(), key="history-spare-slot")
        else:
            ctx.inconclusive(rule, "the release loop covers the slots in use", l9.where, sh9.describe())
    trav = h.calls("traverse_conf_dirs")
    if len(trav) != 1:
        raise Inconclusive("history builder: traverse_conf_dirs call not found")
    tb = hcfg.block_of(trav[0])
    for c in h.calls("free"):
        if not c.call_args() or render(c.call_args()[0]) != "*key_files":
            continue
        cb = hcfg.block_of(c)
        if cb not in hcfg.reachable(tb):
            ctx.ok(rule, "free(*key_files) before any drop-in was collected", c.where, "allocation-failure path, array holds at most the main file")
            continue
        # after collection started: needs the element loop, or the count guard *size <= 0
        elem_loops = [l for l in h.walk() if l.k == "ForStmt" and any(
            x.k == "CallExpr" and x.j.get("callee") in ("econf_freeFile", "econf_free") or
            (x.k == "CallExpr" and x.j.get("callee") == "econf_freeFile") for x in l.walk())
            and l.child("cond") is not None and hcfg.node_dominates(l.child("cond"), c)]
        elem_loops = [l for l in elem_loops if any(x.k == "CallExpr" and x.j.get("callee") == "econf_freeFile" and
                                                   render(x.call_args()[0]).startswith("(*key_files)[") for x in l.walk())]
        okc, cutc = hcfg.all_paths_cut(cb, lambda lit, b, i: lit is not None and lit.kind == "lt" and "size" in lit.atom and
                                       lit.lhs.const_value() == 0 and not lit.pol, start=tb)
        # shared exit (goto fail): every way from the collection to the free passes the element loop or the emptiness test
        all_loops = [l for l in h.walk() if l.k in ("ForStmt", "WhileStmt") and l.child("cond") is not None and any(
            x.k == "CallExpr" and x.j.get("callee") == "econf_freeFile" and render(x.call_args()[0]).startswith("(*key_files)[") for x in l.walk())]
        lblocks = set(hcfg.block_of(l.child("cond")) for l in all_loops)
        succ_h = {(b, i): s2 for (b, i, s2) in hcfg.edges()}
        okp, cutp = hcfg.all_paths_cut(cb, lambda lit, b, i: succ_h.get((b, i)) in lblocks or b in lblocks or (
            lit is not None and lit.kind == "lt" and "size" in lit.atom and lit.lhs.const_value() == 0 and not lit.pol), start=tb)
        if elem_loops:
            ctx.ok(rule, "history array released together with its elements", c.where, "dominated by a loop calling econf_freeFile((*key_files)[k])")
        elif all_loops and okp and cutp:
            ctx.ok(rule, "history array released together with its elements", c.where,
                   "every path from the collection to this free passes the loop calling econf_freeFile((*key_files)[k]) or the test `*size <= 0`")
        elif okc and cutc:
            ctx.ok(rule, "history array released when empty", c.where, "behind `*size <= 0`: no element to release")
        else:
            ctx.fail(rule, "history array released together with its elements", c.where,
                     "free(*key_files) after drop-ins may have been collected, without releasing the collected objects", key="history-elements")
    # (3) every object entering the history carries on_merge_delete
    for fn_name in ("readConfigHistoryWithCallback", "check_conf_dir"):
        g = prog.fn(fn_name)
        gcfg = g.cfg
        for lhs, rhs, st, kind in query.stores(g):
            if kind != "=" or rhs is None:
                continue
            if render(lhs).startswith("(*key_files)[") and rhs.strip().k == "DeclRefExpr":
                v = render(rhs)
                flags = [s2 for (l2, r2, s2, k2) in query.stores(g) if render(l2) == "%s->on_merge_delete" % v and r2 is not None
                         and r2.const_value() == 1 and gcfg.node_dominates(s2, st)]
                if flags:
                    ctx.ok(rule, "%s: object entering the history is owned by the pipeline" % fn_name, st.where,
                           "%s->on_merge_delete = 1 dominates the store" % v)
                else:
                    ctx.fail(rule, "%s: object entering the history is owned by the pipeline" % fn_name, st.where,
                             "`%s` is stored into the history without on_merge_delete: merge_econf_files will not release it" % v,
                             key="flag:%s" % fn_name)
    # (4) merge loop: current element and previous intermediate released under their flag on every way round
    m = prog.fn("merge_econf_files")
    ctx.touch(m)
    mcfg = m.cfg
    from rules.C01 import _history_walk
    walks = _history_walk(m)
    if len(walks) != 1:
        raise Inconclusive("merge_econf_files: outer loop not recognised")
    wl, _K, CUR, _CV, _kind = walks[0]
    cur_flag = ("(%s)->on_merge_delete" % CUR) if CUR.startswith("*") else ("%s->on_merge_delete" % CUR)
    whb = mcfg.loop_header(wl)
    rel = [c for c in m.calls(("econf_freeFile", "econf_free")) if c.within(wl)]
    rel_cur = [c for c in rel if render(c.call_args()[0]) == CUR]
    if not rel_cur:
        ctx.fail(rule, "merge loop releases each history element", wl.where, "no release of %s in the loop" % CUR, key="merge-element")
    else:
        c = rel_cur[0]
        # guarded by the element's own flag; the guard block is on every way round
        gb = None
        for (b, i, s) in mcfg.edges():
            lit = mcfg.edge_lit(b, i)
            if lit is not None and lit.atom == cur_flag and lit.pol and mcfg.blocks[b].succs[i] == mcfg.block_of(c):
                gb = b
        if gb is None:
            gb = mcfg.block_of(c)
        entry = mcfg.loop_body_entry(wl)
        reach = mcfg.reachable(entry, avoid_blocks=[gb, whb])
        backsrc = [b for (b, i, s) in mcfg.back_edges() if s == whb]
        if any(b in reach for b in backsrc):
            ctx.fail(rule, "merge loop releases each history element", c.where, "a way round the loop skips the release of the current element",
                     key="merge-element")
        else:
            ctx.ok(rule, "merge loop releases each history element", c.where, "every way round the loop passes `if (%s) econf_free(%s)`" % (cur_flag, CUR))
    mc = m.calls("econf_mergeFiles")
    if len(mc) == 1:
        tmp_rel = [c for c in rel if render(c.call_args()[0]) not in (CUR,)]
        if tmp_rel and mcfg.node_dominates(mc[0], tmp_rel[0]):
            ctx.ok(rule, "merge loop releases the previous intermediate result", tmp_rel[0].where,
                   "%s released after the merge that replaced it" % render(tmp_rel[0].call_args()[0]))
        else:
            ctx.fail(rule, "merge loop releases the previous intermediate result", mc[0].where,
                     "the result of the previous merge step is not released after being merged", key="merge-intermediate")
        flag = [s2 for (l2, r2, s2, k2) in query.stores(m) if render(l2) == "(*merged_files)->on_merge_delete" and r2 is not None and r2.const_value() == 1
                and mcfg.node_dominates(mc[0], s2)]
        if flag:
            ctx.ok(rule, "merge results are owned by the pipeline", flag[0].where, "(*merged_files)->on_merge_delete = 1 after each merge")
        else:
            ctx.fail(rule, "merge results are owned by the pipeline", mc[0].where, "intermediate results are not flagged and will never be released",
                     key="merge-flag")


ENTRY_OUT = {"econf_readFileWithCallback": "key_file", "econf_readFile": "key_file",
             "econf_readConfigWithCallback": "key_file", "econf_readConfig": "key_file",
             "econf_readDirsWithCallback": "result", "econf_readDirs": "result",
             "econf_readDirsHistoryWithCallback": "key_files", "econf_readDirsHistory": "key_files"}


def nothing_on_failure(prog, ctx, rule, names=None):
    """On every failure exit of a read entry point the out-pointer is NULL or what the caller put there - never an object the
    call itself created (the caller, told that the read failed, has no reason to release anything)."""
    n = 0
    for name, outp in ENTRY_OUT.items():
        if names is not None and name not in names:
            continue
        if not prog.has_fn(name):
            ctx.inconclusive(rule, "%s hands back nothing on failure" % name, "", "entry point vanished")
            continue
        f = prog.fn(name)
        if outp not in f.param_names():
            ctx.inconclusive(rule, "%s hands back nothing on failure" % name, f.where, "out-parameter `%s` vanished" % outp)
            continue
        a = analyse(prog, name)
        ctx.touch(f)
        if a.truncated:
            ctx.inconclusive(rule, "%s hands back nothing on failure" % name, f.where, "state space truncated")
            continue
        # a pure delegation has no states of its own
        dele = [c for c in f.calls(tuple(ENTRY_OUT)) if c.up() is not None and c.up().k == "ReturnStmt"]
        if dele and len(list(f.returns())) == 1 and query.refs_param(dele[0].call_args()[0], outp):
            ctx.ok(rule, "%s hands back nothing on failure" % name, dele[0].where, "delegates to %s with its own out-parameter" % dele[0].j["callee"])
            n += 1
            continue
        bad = None
        unknown = None
        fails = 0
        for ret, st in a.exit_states:
            const = query.returned_constant(ret) if ret is not None else None
            if const == "ECONF_NOMEM":
                continue
            if const in ("ECONF_SUCCESS", 0):
                continue
            if const is None:
                v = render(ret.children[0]) if ret is not None and ret.children else None
                fct = st.facts.get(v) or st.facts.get("$ret")
                if fct == "Z":
                    continue
                if fct is None:
                    unknown = ret
                    continue
                if fct in ("ECONF_NOMEM",):
                    continue
            fails += 1
            obj = st.env.get("*" + outp)
            if obj not in (None, NULL, UNK) and st.heap.get(obj) == "O" and not str(obj).startswith("caller:"):
                bad = (ret, st, obj)
        n += 1
        inst = "%s hands back nothing on failure" % name
        if bad is not None:
            ret, st, obj = bad
            ctx.fail(rule, inst, ret.where,
                     "a failing read returns with *%s pointing to an object this call created itself (%s): the caller is told the read failed and is "
                     "still handed a configuration object it has to release" % (outp, a.describe(obj) if hasattr(a, "describe") else obj),
                     key="object-on-failure:%s" % name, path=list(st.trail)[-6:])
        elif unknown is not None and not fails:
            ctx.inconclusive(rule, inst, unknown.where, "verdict of the returned value not known to the typestate")
        else:
            ctx.ok(rule, inst, f.where, "%d failure exit states: *%s is NULL or the caller's own object" % (fails, outp))
    return n


def c06_g5(prog, ctx):
    for name in ("read_file_with_callback", "econf_readFileWithCallback", "check_conf_dir", "readConfigHistoryWithCallback",
                 "readConfigWithCallback", "econf_readConfigWithCallback"):
        report(ctx, "G5", name, analyse(prog, name))
    rederive_gate_summary(prog, ctx, "G5")
    nothing_on_failure(prog, ctx, "G5", names=("econf_readFileWithCallback", "econf_readConfigWithCallback", "econf_readDirsWithCallback",
                                                 "econf_readDirsHistoryWithCallback"))
    no_early_success(prog, ctx, "G5")
    # the merge is control dependent on success of the history
    f = prog.fn("readConfigWithCallback")
    cfg = f.cfg
    mc = f.calls("merge_econf_files")
    if len(mc) == 1:
        okc, cut = cfg.all_paths_cut(cfg.block_of(mc[0]), lambda lit, b, i: lit is not None and lit.kind == "truth" and lit.atom == "error" and not lit.pol)
        if okc and cut:
            ctx.ok("G5", "merge only after a successful history", mc[0].where, "every path to merge_econf_files carries error == ECONF_SUCCESS")
        else:
            ctx.fail("G5", "merge only after a successful history", mc[0].where, "the merge runs although reading failed", key="merge-after-failure")


def no_early_success(prog, ctx, rule):
    """the loops over files (drop-ins of a directory, directories of a layer, layers) are never left by a `return` that reports
    success: that would end the read with part of the tree unread - and unchecked - while telling the caller all went well"""
    n = 0
    for name in ("check_conf_dir", "traverse_conf_dirs", "readConfigHistoryWithCallback"):
        if not prog.has_fn(name):
            continue
        f = prog.fn(name)
        a = analyse(prog, name)
        if a.truncated:
            ctx.inconclusive(rule, "%s: no successful return from inside a loop over files" % name, f.where, "state space truncated")
            continue
        bad = None
        for ret, st in a.exit_states:
            if ret is None or not any(x.k in ("ForStmt", "WhileStmt", "DoStmt") for x in ret.ancestors()):
                continue
            const = query.returned_constant(ret)
            v = render(ret.children[0]) if ret.children else None
            if const in ("ECONF_SUCCESS", 0) or (const is None and st.facts.get(v) == "Z"):
                bad = (ret, st)
        n += 1
        inst = "%s: no successful return from inside a loop over files" % name
        if bad:
            ctx.fail(rule, inst, bad[0].where,
                     "`%s` inside the loop can be reached with the value ECONF_SUCCESS: the files that follow are never read (nor shown to the callback), and "
                     "the caller is told the read succeeded" % render(bad[0]), key="early-success:%s" % name, path=list(bad[1].trail)[-6:])
        else:
            ctx.ok(rule, inst, f.where, "every return inside a loop carries a non-zero code in all %d exit states" % len(a.exit_states))
    return n


def c13_e3(prog, ctx):
    for name in ("read_file_with_callback", "econf_readFileWithCallback", "readConfigHistoryWithCallback"):
        report(ctx, "E3", name, analyse(prog, name))
    rederive_gate_summary(prog, ctx, "E3")
    nothing_on_failure(prog, ctx, "E3")
    no_early_success(prog, ctx, "E3")
    # the clean-up after a failing n-th file releases what was collected and nothing else: the error code comes back, not a crash
    from sa.report import Ctx as _Ctx9
    sub9 = _Ctx9(ctx.prop, ctx.tier, prog)
    history_array_rules(prog, sub9, "E3")
    for ob in sub9.obs:
        if "release loop" in ob.instance or "bail-out loop" in ob.instance:
            ob.instance = "a failing n-th file is reported, not crashed on: " + ob.instance
            ctx.obs.append(ob)


def c15_o4(prog, ctx):
    a = analyse(prog, "econf_newKeyFile_with_options")
    report(ctx, "O4", "econf_newKeyFile_with_options", a)
