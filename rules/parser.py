"""Discovery of the parser's landmarks in read_file (shared by C05, C13, C17, C04): the line
loop, the line buffer, the blank-stripped pointer, the pending comment buffers, the line counter."""
from sa.ast import render
from sa.facts import Inconclusive
from sa import query
from sa.dataflow import ReachingDefs

PARSER = "read_file"
STORE = "store"


class Landmarks:
    pass


def landmarks(prog):
    f = prog.fn(PARSER)
    cfg = f.cfg
    L = Landmarks()
    L.fn, L.cfg = f, cfg
    # the line loop: the while statement driven by getline
    READERS = ("getline", "getdelim", "fgets")
    loops = [n for n in f.walk() if n.k in ("WhileStmt", "ForStmt", "DoStmt") and n.child("cond") is not None
             and any(c.k == "CallExpr" and c.j.get("callee") in READERS for c in n.child("cond").walk())]
    if len(loops) != 1:
        # the read may sit in a helper called from the condition (its body is attached to the loop by the virtual inlining):
        # the line loop is then the outermost loop that contains both a line read and the store() calls
        loops = [n for n in f.walk() if n.k in ("WhileStmt", "ForStmt", "DoStmt") and not any(a.k in ("WhileStmt", "ForStmt", "DoStmt") for a in n.ancestors())
                 and any(c.k == "CallExpr" and c.j.get("callee") in READERS for c in n.walk())
                 and any(c.k == "CallExpr" and c.j.get("callee") == STORE for c in n.walk())]
    if len(loops) != 1:
        raise Inconclusive("read_file: expected one getline-driven loop, found %d" % len(loops))
    L.loop = loops[0]
    in_cond = [c for c in L.loop.child("cond").walk() if c.k == "CallExpr" and c.j.get("callee") in READERS]
    body0 = L.loop.child("body")
    gl = (in_cond or [c for c in L.loop.walk() if c.k == "CallExpr" and c.j.get("callee") in READERS and not (body0 is not None and c.within(body0))]
          or [c for c in L.loop.walk() if c.k == "CallExpr" and c.j.get("callee") in READERS])[0]
    L.getline = gl
    a0 = gl.call_args()[0].strip()
    if a0.k == "UnaryOperator" and a0.j.get("op") == "&":
        L.linebuf = render(a0.children[0])
    else:
        L.linebuf = render(a0)
    hid = cfg.loop_header(L.loop)
    if hid is None:
        raise Inconclusive("read_file: loop header block not found")
    L.header = hid
    L.body_blocks = cfg.natural_loop(L.header)
    # store() calls inside the loop and the pending comment variables
    L.store_calls = [c for c in f.calls(STORE) if c.within(L.loop)]
    if not L.store_calls:
        raise Inconclusive("read_file: no call of store() in the line loop")
    st = prog.fn(STORE)
    names = st.param_names()
    for want in ("comment_before_key", "comment_after_value", "line_number", "value", "key", "group", "append_entry", "quotes"):
        if want not in names:
            raise Inconclusive("store(): parameter %s vanished" % want)
    L.store_fn = st
    L.idx = {n: i for i, n in enumerate(names)}

    def same_arg(pname):
        vals = set(render(c.call_args()[L.idx[pname]]) for c in L.store_calls)
        return vals
    b = same_arg("comment_before_key") - {"NULL"}      # a call that passes no pending comment at all (NULL) does not name another buffer
    a = same_arg("comment_after_value") - {"NULL"}
    ln = same_arg("line_number")
    if len(b) != 1 or len(a) != 1:
        raise Inconclusive("read_file: store() calls disagree on the pending comment buffers: %s / %s" % (b, a))
    L.pending_before, L.pending_after = list(b)[0], list(a)[0]
    L.line_args = ln
    # the blank-stripped pointer: a local assigned from the line buffer and advanced in a loop testing isspace(*X)
    L.stripped = None
    for w in f.walk():
        if w.k == "WhileStmt" and w.within(L.loop) and w is not L.loop:
            cond = w.child("cond")
            body = w.child("body")
            if cond is None or body is None:
                continue
            if not any(x.k == "CallExpr" and x.j.get("callee") in ("__ctype_b_loc", "isspace") for x in cond.walk()):
                continue
            b2 = body.strip()
            incs = [x for x in body.walk() if x.k == "UnaryOperator" and x.j.get("op") == "++"]
            if len(incs) != 1:
                continue
            v = render(incs[0].children[0])
            # assigned from the line buffer just before?
            for lhs, rhs, stn in f.assignments():
                if not isinstance(lhs, dict) and render(lhs) == v and render(rhs) == L.linebuf and stn.line <= w.line:
                    if L.stripped is None or stn.line < L.stripped_line:
                        L.stripped, L.stripped_line = v, stn.line
    return L


def line_end_rule(prog, ctx, rule, L=None):
    """The text of a physical line is kept up to its end: the line buffer (and its raw copy) is only ever cut where the line
    ends.  A cut at the first occurrence of some other character - `buf[strcspn(buf, "\\r\\n")] = 0`, `*strchr(buf, c) = 0` -
    drops the rest of the line whenever that character occurs inside a comment or a value."""
    L = L or landmarks(prog)
    f = L.fn
    raw = set([L.linebuf])
    # copies of the whole line (org_buf = strdup(buf))
    for lhs, rhs, st in f.assignments():
        if rhs is not None and render(rhs.strip()) in ("strdup(%s)" % L.linebuf,):
            raw.add(lhs["name"] if isinstance(lhs, dict) else render(lhs))
    n = 0
    for lhs, rhs, st, kind in query.stores(f):
        if kind != "=" or rhs is None or rhs.const_value() != 0:
            continue
        l0 = lhs.strip()
        pos = None
        if l0.k == "ArraySubscriptExpr" and render(l0.children[0]) in raw:
            pos = l0.children[1].strip()
        elif l0.k == "UnaryOperator" and l0.j.get("op") == "*":
            pos = l0.children[0].strip()
        if pos is None:
            continue
        for c in pos.walk():
            if c.k != "CallExpr" or c.j.get("callee") not in ("strcspn", "strpbrk", "strchr", "memchr", "strchrnul"):
                continue
            a = c.call_args()
            if not a or render(a[0]) not in raw:
                continue
            n += 1
            chars = a[1].string_value() if c.j["callee"] in ("strcspn", "strpbrk") else None
            if chars is None and len(a) > 1 and a[1].const_value() is not None:
                chars = chr(a[1].const_value())
            cpar = next((q["name"] for q in f.params if q["name"] == "comment"), None)
            if chars == "\n":
                ctx.ok(rule, "the line is cut only at its end", st.where, "%s: a line read by getline() holds at most one newline, at its end" % render(c))
            elif chars is None and cpar is not None and len(a) > 1 and (render(a[1]) == cpar or render(a[1]).startswith(cpar + "[")):
                # the cut at the first comment character is the parser's own rule (continuation lines lose their trailing comment): C05's business
                ctx.ok(rule, "the line is cut only at its end", st.where, "%s: cut where the comment starts, by the caller's comment set" % render(c))
            else:
                ctx.fail(rule, "the line is cut only at its end", st.where,
                         "`%s` ends the line at the first %s anywhere in it: the rest of a comment or value that contains such a character is dropped"
                         % (render(st)[:70], "of %r" % chars if chars is not None else "match of %s" % render(a[1])), key="line-cut:%s" % render(a[0]))
    if not n:
        ctx.ok(rule, "the line is cut only at its end", f.where, "no cut of the line buffer at a searched-for character")


def delimiter_membership_rule(prog, ctx, rule, L=None):
    """Whether the character behind the key is a delimiter is decided by membership in the delimiter set.  Blanks are left out of
    that decision only for a MIXED set (blanks and other characters: `key = value` with the blank before `=`); for a set that has
    only blanks - or only other characters - a further `!isspace()` condition makes the delimiter invisible: `key value` lines are
    then taken for continuations of the entry above."""
    L = L or landmarks(prog)
    f, cfg = L.fn, L.cfg
    n = 0
    for lhs, rhs, st in f.assignments():
        if rhs is None or isinstance(lhs, dict) and False:
            continue
        txt = render(rhs)
        if "strchr(delim" not in txt:
            continue
        if not st.within(L.loop):
            continue
        n += 1
        name = lhs["name"] if isinstance(lhs, dict) else render(lhs)
        excl = "_ISspace" in txt or "isspace" in txt or "isblank" in txt
        if not excl:
            ctx.ok(rule, "`%s` is membership in the delimiter set" % name, st.where, txt[:70])
            continue
        ok1, c1 = cfg.all_paths_cut(cfg.block_of(st), lambda lit, b, i: lit is not None and lit.kind == "truth" and lit.atom == "has_wsp" and lit.pol, start=L.header)
        ok2, c2 = cfg.all_paths_cut(cfg.block_of(st), lambda lit, b, i: lit is not None and lit.kind == "truth" and lit.atom == "has_nonwsp" and lit.pol, start=L.header)
        if ok1 and c1 and ok2 and c2:
            ctx.ok(rule, "`%s` leaves blanks out only for a mixed delimiter set" % name, st.where, "behind has_wsp && has_nonwsp")
        else:
            ctx.fail(rule, "`%s` leaves blanks out only for a mixed delimiter set" % name, st.where,
                     "`%s = %s` excludes blanks also when the delimiter set consists of blanks only: with delimiter ' ' or '\\t' no delimiter is ever seen, a "
                     "`key value` line is appended to the entry above it - what is written with such a set does not read back" % (name, txt[:60]),
                     key="delim-blank-excluded")
    if n == 0:
        ctx.inconclusive(rule, "the delimiter decision", f.where, "no assignment from strchr(delim, ..) found in the line loop")


C_BLANKS = (" ", "\t", "\n", "\v", "\f", "\r")


def blank_set_rule(prog, ctx, rule):
    """What the parser calls a blank is what isspace() calls one in the C locale: blank, \t, \n, \v, \f, \r.  A classifier of the
    library's own (a chain `c == ' ' || c == '\t' || ...`, as a helper or a macro replacing isspace()) must cover the same six: with a
    smaller set a form feed or vertical tab between key and text is part of the NAME, and the missing-delimiter / continuation
    decisions are taken on another character than before."""
    n = 0
    for f in list(prog.functions.values()):
        if f.body is None:
            continue
        for top in f.walk():
            if top.k != "BinaryOperator" or top.j.get("op") != "||" or (top.parent is not None and top.parent.strip().k == "BinaryOperator"
                                                                         and top.parent.strip().j.get("op") == "||"):
                continue
            var, chars, pure = None, set(), True

            def parts(e):
                e2 = e.strip()
                if e2.k == "BinaryOperator" and e2.j.get("op") == "||":
                    return parts(e2.children[0]) + parts(e2.children[1])
                return [e2]
            for pt in parts(top):
                if pt.k == "BinaryOperator" and pt.j.get("op") == "==":
                    a, b = pt.children[0], pt.children[1]
                    for x, y in ((a, b), (b, a)):
                        cv = y.const_value()
                        if isinstance(cv, int) and 0 < cv < 128 and y.strip().k == "CharacterLiteral":
                            v9 = render(x)
                            if var is None or var == v9:
                                var = v9
                                chars.add(chr(cv))
                            else:
                                pure = False
                            break
                    else:
                        pure = False
                else:
                    pure = False
            if not pure or not {" ", "\t"} <= chars or not chars <= set(C_BLANKS):
                continue
            n += 1
            missing = [c for c in C_BLANKS if c not in chars]
            if missing:
                ctx.fail(rule, "%s: a blank is what isspace() says" % f.name, top.where,
                         "`%s` stands for a blank test but leaves out %s: a key followed by such a character swallows it (and the text behind it) into its name, "
                         "no delimiter is missed and no error reported" % (render(top)[:70], ", ".join(repr(c) for c in missing)), key="blank-set:%s" % f.name)
            else:
                ctx.ok(rule, "%s: a blank is what isspace() says" % f.name, top.where, "all six characters of the C locale")
    if n == 0:
        ctx.ok(rule, "a blank is what isspace() says", "lib/", "no classifier of the library's own: <ctype.h> everywhere")


def header_and_set_rules(prog, ctx, rule_bracket, rule_set):
    """(1) Whether a section header lacks its closing bracket (ECONF_MISSING_BRACKET) or has text behind it (ECONF_TEXT_AFTER_SECTION) is
    decided on the header text itself - the blank-stripped, comment-cut `name` - not on the raw line, whose trailing comment may hold a `]`.
    (2) A loop that runs over the comment set works with the element of its round: `comment[i]`, not `comment[0]` (with a set like "#;"
    the second character would never be looked for)."""
    L = landmarks(prog)
    f = L.fn
    ctx.touch(f)
    raw = set([L.linebuf])
    for lhs, rhs, st in f.assignments():
        if rhs is not None and render(rhs.strip()) in ("strdup(%s)" % L.linebuf,):
            raw.add(lhs["name"] if isinstance(lhs, dict) else render(lhs))
    n = 0
    for c in f.calls(("strchr", "strrchr", "memchr")):
        a = c.call_args()
        if len(a) >= 2 and a[1].const_value() == ord("]"):
            n += 1
            src = render(a[0])
            if src in raw:
                ctx.fail(rule_bracket, "the closing bracket is looked for in the header text", c.where,
                         "`%s` searches the raw line: a `]` in the trailing comment of an unterminated header (`[net   # was [net] before`) counts as its closing "
                         "bracket and the error reported is ECONF_TEXT_AFTER_SECTION instead of ECONF_MISSING_BRACKET" % render(c)[:60], key="bracket-search-raw")
            else:
                ctx.ok(rule_bracket, "the closing bracket is looked for in the header text", c.where, render(c)[:60])
    if n == 0:
        ctx.inconclusive(rule_bracket, "the closing bracket is looked for in the header text", f.where, "no search for ']' found")
    cpar = "comment"
    m = 0
    for lp in f.walk():
        if lp.k != "ForStmt":
            continue
        from sa import loops as _loops
        sh = _loops.index_shape(lp)
        if not (sh.ok and sh.start == "0" and ("strlen(%s)" % cpar in (sh.bound or "") or "%s[%s]" % (cpar, sh.var) in render(lp.child("cond")))):
            continue
        for x in lp.walk():
            if x.k == "ArraySubscriptExpr" and render(x.children[0]) == cpar and not x.within(lp.child("cond")):
                m += 1
                if render(x.children[1]) == sh.var:
                    ctx.ok(rule_set, "a loop over the comment set uses the character of its round", x.where, render(x))
                else:
                    ctx.fail(rule_set, "a loop over the comment set uses the character of its round", x.where,
                             "`%s` inside the loop over %s: every round works with the same character, the other members of a set like \"#;\" are never looked for - "
                             "a trailing `; text` on a continuation line stays in the value" % (render(x), sh.describe()), key="comment-set-element")
    # ... and the other way round: wherever comment[v] is read with a loop index, the loop runs over the comment set (not over the
    # delimiters or anything else of another length)
    from sa import loops as _loops2
    for x in f.walk():
        if x.k == "ArraySubscriptExpr" and render(x.children[0]) == cpar and x.children[1].strip().k == "DeclRefExpr":
            lp = next((a for a in x.ancestors() if a.k == "ForStmt"), None)
            if lp is None:
                continue
            sh = _loops2.index_shape(lp)
            if sh.ok and sh.var == render(x.children[1]) and "strlen(" in (sh.bound or "") and ("strlen(%s)" % cpar) not in sh.bound:
                m += 1
                ctx.fail(rule_set, "a loop over the comment set uses the character of its round", x.where,
                         "`%s` is read in a loop that runs to `%s`: the index follows the length of another string - members of the comment set are skipped or "
                         "bytes behind it are read" % (render(x), sh.bound), key="comment-set-bound")
    if m == 0:
        ctx.inconclusive(rule_set, "a loop over the comment set uses the character of its round", f.where, "no loop over the comment set found")


def one_line_one_role(prog, ctx, rule):
    """A physical line plays one role: a section header only changes the current section (no entry is stored from it), and a line that was
    stored as an entry is not stored a second time in the same round of the line loop."""
    L = landmarks(prog)
    f, cfg = L.fn, L.cfg
    ctx.touch(f)
    sblocks = {cfg.block_of(c): c for c in L.store_calls}
    # (1) the header: the statement that changes the current section
    grp = None
    for c in L.store_calls:
        a = c.call_args()[L.idx["group"]].strip()
        if a.k == "DeclRefExpr":
            grp = a.j["name"]
    heads = [st for lhs, rhs, st, kind in query.stores(f) if grp and render(lhs) == grp and st.within(L.loop) and rhs is not None and rhs.strip().k == "CallExpr"]
    for h in heads:
        hb = cfg.block_of(h)
        reach = cfg.reachable(hb, avoid_blocks=[L.header])
        hit = [b for b in sblocks if b in reach and b != hb]
        if hit:
            ctx.fail(rule, "a section header stores no entry", h.where,
                     "after `%s` the same round still reaches %s: the header line is parsed as a key as well" % (render(h)[:50], render(sblocks[hit[0]])[:40]), key="header-falls-through")
        else:
            ctx.ok(rule, "a section header stores no entry", h.where, "the round ends after the current section was changed")
    # (2) one store per round
    for b, c in sblocks.items():
        reach = set()
        for s2 in cfg.blocks[b].succs:
            if s2 is not None and s2 != L.header:
                reach |= cfg.reachable(s2, avoid_blocks=[L.header])
        hit = [b2 for b2 in sblocks if b2 in reach and b2 != b]
        if hit:
            # a failure of the first store leaves the function: only ways on after success count
            v = None
            up = c.up()
            if up is not None and up.k == "BinaryOperator" and up.j.get("op") == "=":
                v = render(up.children[0])
            succ9 = {(bb, ii): ss for (bb, ii, ss) in cfg.edges()}
            pos = cfg.index_of(up if v else c)
            wp = cfg.feasible_reach(hit[0], lambda lit, bb, ii: succ9.get((bb, ii)) == L.header, lambda a: True, start=pos[0], start_index=pos[1] + 1,
                                    init_facts=({v: False, "=" + v: 0} if v else None))
            if wp is not None:
                ctx.fail(rule, "a line is stored once", c.where,
                         "after this store() the same round reaches %s: the line becomes two entries (or an entry and a continuation of itself)" % render(sblocks[hit[0]])[:40],
                         key="line-stored-twice:%d" % c.line)
                continue
        ctx.ok(rule, "a line is stored once", c.where, "no further store() in the round behind it")
