"""C06 - every file passes the caller's check before use; one rejection yields nothing.

G1 choke point (who-may-call)                      G2 must-pass-through the callback in the gate
G3 callback/callback_data forwarded unchanged      G4 a failing file aborts: error propagated, no further reads
G5 nothing handed back on failure (ownership)  - decided by the E-own engine, see rules/own_rules.py"""
from sa.ast import render
from sa.facts import Inconclusive
from sa import query
from rules import common

META = {
    "level": "proof",
    "technique": "static analysis: who-may-call, must-pass-through (edge-cut reachability on clang's CFG), argument forwarding "
                 "over the resolved call graph, error-propagation regions, ownership typestate on failure exits",
    "level_text": "Every obligation is a graph fact over all paths of the gate, all call sites of the read chain and all failure "
                  "exits, hence holds for every tree, every subset and position of rejected files and all four callback entry "
                  "points. 'In processing order' is inherited from C01.L2/L5-L9.",
    "level_note": "Trusted: clang-14 front end/CFG, sa/cfg.py, sa/own.py. Assumes: opaque callback; call graph closed (indirect "
                  "calls in lib/ are the callback itself, the scandir comparator and the setter function pointer); no "
                  "allocation failure.",
    "explanation": "choke point + must-pass-through + forwarding + propagation + failure-exit ownership",
    "trusted_base": ["clang-14 front end and CFG", "sa/cfg.py", "sa/cond.py", "sa/own.py"],
    "assumptions": ["opaque callback", "closed call graph", "no allocation failure"],
}

CB, CBD = "callback", "callback_data"
EXTRA_CHAIN = ("merge_econf_files",)          # propagation is also required of the merge step
TOLERATED_SWALLOW = {
    # (function, callee): error constant that may continue the scan, reason
    ("readConfigHistoryWithCallback", "read_file_with_callback"):
        ("ECONF_NOFILE", "absence of a main file in one layer is normal; the scan goes on to the next layer"),
}
NONCB_WRAPPERS = ("econf_readFile", "econf_readDirs", "econf_readDirsHistory", "econf_readConfig")


def chain_functions(prog):
    out = {}
    for f in prog.lib_functions():
        names = f.param_names()
        if CB in names and CBD in names:
            out[f.name] = f
    return out


def is_cb_call(n):
    """indirect call through the parameter `callback`"""
    if n.k != "CallExpr" or n.j.get("callee"):
        return False
    root, sel = query.lvalue_root(n.children[0])
    return root is not None and root.j.get("dk") == "param" and root.j.get("name") == CB


def param_modified(fn, pname):
    for lhs, rhs, st, kind in query.stores(fn):
        s = lhs.strip()
        if s.k == "DeclRefExpr" and s.j.get("dk") == "param" and s.j.get("name") == pname:
            return st
    # address taken
    for n in fn.walk():
        if n.k == "UnaryOperator" and n.j.get("op") == "&" and query.refs_param(n.children[0], pname):
            return n
    return None


def local_defs(fn, name):
    """All expressions assigned to local `name`."""
    out = []
    for lhs, rhs, st in fn.assignments():
        if isinstance(lhs, dict):
            if lhs["name"] == name:
                out.append(rhs)
        else:
            s = lhs.strip()
            if s.k == "DeclRefExpr" and s.j.get("name") == name:
                out.append(rhs)
    return out


def opened_name_rule(prog, ctx, rule):
    """the parser opens the name it is handed - the one the gate checked and showed to the callback - letter for letter"""
    from sa.dataflow import ReachingDefs as _RD7
    pf = prog.fn(common.PARSER)
    ctx.touch(pf)
    fo = pf.calls(("fopen", "fopen64", "open", "open64", "openat"))
    if not fo:
        ctx.inconclusive(rule, "the parser opens the name it is given", pf.where, "no fopen()/open() in %s" % pf.name)
        return
    pname = pf.params[1]["name"] if len(pf.params) > 1 else None
    rd7 = _RD7(pf)
    for c in fo:
        a = c.call_args()[1 if c.j.get("callee") == "openat" else 0].strip()
        srcs = [a]
        if a.k == "DeclRefExpr" and a.j.get("dk") == "local":
            srcs = [d.rhs.strip() for d in rd7.reaching(a.j["name"], c) if d.rhs is not None]
        bad = [x for x in srcs if not (x.k == "DeclRefExpr" and x.j.get("dk") == "param" and x.j.get("name") == pname)
               and not (x.k == "CallExpr" and x.j.get("callee") in ("strdup",) and query.refs_param(x.call_args()[0], pname))]
        if not srcs:
            ctx.inconclusive(rule, "the parser opens the name it is given", c.where, "source of `%s` not found" % render(a))
        elif bad:
            ctx.fail(rule, "the parser opens the name it is given", c.where,
                     "%s(%s): the name opened is computed (%s), not the name the gate checked and showed to the callback - where the two differ (a symbolic link "
                     "in `dir/..`, another spelling) a file nobody accepted is read" % (c.j.get("callee"), render(a), render(bad[0])[:60]), key="opened-name")
        else:
            ctx.ok(rule, "the parser opens the name it is given", c.where, "%s(%s, ..)" % (c.j.get("callee"), pname))


def abs_path_rule(prog, ctx, rule):
    """get_absolute_path returns a copy of its argument (or of realpath(argument)) and nothing else"""
    # get_absolute_path returns a copy of its argument (or of realpath(argument))
    gap = prog.fn("get_absolute_path")
    ctx.touch(gap)
    bad = []
    n_src = 0
    for c in gap.calls(("strdup", "strndup")):
        a = c.call_args()[0].strip()
        if a.k == "DeclRefExpr" and a.j.get("dk") == "param" and a.j.get("name") == gap.params[0]["name"]:
            n_src += 1
            continue
        if a.k == "DeclRefExpr" and a.j.get("dk") == "local":
            rp = [r for r in gap.calls("realpath") if render(r.call_args()[1]) == a.j["name"]
                  and query.refs_param(r.call_args()[0], gap.params[0]["name"])]
            if rp:
                n_src += 1
                continue
        bad.append(c)
    # ... and nothing else is returned: every definition of the returned variable is one of those copies (or NULL)
    other = []
    from sa.dataflow import ReachingDefs as _RD6
    rd6 = _RD6(gap)
    for r in gap.returns():
        if not r.children or r.children[0].is_null_const():
            continue
        e6 = r.children[0].strip()
        ds6 = rd6.reaching(e6.j["name"], r) if e6.k == "DeclRefExpr" and e6.j.get("dk") == "local" else None
        exprs = [d.rhs for d in ds6 if d.rhs is not None] if ds6 else [e6]
        # filled through its address: asprintf(&absolute_path, "%s/%s", ...) - the call is the composition
        for d in (ds6 or []):
            if d.rhs is None and d.node is not None:
                exprs += [c6 for c6 in gap.calls() if (c6 is d.node or c6.within(d.node) or d.node.within(c6)) and any(
                    render(a6) == "&" + e6.j["name"] for a6 in c6.call_args())]
        for x6 in exprs:
            x0 = x6.strip()
            if x0.is_null_const() or x0.const_value() == 0:
                continue
            if x0.k == "CallExpr" and x0.j.get("callee") in ("strdup", "strndup", "realpath"):
                continue
            other.append(x0)
    statics = [x for x in gap.walk() if x.k == "DeclRefExpr" and x.j.get("dk") in ("static_local", "global", "static_global")
               and (x.j.get("ct") or "").replace("const ", "") not in ("econf_err",)]
    if other and not bad:
        stat6 = sorted(set(x.j.get("name") for x in statics if any(x.j.get("name") in render(o6) for o6 in other)))
        if stat6:
            ctx.fail(rule, "get_absolute_path names the same file", other[0].where,
                     "the name returned is composed with `%s`, which keeps what an earlier call saw (the working directory at that time): after a chdir() the "
                     "file opened is not the file the callback was shown" % stat6[0], key="abs-path-stale")
        else:
            ctx.inconclusive(rule, "get_absolute_path names the same file", other[0].where, "returns %s: composition not understood" % render(other[0])[:60])
    elif bad or n_src == 0:
        ctx.fail(rule, "get_absolute_path names the same file", (bad[0] if bad else gap).where,
                 "result is not a copy of the argument or of its realpath", key="abs-path-source")
    else:
        ctx.ok(rule, "get_absolute_path names the same file", gap.where, "%d copies, all of `path` or realpath(path)" % n_src)


def g2(prog, ctx, gate):
    cfg = gate.cfg
    pcall = query.unique_call(gate, common.PARSER)
    tblock = cfg.block_of(pcall)
    cbcalls = [n for n in gate.walk() if is_cb_call(n)]
    if len(cbcalls) != 1:
        if not cbcalls:
            ctx.fail("G2", "callback invoked in the gate", gate.where,
                     "%s never calls the callback: no file is checked" % gate.name, key="no-callback-call")
        else:
            ctx.inconclusive("G2", "callback invoked in the gate", gate.where, "%d callback calls" % len(cbcalls))
        return
    cb = cbcalls[0]
    cbtxt = render(cb)
    args = cb.call_args()
    # arguments of the callback
    if len(args) == 2 and query.refs_param(args[0], "file_name") and not param_modified(gate, "file_name"):
        ctx.ok("G2", "callback sees the consulted path", cb.where, "first argument is the gate's own unmodified file_name")
    else:
        ctx.fail("G2", "callback sees the consulted path", cb.where,
                 "callback is given %s, not the gate's own file_name (the exact path the file was found under)" % (render(args[0]) if args else "nothing"),
                 key="cb-arg0")
    if len(args) == 2 and query.refs_param(args[1], CBD) and not param_modified(gate, CBD):
        ctx.ok("G2", "callback gets the caller's data pointer", cb.where, "second argument is callback_data unchanged")
    else:
        ctx.fail("G2", "callback gets the caller's data pointer", cb.where,
                 "callback is given %s instead of callback_data" % (render(args[1]) if len(args) > 1 else "nothing"),
                 key="cb-arg1")
    if param_modified(gate, CB):
        ctx.fail("G2", "callback parameter unmodified", param_modified(gate, CB).where, "the gate overwrites `callback`",
                 key="cb-param-modified")

    def accepted(lit, b, i):
        if lit is None:
            return False
        if lit.kind == "truth" and lit.atom == CB and not lit.pol:
            return True                     # no callback supplied
        if lit.kind == "truth" and lit.atom == cbtxt and lit.pol:
            return True                     # callback accepted the file
        return False

    ok, cut = cfg.all_paths_cut(tblock, accepted)
    if ok and cut:
        ctx.ok("G2", "parser only behind an accepting callback", pcall.where,
               "every path to %s() carries `callback == NULL` or `%s` true" % (common.PARSER, cbtxt))
    else:
        wp = cfg.witness_path(tblock, avoid_edges=cut)
        ctx.fail("G2", "parser only behind an accepting callback", pcall.where,
                 "a path reaches %s() without the callback having accepted the file (check missing, result ignored, "
                 "inverted, or made after parsing)" % common.PARSER, key="gate-callback", path=cfg.describe_path(wp))
    # ... and so is every SUCCESS of the gate: a file reported as read takes part in the result (its entries, and its name, which
    # masks namesakes in lower layers) - there is no way to "use" a file that bypasses the check
    wp2 = cfg.success_path_avoiding(accepted)
    if wp2 is None:
        ctx.ok("G2", "the gate succeeds only behind an accepting callback", cb.where,
               "every consistent path to a return of ECONF_SUCCESS carries `callback == NULL` or `%s` true" % cbtxt)
    else:
        last = wp2[-1][0] if wp2 else cfg.entry
        ctx.fail("G2", "the gate succeeds only behind an accepting callback", (cfg.blocks[last].elems[-1] if cfg.blocks[last].elems else cb).where,
                 "%s can return success for a file the callback was never asked about (a fast path in front of the check): the file counts as read - it is "
                 "part of the history and masks same-named files of lower layers" % gate.name, key="gate-success-unchecked", path=cfg.describe_path(wp2)[-6:])
    # rejection -> constant ECONF_PARSING_CALLBACK_FAILED, nothing else
    rej_edges = [(b, i) for (b, i, s) in cfg.edges()
                 if cfg.edge_lit(b, i) is not None and cfg.edge_lit(b, i).kind == "truth"
                 and cfg.edge_lit(b, i).atom == cbtxt and not cfg.edge_lit(b, i).pol]
    if not rej_edges:
        ctx.fail("G2", "rejection is acted upon", cb.where, "the callback's result does not decide any branch",
                 key="cb-result-ignored")
    for (b, i) in rej_edges:
        tgt = cfg.blocks[b].succs[i]
        region = cfg.reachable(tgt)
        rets = [cfg.return_of_block(x) for x in region if cfg.return_of_block(x) is not None]
        consts = set(query.returned_constant(r) for r in rets)
        if tblock in region:
            ctx.fail("G2", "rejection stops the read", cb.where, "the parser is reachable after the callback said no",
                     key="reject-continues")
        elif consts == {"ECONF_PARSING_CALLBACK_FAILED"}:
            ctx.ok("G2", "rejection returns the callback-failed code", rets[0].where,
                   "the rejecting edge reaches only `return ECONF_PARSING_CALLBACK_FAILED`")
        else:
            ctx.fail("G2", "rejection returns the callback-failed code", cb.where,
                     "after a rejection the gate returns %s" % sorted(str(c) for c in consts), key="reject-code")
    # what the parser opens derives from the same file_name
    pargs = pcall.call_args()
    a1 = pargs[1].strip() if len(pargs) > 1 else None
    okpath = False
    if a1 is not None and a1.k == "DeclRefExpr":
        if a1.j.get("dk") == "param" and a1.j.get("name") == "file_name":
            okpath = True
        else:
            defs = local_defs(gate, a1.j.get("name"))
            okpath = bool(defs) and all(d.callee_name() == "get_absolute_path" and query.refs_param(d.call_args()[0], "file_name")
                                        for d in defs)
    if okpath:
        ctx.ok("G2", "the file parsed is the file checked", pcall.where,
               "%s(..., %s, ...) where %s = get_absolute_path(file_name)" % (common.PARSER, render(a1), render(a1)))
    else:
        ctx.fail("G2", "the file parsed is the file checked", pcall.where,
                 "the path handed to the parser (%s) is not derived from the file_name the callback saw" % render(a1),
                 key="parsed-path-source")
    abs_path_rule(prog, ctx, "G2")
    opened_name_rule(prog, ctx, "G2")


def g3(prog, ctx, chain):
    sites = 0
    for wname, w in sorted(chain.items()):
        ctx.touch(w)
        for c in w.walk():
            if c.k != "CallExpr":
                continue
            callee = c.j.get("callee")
            if callee not in chain:
                continue
            f = chain[callee]
            idx_cb, idx_cbd = f.param_names().index(CB), f.param_names().index(CBD)
            args = c.call_args()
            sites += 1
            for idx, pname in ((idx_cb, CB), (idx_cbd, CBD)):
                a = args[idx]
                inst = "%s -> %s: %s" % (wname, callee, pname)
                if query.refs_param(a, pname):
                    m = param_modified(w, pname)
                    if m is None:
                        ctx.ok("G3", inst, c.where, "own unmodified parameter forwarded")
                    else:
                        ctx.fail("G3", inst, m.where, "%s modifies its %s parameter before forwarding it" % (wname, pname),
                                 key="forward:%s:%s:%s" % (wname, callee, pname))
                else:
                    ctx.fail("G3", inst, c.where,
                             "%s passes %s where its own %s belongs: the caller's check %s" % (
                                 wname, render(a), pname,
                                 "is skipped for these files" if a.is_null_const() else "is replaced"),
                             key="forward:%s:%s:%s" % (wname, callee, pname))
    # callers without a callback parameter: must pass the constants NULL, NULL
    for f in prog.lib_functions():
        if f.name in chain:
            continue
        for c in f.calls(set(chain)):
            callee = chain[c.j["callee"]]
            args = c.call_args()
            sites += 1
            for pname in (CB, CBD):
                a = args[callee.param_names().index(pname)]
                inst = "%s -> %s: %s" % (f.name, callee.name, pname)
                root, _sel = query.lvalue_root(a)
                if a.is_null_const():
                    ctx.ok("G3", inst, c.where, "variant without callback passes NULL")
                elif root is not None and root.j.get("dk") in query.GLOBAL_KINDS:
                    ctx.fail("G3", inst, c.where,
                             "the check reaches the gate through the static object `%s` (%s), not through the chain of parameters: a read started from inside the "
                             "callback (or by another thread) overwrites it, and the files that follow are parsed under that other read's callback - or none" % (
                                 root.j["name"], render(a)), key="forward-static:%s:%s:%s" % (f.name, callee.name, pname))
                else:
                    ctx.inconclusive("G3", inst, c.where, "non-callback caller passes %s" % render(a))
    for wname in NONCB_WRAPPERS:
        if not prog.has_fn(wname):
            ctx.inconclusive("G3", "wrapper %s" % wname, "", "anchor vanished")
    ctx.floor("C06.G3 forwarding call sites", sites, 8)


def _success_edge(lit, v):
    """edge literal says `v == 0` (success)"""
    return lit is not None and lit.kind == "truth" and lit.atom == v and not lit.pol


def g4(prog, ctx, chain):
    targets = set(chain) | set(EXTRA_CHAIN)
    forbidden = targets | {common.PARSER, "econf_mergeFiles"}
    sites = 0
    for w in prog.lib_functions():
        for c in w.calls(targets):
            callee = c.j["callee"]
            if w.name == callee:
                continue
            sites += 1
            ctx.touch(w)
            inst = "%s: result of %s" % (w.name, callee)
            key = "propagate:%s:%s" % (w.name, callee)
            up = c.up()
            cfg = w.cfg
            # (a) return F(...)
            if up is not None and up.k == "ReturnStmt":
                ctx.ok("G4", inst, c.where, "returned directly")
                continue
            # (b) v = F(...)
            v = None
            if up is not None and up.k == "BinaryOperator" and up.j.get("op") == "=" and up.children[1].strip() is c:
                l = up.children[0].strip()
                if l.k == "DeclRefExpr" and l.j.get("dk") == "local":
                    v = l.j["name"]
            elif up is not None and up.k == "DeclStmt":
                for d in up.j.get("decls", []):
                    if d.get("init", -1) >= 0 and w.nodes[d["init"]].strip() is c:
                        v = d["name"]
            if v is None:
                if up is not None and up.k == "CompoundStmt":
                    ctx.fail("G4", inst, c.where, "the result of %s is discarded: a failing or rejected file does not abort the read" % callee, key=key)
                else:
                    ctx.inconclusive("G4", inst, c.where, "result flows into %s; idiom not understood" % (up.k if up else "?"))
                continue
            start = cfg.block_of(c)
            swallow = TOLERATED_SWALLOW.get((w.name, callee))
            pos = cfg.index_of(up) or cfg.index_of(c)      # resume behind the statement that binds the result
            if pos[0] != start:
                pos = cfg.index_of(c)
            FAILV = "<failure of %s>" % callee
            swallow_val = prog.enumerators.get(swallow[0]) if swallow else None
            problems = []

            def cut_edge(lit, b, i, v=v):
                # tolerated: the one code that may continue (file absent in this layer)
                if swallow and lit is not None and lit.kind == "eq" and lit.pol:
                    for x, y in ((lit.lhs, lit.rhs), (lit.rhs, lit.lhs)):
                        if y.const_value() == swallow_val and y.const_value() is not None and x.strip().k == "DeclRefExpr":
                            return True
                return False

            def visit(b, fd, c=c, v=v, start=start, pos=pos):
                elems = cfg.blocks[b].elems
                for k, n in enumerate(elems):
                    if b == start and k <= pos[1] and not visit.left_start:
                        continue
                    if n.k == "CallExpr" and n.j.get("callee") in forbidden and n is not c:
                        problems.append(("call", n))
                    if n.k == "ReturnStmt" and not n.j.get("inlined_return"):
                        val = fd.get("=" + render(n.children[0])) if n.children else None
                        if val != FAILV:
                            over = n.children and n.children[0].strip().k == "DeclRefExpr" and query.returned_constant(n) is None
                            problems.append(("overwrite" if over else "return", n))
                visit.left_start = True
                if b == start and visit.count > 0:
                    problems.append(("loop", elems[-1] if elems else c))
                visit.count += 1 if b == start else 0
                return False
            visit.left_start = False
            visit.count = 0
            cfg.feasible_reach(None, cut_edge, lambda a: True, start=start, accept=visit, init_facts={v: True, "=" + v: FAILV}, start_index=pos[1] + 1)
            # the re-entry of the call block means the loop goes on after a failure
            if not problems:
                why = "on every consistent path with %s != 0 the function returns that value (possibly through copies) with no further file read" % v
                if swallow:
                    why += "; tolerated: %s (%s)" % (swallow[0], swallow[1])
                ctx.ok("G4", inst, c.where, why)
            else:
                kind, n = problems[0]
                msg = {"call": "after %s failed, %s still calls %s" % (callee, w.name, n.j.get("callee")),
                       "overwrite": "the error in `%s` is overwritten or dropped before `%s`" % (v, render(n)),
                       "return": "a failure of %s can end in `%s` instead of a return of its code" % (callee, render(n)),
                       "loop": "after %s failed the loop goes on to the next file (failure swallowed)" % callee}[kind]
                ctx.fail("G4", inst, n.where, msg, key=key)
    ctx.floor("C06.G4 propagation sites", sites, 7)


def g1b_g2b(prog, ctx, gate):
    """G1b every object that enters the history went through the gate (no other way to add a "file" to the list: a masking entry
    made up without reading is a file the callback was never asked about).   G2b the gate - and with it the callback - is given
    the name the file was found under, not a resolved one (= C16.X4)."""
    from rules import C16
    before = len(ctx.obs)
    C16.x4_callers(prog, ctx, gate)
    for ob in ctx.obs[before:]:
        if ob.rule == "X4":
            ob.rule = "G2"
    n = 0
    for fname in ("check_conf_dir", "readConfigHistoryWithCallback"):
        if not prog.has_fn(fname):
            continue
        f = prog.fn(fname)
        cfg = f.cfg
        gcalls = f.calls(gate.name)
        for lhs, rhs, st, kind in query.stores(f):
            if kind != "=" or rhs is None or not render(lhs).startswith("(*key_files)[") or rhs.is_null_const():
                continue
            n += 1
            inst = "%s: `%s` stores an object that passed the gate" % (fname, render(st)[:50])
            blocks = set(cfg.block_of(c) for c in gcalls)
            succ = {(b, i): s2 for (b, i, s2) in cfg.edges()}
            ok, cut = cfg.all_paths_cut(cfg.block_of(st), lambda lit, b, i: succ.get((b, i)) in blocks or b in blocks)
            if gcalls and ok and cut:
                ctx.ok("G1", inst, st.where, "every consistent path to the store passes %s()" % gate.name)
            else:
                ctx.fail("G1", inst, st.where,
                         "an object can be put into the history without %s() having been called for it: that file takes part in the result (it masks "
                         "same-named files of lower layers) although neither the callback nor the restrictions ever saw it" % gate.name,
                         key="history-entry-ungated:%s" % fname)
    ctx.counts["G1b history appends"] = n


def run(prog, ctx):
    gate, parser = common.choke_point(prog, ctx, "G1")
    g1b_g2b(prog, ctx, gate)
    chain = chain_functions(prog)
    if common.GATE not in chain:
        raise Inconclusive("the gate has no callback parameters")
    g2(prog, ctx, gate)
    g3(prog, ctx, chain)
    g4(prog, ctx, chain)
    try:
        from rules import own_rules
    except ImportError:
        ctx.notes.append("G5 (ownership on failure exits) not built yet")
        return
    own_rules.c06_g5(prog, ctx)
