"""C15 - parsing options do what they say.

O1 documented option names = names the tokenizer compares against       O2 each item stores into its own field and continues
O3 an unknown item returns ECONF_OPTION_NOT_FOUND                       O4 a repeated item releases the previous value and restarts its counter
O5 both parser flags reach every per-file parse                          O6 join_same_entries() runs exactly under the option"""
import os
import re

from sa.ast import render
from sa.facts import Inconclusive
from sa import query
from rules import own_rules

META = {
    "level": "other",
    "technique": "static analysis: doc-table vs code-table agreement, region reachability in the tokenizer loop, ownership typestate on "
                 "the option fields, must-pass-through of the flag stores before each per-file parse",
    "level_text": "Decides the option tokenizer (names, effects, unknown names, repetition) for every option string, and that the two "
                  "parser flags reach every per-file parse of every layered read. Also two structural necessary conditions of the option semantics: the join pass visits "
                  "every later definition (O7) and under PYTHON_STYLE the delimiter search never runs for an indented line (O8). Not decided: the "
                  "remaining join/reset and continuation semantics inside the line loop (value-level behaviour).",
    "level_note": "Partial. Trusted: clang front end/CFG, sa/own.py; the doc block of econf_newKeyFile_with_options in include/libeconf.h "
                  "is read as the documentation table.",
    "explanation": "tokenizer tables, repetition typestate, flag forwarding",
    "trusted_base": ["clang-14 front end and CFG", "sa/own.py", "sa/cfg.py"],
    "assumptions": ["no allocation failure"],
}

TOKENIZER = "econf_newKeyFile_with_options"
# frozen correspondence option -> fields it may store into
EFFECTS = {
    "JOIN_SAME_ENTRIES": {"join_same_entries"},
    "PYTHON_STYLE": {"python_style"},
    "PARSING_DIRS": {"parse_dirs", "parse_dirs_count"},
    "CONFIG_DIRS": {"conf_dirs", "conf_count"},
    "ROOT_PREFIX": {"root_prefix"},
}
COUNTERS = {"PARSING_DIRS": "parse_dirs_count", "CONFIG_DIRS": "conf_count"}
FLAGS = ("join_same_entries", "python_style")


def documented_options(prog):
    path = os.path.join(prog.repo, "include", "libeconf.h")
    txt = open(path).read()
    i = txt.find("extern econf_err econf_newKeyFile_with_options")
    if i < 0:
        raise Inconclusive("declaration of econf_newKeyFile_with_options not found in the header")
    j = txt.rfind("/**", 0, i)
    block = txt[j:i]
    k = block.find("Following options are supported")
    if k < 0:
        raise Inconclusive("doc block has no option list")
    names = re.findall(r"^ \*  ([A-Z][A-Z_]+)\s+\(default", block[k:], re.M)
    return names


def option_edges(f):
    """{option name: (block, edge idx)} - edge taken when o_opt matches the option"""
    cfg = f.cfg
    out = {}
    for (b, i, s) in cfg.edges():
        lit = cfg.edge_lit(b, i)
        if lit is None or lit.kind != "truth" or lit.pol or lit.node.k != "CallExpr":
            continue
        c = lit.node
        if c.j.get("callee") not in ("strcmp", "strncmp", "strcasecmp", "strncasecmp"):
            continue
        a = c.call_args()
        lits = [x.string_value() for x in a[:2]]
        L = lits[1] if lits[1] is not None else lits[0]
        if L is None:
            continue
        out[L] = (b, i, c)
    return out


def run(prog, ctx):
    f = prog.fn(TOKENIZER)
    ctx.touch(f)
    cfg = f.cfg
    loops = [n for n in f.walk() if n.k == "WhileStmt" and any(x.k == "CallExpr" and x.j.get("callee") in ("strsep", "strtok_r", "strtok")
                                                                for x in n.child("cond").walk()) and
             not any(a.k == "WhileStmt" for a in n.ancestors())]
    if len(loops) != 1:
        raise Inconclusive("token loop of the option parser not recognised")
    loop = loops[0]
    hb = cfg.loop_header(loop)
    edges = option_edges(f)
    code_names = {}
    for L, e in edges.items():
        code_names[L.split("=")[0]] = (L, e)
    # ---- O1 -------------------------------------------------------------------------------------------
    doc = documented_options(prog)
    for n in doc:
        if n in code_names:
            ctx.ok("O1", "documented option %s is implemented" % n, code_names[n][1][2].where, "compared as %r" % code_names[n][0])
        else:
            ctx.fail("O1", "documented option %s is implemented" % n, f.where,
                     "the header documents %s but the tokenizer compares only against %s" % (n, sorted(code_names)), key="doc-missing:%s" % n)
    for n in code_names:
        if n not in doc:
            ctx.fail("O1", "option %s is documented" % n, code_names[n][1][2].where, "accepted but not in the documented list %s" % doc,
                     key="undocumented:%s" % n)
    ctx.floor("C15 documented options", len(doc), 5)
    # exact-match options must be compared with strcmp, prefix options with strncmp over the literal's full length
    for n, (L, (b, i, c)) in code_names.items():
        if L.endswith("="):
            a = c.call_args()
            okp = c.j.get("callee") == "strncmp" and len(a) == 3 and a[2].const_value() == len(L)
            if okp:
                ctx.ok("O1", "%s is matched as a complete prefix" % n, c.where, "strncmp over %d bytes" % len(L))
            else:
                ctx.fail("O1", "%s is matched as a complete prefix" % n, c.where, "prefix compare %s does not cover %r" % (render(c), L),
                         key="prefix:%s" % n)
        else:
            if c.j.get("callee") == "strcmp":
                ctx.ok("O1", "%s is matched exactly" % n, c.where, "strcmp with %r" % L)
            else:
                ctx.fail("O1", "%s is matched exactly" % n, c.where, "%s accepts other items too" % render(c), key="exact:%s" % n)
    # ---- O2 / O4 counter ---------------------------------------------------------------------------------
    all_fields = set()
    for v in EFFECTS.values():
        all_fields |= v
    match_edges = set((b, i) for (L, (b, i, c)) in edges.items())
    for n, (L, (b, i, c)) in sorted(code_names.items()):
        if n not in EFFECTS:
            ctx.inconclusive("O2", "effect of option %s" % n, c.where, "no row in the effect table")
            continue
        start = cfg.blocks[b].succs[i]
        region = cfg.reachable(start, avoid_blocks=[hb])
        stored = {}
        for lhs, rhs, st, kind in query.stores(f):
            if cfg.block_of(st) in region:
                l = lhs.strip()
                root = l
                while root.k in ("ArraySubscriptExpr",):
                    root = root.children[0].strip()
                if root.k == "MemberExpr" and root.j.get("rec") == "econf_file":
                    stored.setdefault(root.j["member"], []).append((st, rhs))
        # &obj->field handed to a helper inside the region counts as a store by that helper
        for c2 in f.calls():
            if cfg.block_of(c2) not in region:
                continue
            for a2 in c2.call_args():
                a3 = a2.strip()
                if a3.k == "UnaryOperator" and a3.j.get("op") == "&":
                    i3 = a3.children[0].strip()
                    if i3.k == "MemberExpr" and i3.j.get("rec") == "econf_file":
                        stored.setdefault(i3.j["member"], []).append((c2, None))
        own = EFFECTS[n]
        foreign = set(stored) & (all_fields - own)
        main = sorted(own)[0] if len(own) == 1 else [x for x in own if not x.endswith("count")][0]
        if foreign:
            st = stored[sorted(foreign)[0]][0][0]
            ctx.fail("O2", "%s sets its own field" % n, st.where, "item %s stores into %s" % (n, sorted(foreign)), key="effect-foreign:%s" % n)
        elif main not in stored:
            ctx.fail("O2", "%s sets its own field" % n, c.where, "item %s never stores into %s" % (n, main), key="effect-missing:%s" % n)
        else:
            if n in ("JOIN_SAME_ENTRIES", "PYTHON_STYLE") and not any(r is not None and r.const_value() == 1 for (_, r) in stored[main]):
                ctx.fail("O2", "%s sets its own field" % n, stored[main][0][0].where, "stores %s" % (render(stored[main][0][1]) if stored[main][0][1] is not None else "through a helper"), key="effect-value:%s" % n)
            else:
                ctx.ok("O2", "%s sets its own field" % n, stored[main][0][0].where, "stores into %s only" % sorted(set(stored) & own))
        # the item is consumed: the region reaches the next token, not the not-found return
        nf = [r for r in query.returns_of_constant(f, "ECONF_OPTION_NOT_FOUND") if cfg.block_of(r) in region]
        if nf:
            ctx.fail("O2", "%s is accepted" % n, nf[0].where, "after handling %s the tokenizer falls through to ECONF_OPTION_NOT_FOUND" % n, key="fallthrough:%s" % n)
        elif hb in cfg.reachable(start):
            ctx.ok("O2", "%s is accepted" % n, c.where, "handled, then the next token is read")
        if n in COUNTERS:
            cnt = COUNTERS[n]
            resets = [st for (st, r) in stored.get(cnt, []) if r is not None and r.const_value() == 0 and st.k != "CallExpr"]
            incs = [st for lhs, rhs, st, kind in query.stores(f) if kind == "++" and cfg.block_of(st) in region and cnt in render(lhs)]
            anew = [st for (st, r) in stored.get(cnt, []) if r is not None and st.k == "BinaryOperator" and st.j.get("op") == "=" and cnt not in render(r)]
            if resets and all(cfg.node_dominates(resets[0], x) for x in incs):
                ctx.ok("O4", "%s restarts its counter" % n, resets[0].where, "%s = 0 before the element loop" % cnt)
            elif not incs and anew:
                ctx.ok("O4", "%s restarts its counter" % n, anew[0].where, "`%s`: the count of the new list is assigned, not added to" % render(anew[0])[:60])
            else:
                ctx.fail("O4", "%s restarts its counter" % n, c.where,
                         "a second %s= item keeps counting from the first list: the new array's leading slots are never filled and "
                         "econf_free() crashes on them" % n, key="counter:%s" % n)
    # ---- O3 ---------------------------------------------------------------------------------------------------
    body_entry = cfg.loop_body_entry(loop)
    region = cfg.reachable(body_entry, avoid_edges=match_edges, avoid_blocks=[hb])
    rets = [r for r in f.returns() if cfg.block_of(r) in region]
    consts = set(query.returned_constant(r) for r in rets)
    reaches_next = any(s == hb and b in region and (b, i) not in match_edges for (b, i, s) in cfg.edges())
    # the same through a status variable: `else ret = ECONF_OPTION_NOT_FOUND;` and a loop that runs `while (ret == ECONF_SUCCESS && ..)`:
    # what can a call return on the consistent paths that start with an item matching no name?
    vals3 = set()
    if not (consts == {"ECONF_OPTION_NOT_FOUND"} and not reaches_next):
        def acc3(b, fd):
            for n3 in cfg.blocks[b].elems:
                if n3.k == "ReturnStmt" and not n3.j.get("inlined_return"):
                    if n3.children:
                        e3 = n3.children[0]
                        cv3 = e3.const_value()
                        vals3.add(cv3 if cv3 is not None else fd.get("=" + render(e3)))
                    else:
                        vals3.add(None)
            return False
        # first the round of the unknown item (no name may match), then whatever follows (later items may match)
        at_header = []

        def acc_first(b, fd):
            if b == hb:
                at_header.append(dict(fd))
            return acc3(b, fd)
        try:
            cfg.feasible_reach(None, lambda lit, b, i: (b, i) in match_edges or b == hb, lambda a: True, start=body_entry, accept=acc_first)
            seen9 = set()
            for fd9 in at_header:
                k9 = frozenset(fd9.items())
                if k9 in seen9:
                    continue
                seen9.add(k9)
                cfg.feasible_reach(None, lambda lit, b, i: False, lambda a: True, start=hb, accept=acc3, init_facts=fd9)
        except Inconclusive:
            vals3 = {None}
    nf3 = prog.enumerators.get("ECONF_OPTION_NOT_FOUND")
    if consts == {"ECONF_OPTION_NOT_FOUND"} and not reaches_next:
        ctx.ok("O3", "an unknown item is refused", rets[0].where, "the path on which no name matches returns ECONF_OPTION_NOT_FOUND")
    elif vals3 and vals3 <= {nf3, prog.enumerators.get("ECONF_NOMEM")} and nf3 in vals3:
        ctx.ok("O3", "an unknown item is refused", f.where, "every consistent path that starts with an item matching no name ends in a return of ECONF_OPTION_NOT_FOUND")
    else:
        ctx.fail("O3", "an unknown item is refused", f.where,
                 "an item matching none of the names %s" % ("is skipped and the next token is read (returns success)" if reaches_next else "returns %s" % sorted(str(c) for c in consts)),
                 key="unknown-item")
    # ---- O4 ownership -----------------------------------------------------------------------------------------
    own_rules.c15_o4(prog, ctx)
    # ---- O5 flags --------------------------------------------------------------------------------------------------
    rc = prog.fn("readConfigWithCallback")
    hist = prog.fn("readConfigHistoryWithCallback")
    ctx.touch(rc, hist)
    pn = hist.param_names()
    for c in rc.calls("readConfigHistoryWithCallback"):
        a = c.call_args()
        for fl in FLAGS:
            if fl not in pn:
                raise Inconclusive("history builder lost parameter %s" % fl)
            got = render(a[pn.index(fl)])
            if got == "(*result)->%s" % fl:
                ctx.ok("O5", "readConfigWithCallback forwards %s" % fl, c.where, "passes the object's own flag")
            else:
                ctx.fail("O5", "readConfigWithCallback forwards %s" % fl, c.where, "passes %s" % got, key="flag-forward:%s" % fl)
    for fname in ("readConfigHistoryWithCallback", "check_conf_dir"):
        g = prog.fn(fname)
        ctx.touch(g)
        gcfg = g.cfg
        for nc in g.calls("econf_newKeyFile_with_options"):
            a0 = nc.call_args()[0].strip()
            if not (a0.k == "UnaryOperator" and a0.j.get("op") == "&"):
                continue
            v = render(a0.children[0])
            gates = [x for x in g.calls("read_file_with_callback") if render(x.call_args()[0]) == "&" + v]
            for fl in FLAGS:
                sts = [st for lhs, rhs, st, kind in query.stores(g) if render(lhs) == "%s->%s" % (v, fl) and rhs is not None and render(rhs) == fl]
                blocks = set(gcfg.block_of(s) for s in sts)
                ok = bool(sts) and all(gcfg.block_of(x) not in gcfg.reachable(gcfg.block_of(nc), avoid_blocks=blocks) or gcfg.block_of(x) in blocks for x in gates)
                other = [st for lhs, rhs, st, kind in query.stores(g) if render(lhs) == "%s->%s" % (v, fl) and rhs is not None and render(rhs) != fl]
                if ok and gates:
                    ctx.ok("O5", "%s: per-file object gets %s" % (fname, fl), sts[0].where, "%s->%s = %s on every path from creation to the parse" % (v, fl, fl))
                elif other and not sts and fl not in g.param_names():
                    ctx.inconclusive("O5", "%s: per-file object gets %s" % (fname, fl), other[0].where,
                                     "the flag is taken from `%s`, not from a parameter of %s" % (render(other[0].children[1]), fname))
                else:
                    ctx.fail("O5", "%s: per-file object gets %s" % (fname, fl), nc.where,
                             "a file can be parsed with %s unset although the caller asked for it" % fl, key="flag-store:%s:%s" % (fname, fl))
    tr = prog.fn("traverse_conf_dirs")
    for c in tr.calls("check_conf_dir"):
        cpn = prog.fn("check_conf_dir").param_names()
        for fl in FLAGS:
            if fl not in cpn:
                ctx.inconclusive("O5", "traverse_conf_dirs forwards %s" % fl, c.where, "check_conf_dir has no parameter `%s` any more" % fl)
                continue
            got = render(c.call_args()[cpn.index(fl)])
            if got == fl:
                ctx.ok("O5", "traverse_conf_dirs forwards %s" % fl, c.where, "own parameter")
            else:
                ctx.fail("O5", "traverse_conf_dirs forwards %s" % fl, c.where, "passes %s" % got, key="flag-forward-traverse:%s" % fl)
    for c in hist.calls("traverse_conf_dirs"):
        tpn = tr.param_names()
        for fl in FLAGS:
            if fl not in tpn:
                ctx.inconclusive("O5", "readConfigHistoryWithCallback forwards %s" % fl, c.where, "traverse_conf_dirs has no parameter `%s` any more" % fl)
                continue
            got = render(c.call_args()[tpn.index(fl)])
            if got == fl:
                ctx.ok("O5", "history builder forwards %s to the drop-in scan" % fl, c.where, "own parameter")
            else:
                ctx.fail("O5", "history builder forwards %s to the drop-in scan" % fl, c.where, "passes %s" % got, key="flag-forward-hist:%s" % fl)
    # ---- O6 -------------------------------------------------------------------------------------------------------------
    rf = prog.fn("read_file")
    ctx.touch(rf)
    rcfg = rf.cfg
    jc = rf.calls("join_same_entries")
    if len(jc) != 1:
        ctx.fail("O6", "join_same_entries() is called", rf.where, "%d calls" % len(jc), key="join-call")
    else:
        o7c(prog, ctx)
        o8(prog, ctx)
        o8b(prog, ctx)
        o9(prog, ctx)
        o10(prog, ctx)
        o11_list_members(prog, ctx)
        o12_root_prefix(prog, ctx)
        o13_join_pairs_by_equality(prog, ctx)
        ok, cut = rcfg.all_paths_cut(rcfg.block_of(jc[0]), lambda lit, b, i: lit is not None and lit.atom.endswith("->join_same_entries") and lit.pol)
        if ok and cut:
            ctx.ok("O6", "join_same_entries() runs only under the option", jc[0].where, "behind `ef->join_same_entries`")
        else:
            ctx.fail("O6", "join_same_entries() runs only under the option", jc[0].where, "reachable without the option: first-definition-wins is lost",
                     key="join-unconditional")
        # O7: the join pass looks at every later definition of every entry
        jf = prog.fn("join_same_entries")
        ctx.touch(jf)
        from sa import loops as _loops
        LOOPK = ("ForStmt", "WhileStmt", "DoStmt")
        obj = jf.params[0]["name"]
        fl = [x for x in jf.walk() if x.k in LOOPK and any(c2.k == "CallExpr" and c2.j.get("callee") == "strcmp" for c2 in x.walk())]
        outer = [x for x in fl if not any(a.k in LOOPK for a in x.ancestors())]
        inner = [x for x in fl if any(a is outer[0] for a in x.ancestors())] if len(outer) == 1 else []
        inner = [x for x in inner if not any(a.k in LOOPK and a is not outer[0] and a.within(outer[0]) for a in x.ancestors())]
        verdict = None
        if len(outer) == 1 and len(inner) == 1:
            to = [t for t in _loops.traversals(outer[0]) if t.base == "%s->file_entry" % obj]
            desc = ""
            ok_shape = None
            if to and to[0].covers("%s->file_entry" % obj, "%s->length" % obj):
                t0 = to[0]
                if not t0.ptr:
                    si = _loops.index_shape(inner[0])
                    ok_shape = si.ok and si.step > 0 and si.start == "%s + 1" % t0.var and si.cmp == "<" and si.bound == "%s->length" % obj
                    desc = "%s; %s" % (t0.describe(), si.describe())
                else:
                    # pointer form: q starts at the outer pointer (pre-incremented in the condition) or one behind it, and runs to the same end
                    cond = inner[0].child("cond")
                    c0 = cond.strip() if cond is not None else None
                    ok_shape = False
                    if c0 is not None and c0.k == "BinaryOperator" and c0.j.get("op") == "<":
                        lhs0 = c0.children[0].strip()
                        pre = lhs0.k == "UnaryOperator" and lhs0.j.get("op") == "++" and not lhs0.j.get("postfix")
                        q = render(lhs0.children[0]) if pre else render(lhs0)
                        endn = c0.children[1].strip()
                        endt = render(endn)
                        from sa.dataflow import ReachingDefs
                        rdj = ReachingDefs(jf)
                        if endn.k == "DeclRefExpr" and endn.j.get("dk") == "local":
                            dsx = [d for d in rdj.defs if d.var == endn.j["name"] and d.kind in ("init", "assign") and d.rhs is not None]
                            endt = render(dsx[0].rhs) if len(dsx) == 1 else endt
                        qd = [d for d in rdj.reaching(q, lhs0 if pre else cond) if d.node is None or not d.node.within(inner[0])]
                        qd = [d for d in qd if d.kind in ("init", "assign") and d.rhs is not None]
                        incs = [x for x in inner[0].walk() if x.k == "UnaryOperator" and x.j.get("op") == "++" and render(x.children[0]) == q]
                        start_ok = len(qd) == 1 and ((pre and render(qd[0].rhs) == t0.var) or (not pre and render(qd[0].rhs) == "%s + 1" % t0.var))
                        ok_shape = start_ok and len(incs) == 1 and endt == "%s->file_entry + %s->length" % (obj, obj)
                        desc = "%s; inner pointer `%s` from %s%s up to %s" % (t0.describe(), q, render(qd[0].rhs) if qd else "?", " (+1 in the condition)" if pre else "", endt)
            if ok_shape is None:
                ctx.inconclusive("O7", "the join pass visits every later definition of a key", jf.where, "outer loop over %s->file_entry not recognised" % obj)
            else:
                early = [x for x in inner[0].child("body").walk() if x.k in ("BreakStmt", "GotoStmt") or (
                    x.k == "ReturnStmt" and not x.j.get("inlined_return") and query.returned_constant(x) != "ECONF_NOMEM")]
                early = [x for x in early if not any(a.k in LOOPK + ("SwitchStmt",) and a is not inner[0] and a.within(inner[0]) for a in x.ancestors())]
                # `return error;` that can only carry ECONF_NOMEM (the status of a helper that allocates) is the out-of-memory exit as well
                nomem = prog.enumerators.get("ECONF_NOMEM")
                early = [x for x in early if not (x.k == "ReturnStmt" and x.children and x.children[0].strip().k == "DeclRefExpr"
                                                  and jf.cfg.values_at_return(x) <= {nomem})]
                if ok_shape and not early:
                    ctx.ok("O7", "the join pass visits every later definition of a key", inner[0].where, "%s; no early exit" % desc)
                elif not ok_shape:
                    ctx.fail("O7", "the join pass visits every later definition of a key", inner[0].where, "loops are %s" % desc, key="join-range")
                else:
                    ctx.fail("O7", "the join pass visits every later definition of a key", early[0].where,
                             "the scan of later definitions is left early (%s): with three or more definitions only the first ones are joined" % early[0].k, key="join-early-exit")
            # each key's list is made of its own definitions: nothing the pass remembers about one key is used for the next
            car = _loops.carried_locals(outer[0])
            if car:
                v, dnode, unode = car[0]
                ctx.fail("O7", "the join of a key uses only that key's definitions", unode.where,
                         "`%s` set at %s while one key is joined is still in force when the next key is joined (it is not set again at the start of "
                         "a round of the outer loop): the value list of a key then depends on how the key before it ended" % (v, dnode.where),
                         key="join-carried:%s" % v)
            else:
                ctx.ok("O7", "the join of a key uses only that key's definitions", outer[0].where, "no local survives from one round of the outer loop to the next")
        else:
            ctx.inconclusive("O7", "the join pass visits every later definition of a key", jf.where, "pairwise loops not recognised")
        a0 = render(jc[0].call_args()[0])
        if a0 == rf.params[0]["name"]:
            ctx.ok("O6", "join_same_entries() works on the file being read", jc[0].where, a0)
        else:
            ctx.fail("O6", "join_same_entries() works on the file being read", jc[0].where, "argument %s" % a0, key="join-arg")


def o8b(prog, ctx):
    """O8b: a continuation is recognised by the previous entry's line number (entry.line_number + 1 == line in read_file): store()
    must record it whenever it accepts a line (= C17.P4)."""
    from rules import C17 as _C17
    _C17.success_records_line(prog, ctx, "O8")


def o7c(prog, ctx):
    """O7c: the join handles every definition a file can contain - also a first definition without a value (`key` with no delimiter, or
    `key=` with nothing behind it: the stored value is NULL): no NULL reaches a string routine in the join pass (= C04.S1 for it)."""
    from sa import nulls as _nulls
    if not prog.has_fn("join_same_entries"):
        return
    jf = prog.fn("join_same_entries")
    nf, uses = _nulls.analyse(prog, [jf])
    bad = [u for u in uses if not u.guarded]
    if bad:
        u = bad[0]
        ctx.fail("O7", "the join pass handles definitions without a value", u.node.where,
                 "`%s` may be NULL (a key that was first defined without a value) and reaches %s: the join of such a key crashes instead of "
                 "concatenating its later definitions" % (u.access if u.via is None else "%s (= %s)" % (u.via, u.access), u.sink), key="join-null:%s" % u.key)
    else:
        ctx.ok("O7", "the join pass handles definitions without a value", jf.where, "%d uses of nullable fields, all behind a NULL test" % len(uses))


def o10(prog, ctx):
    """O10: with JOIN_SAME_ENTRIES the joined text is kept in the FIRST entry of a key (the later ones stay behind it), and without
    it the first definition is the visible one: both hold only while look-ups return the first entry with that section and key,
    independently of earlier look-ups (= C11.A4)."""
    from rules import common as _common
    from rules import C11 as _C11
    _common.import_obligations(ctx, prog, [_C11.a4, _C11.a4_no_entry_passed_over], "O10", "look-ups find the entry that holds the joined value: ",
                               what="lookup of the entry")


def _list_builders(prog, f, field):
    """[(function, name of the array as that function writes it)]: the object's list itself, a local that is stored into it afterwards,
    or - one call level down - the local a helper stores through the out-parameter that was handed the list's address"""
    out = [(f, None)]
    published = set()
    for lhs, rhs, st, kind in query.stores(f):
        if kind == "=" and render(lhs).endswith("->" + field) and rhs is not None and rhs.strip().k == "DeclRefExpr" and rhs.strip().j.get("dk") == "local":
            published.add(rhs.strip().j["name"])
            out.append((f, rhs.strip().j["name"]))
    for c in f.calls():
        cn = c.j.get("callee")
        if not cn or cn == f.name or not prog.has_fn(cn) or prog.fn(cn).body is None:
            continue
        g = prog.fn(cn)
        for ai, a in enumerate(c.call_args()):
            a0 = a.strip()
            if a0.k == "UnaryOperator" and a0.j.get("op") == "&" and (render(a0.children[0]).endswith("->" + field) or render(a0.children[0]) in published) \
                    and ai < len(g.params):
                pn = g.params[ai]["name"]
                for lhs, rhs, st, kind in query.stores(g):
                    if kind == "=" and render(lhs) == "*" + pn and rhs is not None and rhs.strip().k == "DeclRefExpr" and rhs.strip().j.get("dk") == "local":
                        out.append((g, rhs.strip().j["name"]))
    return out


def _counted_split(g, st, lp, base):
    """count the separators, allocate once, fill slot i in round i: `members = 1; for (p ..) if (*p == sep) members++;
    arr = calloc(members + 1, ..); for (i = 0; i < members; i++) arr[i] = strndup(..)`.  Text that says why it is (not) that form."""
    from sa import loops as _loops
    cfg = g.cfg
    sh = _loops.index_shape(lp)
    l0 = st.children[0].strip()
    if not (sh.ok and sh.step > 0 and sh.cmp == "<" and sh.start == "0" and render(l0.children[1]) == sh.var):
        return None
    M = sh.bound
    hb = cfg.loop_header(lp)
    if hb is None or not cfg.every_round_passes(hb, cfg.block_of(st)):
        return ("fail", "some rounds of the filling loop store no member")
    defs = [(r2, s2) for l2, r2, s2 in g.assignments() if (l2["name"] if isinstance(l2, dict) else render(l2)) == M and r2 is not None]
    incs = [s2 for l2, r2, s2, k2 in query.stores(g) if k2 == "++" and s2.j.get("op") == "++" and render(l2) == M]
    if not (len(defs) == 1 and defs[0][0].const_value() == 1 and incs):
        return None
    for inc in incs:
        # the increment stands behind a comparison of a character with the separator, or in a loop that steps from one separator to the next
        req = cfg.required_literals(cfg.block_of(inc))
        by_char = any(l.kind == "eq" and l.pol and (render(l.lhs).startswith("*") or "[" in render(l.lhs) or render(l.rhs).startswith("*")) for l in req)
        ilp = next((a for a in inc.ancestors() if a.k in ("ForStmt", "WhileStmt")), None)
        by_search = ilp is not None and any(x.k == "CallExpr" and x.j.get("callee") in ("strchr", "memchr") for x in ilp.walk())
        if not (by_char or by_search):
            return None
    alloc = [r2 for l2, r2, s2 in g.assignments() if (l2["name"] if isinstance(l2, dict) else (l2.strip().j.get("name") if l2.strip().k == "DeclRefExpr" else render(l2))) == base and r2 is not None
             and r2.strip().k == "CallExpr" and r2.strip().j.get("callee") in ("calloc", "malloc")]
    if not alloc or not any(("%s + 1" % M) in render(a) for a in alloc):
        return None
    return ("ok", "members counted as separators + 1 (%s), array of %s + 1 slots, slot i filled in every round of %s" % (M, M, sh.describe()))


def o11_list_members(prog, ctx, rule="O11"):
    """O11: the members of PARSING_DIRS= / CONFIG_DIRS= are what stands between the colons, empty members included: an empty directory is
    what econf_readDirs*() makes of a NULL argument and an empty postfix names <dir>/<name>/ itself.  strsep() keeps them, strtok() /
    strtok_r() skip them (and runs of separators); a hand-written split must count one member more than there are separators."""
    from rules.C01 import enclosing_loop as _el
    f = prog.fn("econf_newKeyFile_with_options")
    ctx.touch(f)
    n = 0
    for field in ("parse_dirs", "conf_dirs"):
        sites = []
        for g, base in _list_builders(prog, f, field):
            for lhs, rhs, st, kind in query.stores(g):
                l0 = lhs.strip()
                if l0.k == "ArraySubscriptExpr" and rhs is not None and not rhs.is_null_const() and (
                        (base is None and render(l0.children[0]).endswith("->" + field)) or (base is not None and (
                            render(l0.children[0]) == base or (l0.children[0].strip().k == "DeclRefExpr" and l0.children[0].strip().j.get("name") == base)))):
                    sites.append((g, base, st))
        if not sites:
            ctx.inconclusive(rule, "members of the %s list" % field, f.where, "no store of a member found")
            continue
        for g, base, st in sites:
            ctx.touch(g)
            lp = _el(st)
            toks = set()
            if lp is not None:
                for part in ("cond", "init", "inc"):
                    pn = lp.child(part)
                    if pn is not None:
                        toks |= set(x.j.get("callee") for x in pn.walk() if x.k == "CallExpr" and x.j.get("callee") in ("strsep", "strtok", "strtok_r"))
            n += 1
            every_round = True
            if lp is not None:
                cfg = g.cfg
                hb = cfg.loop_header(lp)
                if hb is not None:
                    # a way round the loop that does not pass the store (NOMEM exits leave the loop, they do not go round)
                    every_round = cfg.every_round_passes(hb, cfg.block_of(st))
            if toks and toks <= {"strsep"} and not every_round:
                ctx.fail(rule, "members of the %s list" % field, st.where,
                         "some rounds of the splitting loop store no member (empty members are skipped): a list of empty members only leaves the array allocated "
                         "with a count of 0 - for the readers `count == 0` means \"no list\", they install the default list over the pointer (the array leaks) and an "
                         "empty directory / postfix can no longer be named" % (), key="list-member-skipped:%s" % field)
            elif toks and toks <= {"strsep"}:
                ctx.ok(rule, "members of the %s list" % field, st.where, "split with strsep(): every separator ends a member, empty ones included")
            elif toks & {"strtok", "strtok_r"}:
                ctx.fail(rule, "members of the %s list" % field, st.where,
                         "split with %s(), which skips empty members: `%s=:` no longer names two empty directories (= econf_readDirs*(NULL, NULL)) but none at all, "
                         "and the read falls back to the default layers; an empty postfix (the directory itself) cannot be named" % (
                             sorted(toks & {"strtok", "strtok_r"})[0], field.upper()), key="list-tokenizer:%s" % field)
            else:
                counted = _counted_split(g, st, lp, base) if (lp is not None and base is not None) else None
                if counted is not None and counted[0] == "ok":
                    ctx.ok(rule, "members of the %s list" % field, st.where, counted[1])
                else:
                    ctx.inconclusive(rule, "members of the %s list" % field, st.where, "the list is split in a form not understood")
    ctx.counts["%s list member stores" % rule] = n


def o12_root_prefix(prog, ctx):
    """O12: ROOT_PREFIX=<dir> has its documented effect - the default layers are looked up below <dir>: <dir>/<usr_subdir>, <dir>/run,
    <dir>/etc (with and without a project directory), composed like the unprefixed ones (= C01.L1)."""
    from rules import common as _common
    from rules import C01 as _C01
    _common.import_obligations(ctx, prog, [_C01.l1], "O12", "ROOT_PREFIX prefixes the default layers: ", keep=lambda ob: "layer" in ob.instance,
                               what="composition of the default layers")


def o13_join_pairs_by_equality(prog, ctx):
    """O13: JOIN_SAME_ENTRIES joins the definitions of ONE key: two entries are joined when their section and their key are EQUAL
    (strcmp), as everywhere else in the library - `include` and `Include` are two keys."""
    jf = prog.fn("join_same_entries")
    ctx.touch(jf)
    n = 0
    for c in jf.calls(("strcmp", "strncmp", "strcasecmp", "strncasecmp", "memcmp", "strcoll")):
        a = [render(x) for x in c.call_args()]
        fld = "key" if all(".key" in t or "->key" in t for t in a[:2]) else ("group" if all(".group" in t or "->group" in t for t in a[:2]) else None)
        if fld is None:
            continue
        n += 1
        if a[0] == a[1]:
            ctx.fail("O13", "the join pairs entries by equal %s" % fld, c.where,
                     "`%s` compares an entry with itself: every later entry is taken for another definition of the key and joined into it" % render(c)[:70],
                     key="join-compare-self:%s" % fld)
        elif c.j["callee"] == "strcmp":
            ctx.ok("O13", "the join pairs entries by equal %s" % fld, c.where, render(c)[:70])
        else:
            ctx.fail("O13", "the join pairs entries by equal %s" % fld, c.where,
                     "`%s`: not equality of the whole name - the definitions of two different keys (names that differ in case / share a prefix) are "
                     "concatenated into one value list, and an empty definition of one resets the other" % render(c)[:70], key="join-compare:%s" % fld)
    if n < 2:
        ctx.inconclusive("O13", "the join pairs entries by equal section and key", jf.where, "%d comparisons of entry names found" % n)


def o9(prog, ctx):
    """O9: the text of a continuation line (python style: every indented line) reaches the value WHOLE - the parser unit copies
    lines and values without a length limit (= the C14 verdicts for read_file / store / join_same_entries)."""
    from sa.report import Ctx as _Ctx, FAIL as _FAIL
    from rules import C14 as _C14
    sub = _Ctx(ctx.prop, ctx.tier, prog)
    _C14.judge(prog, sub, False)
    n = 0
    for ob in sub.obs:
        if ob.instance.split(":")[0].split(" ")[0] in ("read_file", "store", "join_same_entries"):
            n += 1
            ob.rule = "O9"
            ctx.obs.append(ob)
    ctx.counts["O9 copy sites of the parser unit"] = n


def o8(prog, ctx):
    """O8: under PYTHON_STYLE an indented line is a continuation whatever it contains: the 'a delimiter was found' decision may only be
    taken on paths where the option is off or the raw line is not indented"""
    from rules import parser
    L = parser.landmarks(prog)
    rf, cfg = L.fn, L.cfg
    sts = [st for lhs, rhs, st, kind in query.stores(rf) if render(lhs) == "found_delim" and rhs is not None and rhs.const_value() != 0]
    decls = [n for n in rf.walk() if n.k == "DeclStmt" and any(d["name"] == "found_delim" for d in n.j.get("decls", []))]
    if not decls:
        ctx.inconclusive("O8", "python style: an indented line continues the value even if it contains the delimiter", rf.where, "`found_delim` vanished")
        return
    for d in decls[0].j.get("decls", []):
        if d["name"] == "found_delim" and d.get("init", -1) >= 0 and rf.nodes[d["init"]].const_value() != 0:
            ctx.fail("O8", "python style: an indented line continues the value even if it contains the delimiter", decls[0].where,
                     "`found_delim` starts as `%s` for every line: under PYTHON_STYLE an indented `word=...` line becomes a new key instead of continuing the value"
                     % render(rf.nodes[d["init"]]), key="python-found-delim")
            return
    if not sts:
        ctx.inconclusive("O8", "python style: an indented line continues the value even if it contains the delimiter", rf.where, "no assignment decides found_delim")
        return

    def not_python_indented(lit, b, i):
        if lit is None:
            return False
        if lit.atom.endswith("->python_style") and not lit.pol:
            return True
        if ("__ctype_b_loc" in lit.atom or "isspace(" in lit.atom) and "org_buf" in lit.atom and not lit.pol:
            return True
        # the same test through a classifier of the library's own: `blank = (*org_buf == ' ' || *org_buf == '\t' || ...); if (!blank)`
        if lit.kind == "truth" and not lit.pol and lit.node is not None and lit.node.strip().k == "DeclRefExpr" and lit.node.strip().j.get("dk") == "local":
            rhs9 = cfg._flag_def(lit.node.strip().j["name"], b)
            t9 = render(rhs9) if rhs9 is not None else ""
            if "org_buf" in t9 and "== ' '" in t9 and "'\\x09'" in t9:
                return True
        if not lit.pol and "org_buf" in lit.atom and "== ' '" in lit.atom and "'\\x09'" in lit.atom:
            return True
        return False
    bad = None
    for st in sts:
        ok, cut = cfg.all_paths_cut(cfg.block_of(st), not_python_indented, start=cfg.block_of(decls[0]))
        if not (ok and cut):
            bad = st
    if bad is None:
        ctx.ok("O8", "python style: an indented line continues the value even if it contains the delimiter", sts[0].where,
               "all %d assignments that can set found_delim are behind `python_style == false || !isspace(*org_buf)`" % len(sts))
    else:
        ctx.fail("O8", "python style: an indented line continues the value even if it contains the delimiter", bad.where,
                 "`%s` is reachable for an indented line under PYTHON_STYLE: an indented `word=...` line becomes a new key instead of continuing the value" % render(bad),
                 key="python-found-delim")
