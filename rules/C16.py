"""C16 - owner, group and symlink restrictions gate every file of every read.

X1  path conditions in the gate (read_file_with_callback), per restriction r:
      every path to the parser call carries  not(flag_r) or not(mismatch_r);
      every path to `return code_r` carries flag_r and mismatch_r (right polarity, right stat field);
      the struct stat comes from lstat() of the function's own file_name.
X2  choke point: no other way to file content (shared with C06.G1).
X3  reset stores the permissive constant into every flag the gate reads; each setter writes its own pair.
X4  callers hand the gate the name as found (no realpath before the lstat).   X5  a refusal aborts the read (= C06.G4)."""
from sa.ast import render
from sa.facts import Inconclusive
from sa import query
from rules import common

META = {
    "level": "proof",
    "technique": "static analysis: must-pass-through (edge-cut reachability) on clang's CFG of the gate, who-may-call, global write sets",
    "level_text": "All obligations are graph facts over every path of the single gate function and over all writers of the "
                  "restriction globals, so they hold for every tree, every file position, every combination of restrictions "
                  "and every entry point; nothing is sampled.",
    "level_note": "Trusted: clang-14 front end/CFG, sa/cfg.py, POSIX lstat semantics. Assumes the callback is opaque and the "
                  "call graph closed (address of the parser never taken - checked).",
    "explanation": "must-pass-through on the gate's CFG + who-may-call + global write sets",
    "trusted_base": ["clang-14 front end and CFG", "sa/cfg.py reachability", "sa/cond.py literal normalisation",
                     "POSIX semantics of lstat/S_IFLNK"],
    "assumptions": ["the user callback is opaque and cannot reach library objects",
                    "call graph closed: the parser is only reachable through direct calls (address-taken check)"],
}

# restriction table (frozen from reading lib/getfilecontents.c and lib/libeconf.c):
#   name, flag global, polarity of the flag when the restriction is active,
#   mismatch test, error code
RESTRICTIONS = [
    ("symlink", "allow_follow_symlinks", False, ("mode-is-link",), "ECONF_ERROR_FILE_IS_SYM_LINK"),
    ("owner", "file_owner_set", True, ("neq", "st_uid", "file_owner"), "ECONF_WRONG_OWNER"),
    ("group", "file_group_set", True, ("neq", "st_gid", "file_group"), "ECONF_WRONG_GROUP"),
]
PERMISSION_FLAG = ("file_permissions_set", True)
S_IFMT, S_IFLNK = 0o170000, 0o120000

SETTERS = {
    "econf_requireOwner": {"file_owner_set": "true", "file_owner": "param"},
    "econf_requireGroup": {"file_group_set": "true", "file_group": "param"},
    "econf_requirePermissions": {"file_permissions_set": "true", "file_perms_file": "param", "file_perms_dir": "param"},
    "econf_followSymlinks": {"allow_follow_symlinks": "param"},
}
RESET = "econf_reset_security_settings"


def _stat_var(gate, ctx):
    """The struct stat variable the guards read, and the call that fills it."""
    cands = []
    for c in gate.calls(("lstat", "stat", "fstatat", "lstat64", "stat64", "fstat")):
        cands.append(c)
    return cands


def _member_of(node, var, field):
    s = node.strip()
    return s.k == "MemberExpr" and s.j.get("member") == field and render(s) in ("%s.%s" % (var, field), "%s->%s" % (var, field))


def _is_flag(lit, flag):
    return lit is not None and lit.kind == "truth" and lit.atom == flag


def _mismatch_kind(lit, spec, statvar):
    """Classify an edge literal against the mismatch spec: returns True if the literal says
    'mismatch holds', False if it says 'no mismatch', None if unrelated."""
    if lit is None:
        return None
    if spec[0] == "neq":
        _, field, glob = spec
        if lit.kind != "eq":
            return None
        a, b = lit.lhs, lit.rhs
        ok = (_member_of(a, statvar, field) and render(b) == glob) or (_member_of(b, statvar, field) and render(a) == glob)
        if not ok:
            return None
        return not lit.pol          # equal -> no mismatch
    if spec[0] == "mode-is-link":
        if lit.kind != "eq":
            return None
        for x, y in ((lit.lhs, lit.rhs), (lit.rhs, lit.lhs)):
            xs = x.strip()
            if y.const_value() == S_IFLNK and xs.k == "BinaryOperator" and xs.j.get("op") == "&":
                ops = xs.children
                if any(_member_of(o, statvar, "st_mode") for o in ops) and any(o.const_value() == S_IFMT for o in ops):
                    return lit.pol   # (mode & S_IFMT) == S_IFLNK -> is a link -> mismatch
        return None
    return None


RESOLVERS = ("realpath", "canonicalize_file_name", "get_absolute_path", "readlink", "readlinkat")


def x4_callers(prog, ctx, gate):
    """X4: the gate is given the name the file was FOUND under.  A caller that resolves the name first (realpath and friends
    follow symbolic links) makes lstat() in the gate look at the link's target: the symlink restriction can no longer fire and
    owner/group are those of the target."""
    from sa.dataflow import ReachingDefs, origins
    n = 0
    for f in prog.lib_functions():
        calls = f.calls(gate.name)
        if not calls or f.name == gate.name:
            continue
        rd = ReachingDefs(f)
        for c in calls:
            n += 1
            a = c.call_args()[1]
            o = origins(rd, a, c, passthrough={"stpcpy": 0, "strcpy": 0, "strcat": 0, "strncpy": 0, "memcpy": 0, "mempcpy": 0})
            res = [x for x in o if not isinstance(x, tuple) and x.k == "CallExpr" and x.j.get("callee") in RESOLVERS]
            # a direct use of a resolver's output buffer
            direct = [r for r in f.calls(RESOLVERS) if len(r.call_args()) > 1 and render(r.call_args()[1]) == render(a)]
            inst = "%s hands the gate the name as found" % f.name
            if res or direct:
                rr = (res or direct)[0]
                ctx.fail("X4", inst, c.where,
                         "the file name passed to %s() comes out of %s(): symbolic links are resolved before the gate's lstat(), so the no-symlink rule "
                         "never fires for that file and owner/group are checked on the link's target" % (gate.name, rr.j["callee"]), key="resolved-before-gate:%s" % f.name)
            else:
                ctx.ok("X4", inst, c.where, "argument `%s` does not stem from realpath()/get_absolute_path()" % render(a))
    ctx.counts["X4 callers of the gate"] = n


def x7_defaults(prog, ctx, gate):
    """X7: a process that has set no restriction has none: the flags start as "not set" (owner, group, permissions) and "links are
    followed" - the values econf_reset_security_settings() goes back to.  And the directory whose permissions are checked is the
    directory of the file being checked (dirname of a copy of its name)."""
    want = {"file_owner_set": 0, "file_group_set": 0, "file_permissions_set": 0, "allow_follow_symlinks": 1}
    for name, w in sorted(want.items()):
        g = prog.globals.get(name)
        if g is None:
            ctx.inconclusive("X7", "%s starts %s" % (name, "set" if w else "clear"), "", "global vanished (regrouped?)")
            continue
        v = None
        if g.init is not None and g.init >= 0 and g.nodes_j:
            from sa.ast import Node as _Node
            nj = g.nodes_j[g.init]
            v = nj.get("val") if nj.get("val") is not None else nj.get("value")
            if v is None:
                # through casts / literals kept as sub-nodes
                for x in g.nodes_j:
                    if x and x.get("k") in ("IntegerLiteral", "CXXBoolLiteralExpr") and x.get("val") is not None:
                        v = x.get("val")
        elif g.init is None or g.init < 0:
            v = 0           # static storage: zero
        try:
            v = int(v)
        except (TypeError, ValueError):
            v = None
        where = "%s:%s" % (g.file, g.line)
        if v is None:
            ctx.inconclusive("X7", "%s starts %s" % (name, "set" if w else "clear"), where, "initial value not read")
        elif bool(v) == bool(w):
            ctx.ok("X7", "%s starts %s" % (name, "set" if w else "clear"), where, "initial value %s" % v)
        else:
            ctx.fail("X7", "%s starts %s" % (name, "set" if w else "clear"), where,
                     "the flag starts as %s: a process that never called a restriction setter %s" % (
                         v, "refuses every symbolic link" if name == "allow_follow_symlinks" else "has files refused against an owner / group / mode of 0 it never asked for"),
                     key="initial:%s" % name)
    # the directory check looks at dirname(<the file's name>)
    dn = gate.calls(("dirname", "__xpg_dirname"))
    for c in dn:
        a = c.call_args()[0].strip()
        ok = False
        if a.k == "DeclRefExpr" and a.j.get("dk") == "local":
            defs = [r for l, r, st in gate.assignments() if (l["name"] if isinstance(l, dict) else render(l)) == a.j["name"] and r is not None]
            ok = bool(defs) and all(r.strip().k == "CallExpr" and r.strip().j.get("callee") in ("strdup", "strndup") and query.refs_param(r.strip().call_args()[0], "file_name")
                                    for r in defs)
        elif query.refs_param(a, "file_name"):
            ok = True
        if ok:
            ctx.ok("X7", "the directory checked is the file's directory", c.where, "dirname(copy of file_name)")
        else:
            ctx.fail("X7", "the directory checked is the file's directory", c.where,
                     "`%s`: not the directory part of the name being checked - the permission rule for directories is applied to another directory (\".\" for NULL)" % render(c)[:60],
                     key="dirname-source")


def run(prog, ctx):
    gate, parser = common.choke_point(prog, ctx, "X2")
    x7_defaults(prog, ctx, gate)
    x4_callers(prog, ctx, gate)
    # X5: a refusal aborts the whole read - the code travels up unchanged and no further file is read (= C06.G4), and no loop over
    # files is left with success (own_rules.no_early_success)
    from rules import C06, own_rules
    before = len(ctx.obs)
    C06.g4(prog, ctx, C06.chain_functions(prog))
    own_rules.no_early_success(prog, ctx, "X5")
    for ob in ctx.obs[before:]:
        if ob.rule == "G4":
            ob.rule = "X5"
    cfg = gate.cfg
    pcall = query.unique_call(gate, common.PARSER)
    tblock = cfg.block_of(pcall)

    # ---- the stat source --------------------------------------------------------------
    statvar = None
    for c in _stat_var(gate, ctx):
        args = c.call_args()
        name = c.j.get("callee")
        if name in ("lstat", "lstat64") and len(args) == 2 and query.refs_param(args[0], "file_name"):
            a1 = args[1].strip()
            if a1.k == "UnaryOperator" and a1.j.get("op") == "&":
                statvar = render(a1.children[0])
                statcall = c
                break
    if statvar is None:
        # recognised deviant: stat() instead of lstat(), or another path
        dev = [c for c in _stat_var(gate, ctx)]
        for c in dev:
            args = c.call_args()
            if c.j.get("callee") in ("stat", "stat64") and args and query.refs_param(args[0], "file_name"):
                ctx.fail("X1", "stat source", c.where,
                         "the gate inspects the file with stat(): links are followed, the symlink restriction is vacuous "
                         "and owner/group are those of the link target", key="stat-not-lstat")
                a1 = args[1].strip()
                if a1.k == "UnaryOperator":
                    statvar = render(a1.children[0])
                    statcall = c
                break
        if statvar is None:
            # lstat() on a name derived from file_name: resolved names follow the link, so the inspection is of the target
            from sa.dataflow import ReachingDefs, origins
            rdg = ReachingDefs(gate)
            for c in dev:
                args = c.call_args()
                if c.j.get("callee") in ("lstat", "lstat64") and len(args) == 2:
                    o = origins(rdg, args[0], c, passthrough={"stpcpy": 0, "strcpy": 0, "strcat": 0, "strncpy": 0, "memcpy": 0, "mempcpy": 0})
                    res = [x for x in o if not isinstance(x, tuple) and x.k == "CallExpr" and x.j.get("callee") in RESOLVERS
                           and any(query.refs_param(y, "file_name") for y in x.call_args())]
                    if res:
                        ctx.fail("X1", "stat source", c.where,
                                 "the gate inspects `%s`, which comes out of %s(file_name): symbolic links are resolved before lstat(), so the no-symlink "
                                 "rule never fires and owner/group are those of the link's target" % (render(args[0]), res[0].j["callee"]),
                                 key="stat-resolved-name")
                        a1 = args[1].strip()
                        if a1.k == "UnaryOperator":
                            statvar = render(a1.children[0])
                            statcall = c
                        break
        if statvar is None:
            ctx.inconclusive("X1", "stat source", gate.where, "no lstat(file_name, &sb) found in the gate")
            return
    else:
        ctx.ok("X1", "stat source", statcall.where, "lstat(file_name, &%s) on the gate's own file_name parameter" % statvar)
    sblock = cfg.block_of(statcall)
    # failure of lstat must leave before the guards: every path to the parser passes the 'lstat != -1' edge
    def lstat_ok_edge(lit, b, i):
        return lit is not None and lit.kind == "eq" and "lstat" in lit.atom and not lit.pol
    ok, _ = cfg.all_paths_cut(tblock, lstat_ok_edge)
    if ok:
        ctx.ok("X1", "lstat failure leaves the gate", statcall.where, "every path to the parser carries lstat(...) != -1")
    else:
        ctx.inconclusive("X1", "lstat failure handling", statcall.where, "result test of lstat not recognised")

    # ---- per restriction --------------------------------------------------------------
    flags_in_table = set(r[1] for r in RESTRICTIONS) | {PERMISSION_FLAG[0]}
    for name, flag, active, spec, code in RESTRICTIONS:
        inst = "restriction %s" % name

        def passes(lit, b, i, flag=flag, active=active, spec=spec):
            if _is_flag(lit, flag) and lit.pol != active:
                return True            # restriction not in force
            mk = _mismatch_kind(lit, spec, statvar)
            return mk is False         # file satisfies the rule

        ok, cut = cfg.all_paths_cut(tblock, passes)
        if ok and cut:
            ctx.ok("X1", inst + " guards the parser", pcall.where,
                   "every path to %s() carries !(%s active) or !(mismatch); %d guarding edges" % (common.PARSER, flag, len(cut)))
        else:
            wp = cfg.witness_path(tblock, avoid_edges=cut)
            ctx.fail("X1", inst + " guards the parser", pcall.where,
                     "a path reaches %s() on which the %s restriction is in force and the file violates it "
                     "(guard missing, inverted or placed after the parser call)" % (common.PARSER, name),
                     key="gate:%s" % name, path=cfg.describe_path(wp))
        # guard evaluated on data from the stat call: stat dominates the parser call
        rets = query.returns_of_constant(gate, code)
        if not rets:
            # the code delivered through the status variable: `err = CODE; ... return err;`
            cval = prog.enumerators.get(code)
            for lhs2, rhs2, st2, k2 in query.stores(gate):
                r2 = rhs2.strip() if rhs2 is not None else None
                if k2 == "=" and r2 is not None and r2.k == "DeclRefExpr" and r2.j.get("name") == code and lhs2.strip().k == "DeclRefExpr":
                    vals = cfg.returned_values_from(cfg.block_of(st2))
                    if vals == {cval}:
                        rets.append(st2)
        if not rets:
            ctx.fail("X1", inst + " has its error code", gate.where,
                     "no `return %s` in the gate: a violating file is not refused with the specific code" % code,
                     key="code:%s" % name)
            continue
        for r in rets:
            rb = cfg.block_of(r)
            need_flag, _ = cfg.all_paths_cut(rb, lambda lit, b, i: _is_flag(lit, flag) and lit.pol == active)
            need_mis, _ = cfg.all_paths_cut(rb, lambda lit, b, i: _mismatch_kind(lit, spec, statvar) is True)
            if need_flag and need_mis:
                ctx.ok("X1", inst + " refuses with %s" % code, r.where,
                       "every path to this return carries (%s active) and (mismatch on %s)" % (flag, spec[1] if len(spec) > 1 else "st_mode"))
            else:
                ctx.fail("X1", inst + " refuses with %s" % code, r.where,
                         "`return %s` is reachable without %s: files that satisfy the rule (or reads without the "
                         "restriction) are refused" % (code, "the flag being active" if not need_flag else "a mismatch"),
                         key="refuse:%s" % name)
            # the refusal happens before the parser: parser block not reachable backwards
            if not cfg.node_dominates(statcall, r):
                ctx.fail("X1", inst + " uses fresh stat data", r.where, "the guard is not dominated by the lstat call",
                         key="stat-order:%s" % name)

    # permission guard, checked the same way although the statement does not name it
    pf, pact = PERMISSION_FLAG
    prets = query.returns_of_constant(gate, "ECONF_WRONG_FILE_PERMISSION") + query.returns_of_constant(gate, "ECONF_WRONG_DIR_PERMISSION")
    for r in prets:
        rb = cfg.block_of(r)
        need_flag, _ = cfg.all_paths_cut(rb, lambda lit, b, i: _is_flag(lit, pf) and lit.pol == pact)
        if need_flag:
            ctx.ok("X1", "permission guard only when requested", r.where, "return is behind %s" % pf)
        else:
            ctx.fail("X1", "permission guard only when requested", r.where,
                     "permission refusal reachable although no permission was required", key="refuse:permission")

    # every bool global the gate branches on must be a known flag
    seen_flags = set()
    for (b, i, s) in cfg.edges():
        lit = cfg.edge_lit(b, i)
        if lit is None:
            continue
        for n in lit.node.walk():
            if n.k == "DeclRefExpr" and n.j.get("dk") in query.GLOBAL_KINDS and n.j.get("ct") == "_Bool":
                seen_flags.add(n.j["name"])
    unknown = seen_flags - flags_in_table
    if unknown:
        ctx.inconclusive("X3", "unknown gate flag(s) %s" % sorted(unknown), gate.where,
                         "the gate branches on a flag that is not in the restriction table")
    ctx.floor("C16 guards", len([o for o in ctx.obs if o.rule == "X1" and " refuses with " in o.instance]), 3)

    # ---- X6: no restriction beyond the documented ones ------------------------------------------------------
    # "files that satisfy the rules are read as usual": a read may be turned down on what lstat()/fstat() report only for the
    # properties the restrictions are about - owner, group, mode (permissions, symbolic link).  A test on any other attribute
    # (device, inode, size, link count, times) whose one side can only fail is a restriction nobody asked for.
    import re as _re
    n6 = 0
    for fx in (gate, parser):
        xcfg = fx.cfg
        for (b, i, s2) in xcfg.edges():
            lit = xcfg.edge_lit(b, i)
            if lit is None:
                continue
            flds = set(_re.findall(r"(?:\.|->)(st_[a-z_]+)", lit.atom))
            if not flds:
                continue
            n6 += 1
            other = flds - {"st_uid", "st_gid", "st_mode"}
            if not other:
                continue
            # where does this side go?  follow the straight line from the edge to a return
            vals, cur, hops = set(), s2, 0
            while cur is not None and hops < 6:
                r6 = xcfg.return_of_block(cur)
                if r6 is not None:
                    vals.add(query.returned_constant(r6))
                    break
                succs = [x for x in xcfg.blocks[cur].succs if x is not None]
                cur = succs[0] if len(succs) == 1 else None
                hops += 1
            if vals and not (vals & {0, "ECONF_SUCCESS", None}):
                ctx.fail("X6", "no restriction beyond the documented ones", lit.node.where,
                         "%s turns a file down (%s) on %s: a file that satisfies every restriction in force (e.g. a symbolic link while links "
                         "are allowed) is not read as usual" % (fx.name, ", ".join(sorted(str(v) for v in vals)), " / ".join(sorted(other))),
                         key="extra-restriction:%s:%s" % (fx.name, "+".join(sorted(other))))
    if n6:
        ctx.ok("X6", "no restriction beyond the documented ones", gate.where, "%d tests on stat data, all on owner, group or mode" % n6) if not any(
            o.rule == "X6" and o.outcome == "FAIL" for o in ctx.obs) else None

    # ---- X3 reset and setters --------------------------------------------------------
    reset = prog.fn(RESET)
    ctx.touch(reset)
    rw = query.global_writes(reset)
    rcfg = reset.cfg
    for flag, active in [(r[1], r[2]) for r in RESTRICTIONS] + [PERMISSION_FLAG]:
        if flag not in seen_flags:
            continue
        ws = rw.get(flag, [])
        permissive = 0 if active else 1
        good = [w for w in ws if w[1] is not None and w[1].const_value() == permissive
                and rcfg.postdominates(rcfg.block_of(w[2]), rcfg.entry)]
        if good:
            ctx.ok("X3", "reset clears %s" % flag, good[0][2].where, "%s = %s on every path" % (flag, "true" if permissive else "false"))
        elif ws:
            ctx.fail("X3", "reset clears %s" % flag, ws[0][2].where,
                     "reset stores a non-permissive or conditional value into %s" % flag, key="reset:%s" % flag)
        else:
            ctx.fail("X3", "reset clears %s" % flag, reset.where,
                     "%s never writes %s: the restriction survives the reset call" % (RESET, flag), key="reset:%s" % flag)
    for sname, table in SETTERS.items():
        f = prog.fn(sname)
        ctx.touch(f)
        w = query.global_writes(f)
        extra = set(w) - set(table)
        missing = set(table) - set(w)
        if extra:
            ctx.fail("X3", "setter %s writes only its own pair" % sname, f.where,
                     "%s also writes %s" % (sname, sorted(extra)), key="setter-extra:%s" % sname)
        if missing:
            ctx.fail("X3", "setter %s writes its own pair" % sname, f.where,
                     "%s does not write %s" % (sname, sorted(missing)), key="setter-missing:%s" % sname)
        bad = False
        for g, kind in table.items():
            for lhs, rhs, st in w.get(g, []):
                if kind == "true" and (rhs is None or rhs.const_value() != 1):
                    ctx.fail("X3", "setter %s activates %s" % (sname, g), st.where, "stores %s" % render(rhs),
                             key="setter-val:%s:%s" % (sname, g))
                    bad = True
                if kind == "param" and (rhs is None or not (rhs.strip().k == "DeclRefExpr" and rhs.strip().j.get("dk") == "param")):
                    ctx.fail("X3", "setter %s stores its argument in %s" % (sname, g), st.where, "stores %s" % render(rhs),
                             key="setter-val:%s:%s" % (sname, g))
                    bad = True
        if not extra and not missing and not bad:
            ctx.ok("X3", "setter %s" % sname, f.where, "writes exactly %s" % sorted(table))
    # nobody else writes the restriction globals
    allg = set()
    for t in SETTERS.values():
        allg |= set(t)
    # a restriction is in force for every read of the process once it is set: the settings are not per-thread objects
    tls = [g for g in sorted(allg) if g in prog.globals and prog.globals[g].j.get("tls")]
    if tls:
        gv = prog.globals[tls[0]]
        ctx.fail("X3", "the restrictions are process-wide", "%s:%s" % (gv.unit, gv.line),
                 "%s %s thread-local: a restriction set by one thread (the usual place: start-up code) is not in force for the reads of any other "
                 "thread, which start from the permissive defaults" % (", ".join(tls), "is" if len(tls) == 1 else "are"), key="restriction-tls")
    else:
        ctx.ok("X3", "the restrictions are process-wide", gate.where, "none of %s has thread storage duration" % sorted(allg))
    allowed = set(SETTERS) | {RESET}
    for f in prog.lib_functions():
        if f.name in allowed:
            continue
        w = query.global_writes(f)
        for g in set(w) & allg:
            ctx.fail("X3", "restriction global %s written outside its setter" % g, w[g][0][2].where,
                     "%s writes %s" % (f.name, g), key="foreign-write:%s:%s" % (f.name, g))
    ctx.ok("X3", "restriction globals written only by setters/reset", "lib/", "%d globals, %d functions scanned" % (len(allg), len(prog.lib_functions())))
