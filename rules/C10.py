"""C10 - queries never change the configuration.

Q1  for every read-only entry point f and every input parameter p (the object, and every
    pointer-to-const argument): Mod(f, p) is empty - no store, free or realloc into memory
    reachable from p, through any callee (E-mod).
Q2  no read-only entry point writes an object with static storage that a query reads."""
from sa.ast import render
from sa.facts import Inconclusive
from sa import query
from sa.mod import ModAnalysis

META = {
    "level": "proof",
    "technique": "static analysis: interprocedural effect (mod) analysis with flow-insensitive pointer derivation over the resolved call graph",
    "level_text": "A call that cannot write memory reachable from the object cannot change what any later query returns; the "
                  "effect analysis bounds what each read-only entry point CAN write, for every configuration and every call "
                  "history, so the obligation count is the number of (entry point, input parameter) pairs, all discharged.",
    "level_note": "Trusted: clang-14 front end, sa/mod.py (derivation over-approximates aliasing; unsound only for pointers "
                  "laundered through integers or globals - C18.T5 shows no global holds an object pointer), the libc effect table. "
                  "Indirect calls resolved by table: setter pointer in setKeyValue (8 targets), opaque user callback.",
    "explanation": "Mod(f,p) = empty for every read-only entry point and input parameter",
    "trusted_base": ["clang-14 front end", "sa/mod.py", "libc effect table (sa/mod.py LIBC)"],
    "assumptions": ["no pointer laundering through integers/globals", "closed call graph"],
}

NAMED = ["econf_getGroups", "econf_getKeys", "econf_getExtValue", "econf_getPath", "econf_comment_tag",
         "econf_delimiter_tag", "econf_writeFile", "econf_mergeFiles"]
SETTER_TARGETS = ["setIntValueNum", "setInt64ValueNum", "setUIntValueNum", "setUInt64ValueNum", "setFloatValueNum",
                  "setDoubleValueNum", "setStringValueNum", "setBoolValueNum"]


def indirect_table(prog):
    return {"read_file_with_callback": "opaque", "setKeyValue": [t for t in SETTER_TARGETS if prog.has_fn(t)]}


def readonly_entry_points(prog):
    out = []
    for n in prog.entry_points():
        if n.startswith("econf_get") and (n.endswith("Value") or n.endswith("ValueDef")):
            out.append(n)
    for n in NAMED:
        if prog.has_fn(n):
            out.append(n)
        else:
            raise Inconclusive("anchor vanished: %s" % n)
    return sorted(set(out))


def input_params(fn):
    """indices of the object parameter(s) and of every pointer-to-const parameter"""
    out = []
    for i, p in enumerate(fn.params):
        ct = p.get("ct", "")
        if ct == "struct econf_file *" or ct == "struct econf_file":
            out.append(i)
        elif ct.endswith("*") and ct.startswith("const ") and not ct.endswith("**"):
            out.append(i)
    return out


def run(prog, ctx):
    ma = ModAnalysis(prog, indirect_targets=indirect_table(prog))
    entries = readonly_entry_points(prog)
    pairs = 0
    for name in entries:
        f = prog.fn(name)
        s = ma.summary(name)
        ctx.touch(f)
        for i in input_params(f):
            pairs += 1
            pname = f.params[i]["name"]
            inst = "Mod(%s, %s)" % (name, pname)
            sites = s.mod[i]
            if not sites:
                ctx.ok("Q1", inst, f.where, "empty: no store/free/realloc reaches memory of `%s` through any callee" % pname)
            else:
                seen = set()
                for site in sites:
                    k = site.key()
                    if k in seen:
                        continue
                    seen.add(k)
                    ctx.fail("Q1", inst, site.node.where,
                             "%s may modify its input `%s`: %s" % (name, pname, site.what),
                             key="%s:%s:%s" % (name, pname, k), path=site.describe())
        if s.glob_w:
            for g, sites in s.glob_w.items():
                ctx.fail("Q2", "%s writes no global" % name, sites[0].node.where,
                         "%s writes process-wide object %s (%s)" % (name, g, sites[0].what), key="%s:%s" % (name, g),
                         path=sites[0].describe())
        else:
            ctx.ok("Q2", "%s writes no global" % name, f.where, "Glob-write set empty (reads: %s)" % (sorted(s.glob_r) or "none"))
    for fname in sorted(ma.sum):
        ctx.touch(prog.functions[fname])
    if ma.unknown_callees:
        for n, sites in ma.unknown_callees.items():
            ctx.inconclusive("Q1", "effect of %s" % n, sites[0].where, "callee has neither a body nor a row in the libc effect table")
    ctx.floor("C10 read-only entry points", len(entries), 20)
    ctx.floor("C10 (entry, input parameter) pairs", pairs, 50)
