"""Conversion tables of the typed accessors (shared by C08 and C09)."""
from sa.ast import render
from sa.facts import Inconclusive
from sa import query
from sa.dataflow import ReachingDefs, origins
from sa.buf import parse_format

GETTERS = {   # getter -> (result width, signed?, kind)
    "getIntValueNum": (32, True, "int"), "getInt64ValueNum": (64, True, "int"),
    "getUIntValueNum": (32, False, "int"), "getUInt64ValueNum": (64, False, "int"),
    "getFloatValueNum": (32, None, "float"), "getDoubleValueNum": (64, None, "float"),
    "getStringValueNum": (None, None, "string"), "getBoolValueNum": (None, None, "bool"),
}
SETTERS = {"setIntValueNum": "getIntValueNum", "setInt64ValueNum": "getInt64ValueNum", "setUIntValueNum": "getUIntValueNum",
           "setUInt64ValueNum": "getUInt64ValueNum", "setFloatValueNum": "getFloatValueNum", "setDoubleValueNum": "getDoubleValueNum"}
STRTO = {"strtol": (64, True), "strtoll": (64, True), "strtoul": (64, False), "strtoull": (64, False),
         "strtof": (32, None), "strtod": (64, None), "strtold": (128, None),
         "atoi": (32, True), "atol": (64, True), "atoll": (64, True), "atof": (64, None), "strtoimax": (64, True), "strtoumax": (64, False)}
ERANGE = 34
LIMITS = {(32, True): (-2147483648, 2147483647), (32, False): (0, 4294967295),
          (64, True): (-9223372036854775808, 9223372036854775807), (64, False): (0, 18446744073709551615)}
ERR = "ECONF_VALUE_CONVERSION_ERROR"


def value_field_uses(fn):
    """MemberExpr nodes reading `.value` of a file entry."""
    return [n for n in fn.walk() if n.k == "MemberExpr" and n.j.get("member") == "value" and n.j.get("rec") == "file_entry"]


def success_returns(fn):
    return [r for r in fn.returns() if query.returned_constant(r) in ("ECONF_SUCCESS", 0)]


def delegate_getter(fn):
    """a typed getter that has no conversion call of its own but hands the text to ANOTHER typed getter: that getter's name"""
    if any(c.j.get("callee") in STRTO for c in fn.calls()):
        return None
    for c in fn.calls():
        if c.j.get("callee") in GETTERS and c.j.get("callee") != fn.name:
            return c.j["callee"]
    return None


def strto_call(fn):
    cs = [c for c in fn.calls() if c.j.get("callee") in STRTO]
    if len(cs) != 1:
        raise Inconclusive("%s: expected one strto* call, found %d" % (fn.name, len(cs)))
    return cs[0]


def result_stores(fn):
    """stores through the out-parameter `result`"""
    out = []
    for lhs, rhs, st, kind in query.stores(fn):
        l = lhs.strip()
        if l.k == "UnaryOperator" and l.j.get("op") == "*" and query.refs_param(l.children[0], "result"):
            out.append((l, rhs, st))
    return out


def const_of(n):
    """integer constant value including unary minus and big unsigned"""
    s = n.strip()
    if "cvs" in s.j:
        return int(s.j["cvs"])
    v = n.const_value()
    if v is not None:
        return v
    for x in n.walk():
        if "cvs" in x.j:
            return int(x.j["cvs"])
    return None


def mentions_var(node, name):
    return any(x.k == "DeclRefExpr" and x.j.get("name") == name for x in node.walk())


# ---- boolean recognition -------------------------------------------------------------------

STRCMPS = ("strcmp", "strcasecmp", "strncmp", "strncasecmp")


def table_rows(prog, name):
    """rows of a constant global table `static const struct {...} T[] = {{..}, ..}` as lists of constants
    (str / int / None), or None when T is not such a table"""
    gv = prog.globals.get(name) or prog.util_globals.get(name)
    if gv is None or gv.init is None or gv.init < 0 or not gv.is_const:
        return None
    nodes = gv.nodes_j

    def const(i):
        n = nodes[i]
        while n.get("k") in ("ImplicitCastExpr", "ParenExpr", "CStyleCastExpr", "ConstantExpr") and n.get("ch"):
            n = nodes[n["ch"][0]]
        if n.get("k") == "StringLiteral":
            return n.get("str")
        if n.get("k") in ("IntegerLiteral", "CharacterLiteral"):
            return n.get("val")
        if "cv" in n:
            return n["cv"]
        return None
    top = nodes[gv.init]
    if top.get("k") != "InitListExpr":
        return None
    rows = []
    for ci in top.get("ch", []):
        r = nodes[ci]
        if r.get("k") != "InitListExpr":
            return None
        rows.append([const(x) for x in r.get("ch", [])])
    return rows


def _table_ref(n):
    """n is `T[idx].field` for a global T: (T, render(idx), field index) else None"""
    n = n.strip()
    if n.k != "MemberExpr" or n.j.get("arrow") or "fidx" not in n.j:
        return None
    b = n.children[0].strip()
    if b.k != "ArraySubscriptExpr":
        return None
    t = b.children[0].strip()
    if t.k == "DeclRefExpr" and t.j.get("dk") in query.GLOBAL_KINDS:
        return (t.j["name"], render(b.children[1]), n.j["fidx"])
    return None


def bool_recognition(fn, store_pred, consumer=None):
    """For a function deciding a boolean from text: {target: set of (literal, how)} where target
    is the node selected by store_pred(stmt)->label, `how` in 'strcmp' | 'strcasecmp' | 'hash' | 'empty'.
    An edge 'X equals L' contributes L to the first labelled statement reached through
    unconditional edges only."""
    cfg = fn.cfg
    labelled = {}
    for b in cfg.blocks.values():
        for n in b.elems:
            lab = store_pred(n)
            if lab is not None:
                labelled.setdefault(b.id, lab)
    out = {}
    unknown = []
    for (b, i, s) in cfg.edges():
        lit = cfg.edge_lit(b, i)
        if lit is None:
            continue
        rec = None
        if lit.kind == "truth" and not lit.pol and lit.node.k == "CallExpr" and lit.node.j.get("callee") in STRCMPS:
            a = lit.node.call_args()
            L = a[1].string_value() if len(a) > 1 else None
            other = a[0]
            if L is None and a:
                L = a[0].string_value()
                other = a[1]
            if L is not None:
                rec = (L, "strcasecmp" if "case" in lit.node.j["callee"] else "strcmp", render(other))
            elif len(a) > 1 and consumer is not None:
                # table driven: strcmp(text, T[i].word) ... M = T[i].meaning, and M consumed as the result
                for k2 in (0, 1):
                    tr = _table_ref(a[k2])
                    rows = table_rows(fn.prog, tr[0]) if tr else None
                    if not rows:
                        continue
                    cur, seen2, hit = s, set(), None
                    while cur is not None and cur not in seen2 and hit is None:
                        seen2.add(cur)
                        for n2 in cfg.blocks[cur].elems:
                            if n2.k == "BinaryOperator" and n2.j.get("op") == "=":
                                tr2 = _table_ref(n2.children[1])
                                if tr2 and tr2[0] == tr[0] and tr2[1] == tr[1]:
                                    hit = (render(n2.children[0]), tr2[2])
                                    break
                        blk = cfg.blocks[cur]
                        cur = blk.succs[0] if len(blk.succs) == 1 else None
                    label_of = consumer(fn, hit[0]) if hit else None
                    how = "strcasecmp" if "case" in lit.node.j["callee"] else "strcmp"
                    for row in rows:
                        word = row[tr[2]] if tr[2] < len(row) else None
                        if not isinstance(word, str):
                            continue
                        r2 = (word, how, render(a[1 - k2]))
                        lab2 = label_of(row[hit[1]]) if (label_of and hit[1] < len(row) and row[hit[1]] is not None) else None
                        if lab2 is not None:
                            out.setdefault(lab2, set()).add(r2)
                        else:
                            unknown.append(r2)
                continue
        elif lit.kind == "eq" and lit.pol:
            for x, y in ((lit.lhs, lit.rhs), (lit.rhs, lit.lhs)):
                ys = y.strip()
                if ys.k == "CallExpr" and ys.j.get("callee") == "hashstring" and ys.call_args() and ys.call_args()[0].string_value() is not None:
                    rec = (ys.call_args()[0].string_value(), "hash", render(x))
        elif lit.kind == "truth" and not lit.pol and lit.node.k == "UnaryOperator" and lit.node.j.get("op") == "*":
            rec = ("", "empty", render(lit.node.children[0]))
        if rec is None:
            continue
        # follow unconditional edges
        cur = s
        seen = set()
        lab = None
        while cur is not None and cur not in seen:
            seen.add(cur)
            if cur in labelled:
                lab = labelled[cur]
                break
            blk = cfg.blocks[cur]
            if len(blk.succs) != 1:
                break
            cur = blk.succs[0]
        if lab is not None:
            out.setdefault(lab, set()).add(rec)
        else:
            unknown.append(rec)
    return out, unknown


def single_char_tests(fn):
    """Recognise `(*v == 'c' && strlen(x) == 1)` conjunctions as the literal "c" (today's spelling of 1/0)."""
    cfg = fn.cfg
    out = []
    for (b, i, s) in cfg.edges():
        lit = cfg.edge_lit(b, i)
        if lit is None or lit.kind != "eq" or not lit.pol:
            continue
        cv = None
        for x, y in ((lit.lhs, lit.rhs), (lit.rhs, lit.lhs)):
            if y.strip().k == "CharacterLiteral" and x.strip().k == "UnaryOperator" and x.strip().j.get("op") == "*":
                cv = chr(y.strip().j["val"])
        if cv is None:
            continue
        # the true edge leads to a block testing strlen(..) == 1
        nb = cfg.blocks[s]
        for k in range(len(nb.succs)):
            l2 = cfg.edge_lit(s, k)
            if l2 is not None and l2.kind == "eq" and l2.pol and "strlen" in l2.atom and \
               (l2.lhs.const_value() == 1 or l2.rhs.const_value() == 1):
                out.append((cv, (s, k)))
    return out


def errno_reset_before(fn, call):
    """(ok, why): a store `errno = 0` dominates the strto* call and no other call that may set
    errno lies between them."""
    cfg = fn.cfg
    resets = []
    for lhs, rhs, st, kind in query.stores(fn):
        if kind == "=" and "__errno_location" in render(lhs) and rhs is not None and rhs.const_value() == 0:
            resets.append(st)
    pos = cfg.index_of(call)
    best = None
    for st in resets:
        if cfg.node_dominates(st, call):
            best = st
    if best is None:
        return False, "errno is not cleared before the conversion: a stale errno left by an earlier call decides the error test"
    # no call between the reset and the conversion (same block region check)
    pb = cfg.index_of(best)
    between = []
    if pb[0] == pos[0]:
        for n in cfg.blocks[pb[0]].elems[pb[1] + 1:pos[1]]:
            if n.k == "CallExpr" and n.j.get("callee") not in ("__errno_location",) and n is not call and not n.within(call):
                between.append(n)
    else:
        region = cfg.reachable(pb[0]) & cfg.reachable(pos[0], forward=False)
        for b in region:
            for k, n in enumerate(cfg.blocks[b].elems):
                if b == pb[0] and k <= pb[1]:
                    continue
                if b == pos[0] and k >= pos[1]:
                    continue
                if n.k == "CallExpr" and n.j.get("callee") not in ("__errno_location", "__ctype_b_loc", "isspace") and n is not call and not n.within(call):
                    between.append(n)
    between = [n for n in between if n.j.get("callee") not in ("__ctype_b_loc", "isspace")]
    if between:
        return False, "%s() is called between `errno = 0` and the conversion and may set errno" % between[0].j.get("callee")
    return True, "errno = 0 at %s dominates the conversion" % best.where


def uses_errno(fn):
    for (b, i, s) in fn.cfg.edges():
        lit = fn.cfg.edge_lit(b, i)
        if lit is not None and "__errno_location" in lit.atom:
            return True
    return False
