"""C01 - layered lookup yields the vendor < /run < /etc precedence for every tree (shape of the lookup).

L1 default layers   L2 main-file scan high->low, stops at first hit, only NOFILE continues   L3 no look at the content
L4 main object first in the history   L5 drop-in layers low->high, always   L6 directory postfixes in order
L7 scandir sorted by alphasort, walked ascending   L8 suffix filter   L9 accepted files appended   L10 same-name masking
L11 merge direction   L12 nothing found = ECONF_NOFILE   L13 NULL/NULL refused   L14 suffix gets its dot
L15 ECONF_NOFILE from the gate only for a file that is not there   L16 absolute names stored as given   L17 (conf_dirs, conf_count) pair consistent (= C12.F3)"""
import re
from sa.ast import render
from sa.facts import Inconclusive
from sa import query, loops
from sa.dataflow import ReachingDefs, origins

META = {
    "level": "other",
    "technique": "static analysis: loop-shape recognition, path conditions (edge-cut reachability), data provenance of the layer buffers, "
                 "comparator/filter identification at the scandir call, structure of the masking scan",
    "level_text": "Decides the shape of the lookup for every tree: which layers, in which order, where the scan stops, which files qualify, "
                  "which comparator sorts them, which files are masked, in which direction the merge runs, what an empty result returns, and "
                  "that the NULL/NULL call is refused. Not decided: what the merged object contains for a given tree (that additionally needs "
                  "the parser, C02, and the merge algorithm, C03).",
    "level_note": "Partial: structural necessary conditions. alphasort() is byte order under the C/POSIX collation, which the process has "
                  "unless the application calls setlocale() (assumption). Trusted: clang front end/CFG, sa/loops.py, sa/cfg.py.",
    "explanation": "loop directions, stop conditions, filters, comparator, masking scan, merge direction",
    "trusted_base": ["clang-14 front end and CFG", "sa/loops.py", "sa/cfg.py", "sa/dataflow.py"],
    "assumptions": ["C/POSIX collation (alphasort = byte order)", "no allocation failure"],
}

HIST = "readConfigHistoryWithCallback"
GATE = "read_file_with_callback"


def enclosing_loop(node):
    for a in node.ancestors():
        if a.k in ("ForStmt", "WhileStmt", "DoStmt"):
            return a
    return None


def _path_template(fmt, args):
    """the text a "%s/%s" format yields: literal arguments filled in, every other argument as {its text}; runs of '/' folded"""
    if fmt is None:
        return None
    out, i, k = "", 0, 0
    while i < len(fmt):
        ch = fmt[i]
        if ch != "%":
            out += ch
            i += 1
            continue
        if i + 1 < len(fmt) and fmt[i + 1] == "%":
            out += "%"
            i += 2
            continue
        if i + 1 < len(fmt) and fmt[i + 1] == "s" and k < len(args):
            lit = args[k].string_value()
            out += lit if lit is not None else "{%s}" % render(args[k])
            k += 1
            i += 2
            continue
        return None
    return re.sub(r"/+", "/", out)


def l1(prog, ctx):
    f = prog.fn("econf_readConfigWithCallback")
    ctx.touch(f)
    cfg = f.cfg
    slots = {}
    for lhs, rhs, st, kind in query.stores(f):
        t = render(lhs)
        if t.startswith("(*key_file)->parse_dirs[") and rhs is not None:
            idx = st.children[0].strip().children[1].const_value()
            slots[idx] = (st, rhs)
    cnt = [st for lhs, rhs, st, kind in query.stores(f) if render(lhs) == "(*key_file)->parse_dirs_count" and rhs is not None]
    if cnt and cnt[0].children[1].const_value() == 3 and not slots:
        # the list is built in a local array by one builder function and then handed to the object
        fo = getattr(f, "original", f)
        pubs = [rhs for lhs, rhs, st, kind in query.stores(fo) if render(lhs) == "(*key_file)->parse_dirs" and rhs is not None and rhs.strip().k == "DeclRefExpr"]
        if pubs:
            arr = render(pubs[0])
            built = {}
            for lhs, rhs, st, kind in query.stores(fo):
                l0 = lhs.strip()
                if l0.k == "ArraySubscriptExpr" and render(l0.children[0]) == arr and rhs is not None and rhs.strip().k == "CallExpr":
                    built[l0.children[1].const_value()] = (st, rhs.strip())
            if sorted(k for k in built if k is not None) == [0, 1, 2] and len(set(built[k][1].j.get("callee") for k in (0, 1, 2))) == 1:
                args = {k: built[k][1].call_args() for k in (0, 1, 2)}
                n_args = len(args[0])
                differ = [i for i in range(n_args) if len(set(render(args[k][i]) for k in (0, 1, 2))) > 1] if all(len(args[k]) == n_args for k in (0, 1, 2)) else None
                okc, cut = cfg.all_paths_cut(cfg.block_of(cnt[0]), lambda lit, b, i: lit is not None and lit.kind == "truth" and not lit.pol and
                                             lit.atom == "(*key_file)->parse_dirs_count")
                if differ is not None and len(differ) == 1:
                    d0 = differ[0]
                    got = [render(args[0][d0]), args[1][d0].string_value(), args[2][d0].string_value()]
                    if got == ["usr_subdir", "/run", "/etc"] and okc and cut:
                        ctx.ok("L1", "three default layers", cnt[0].where, "%s[0..2] = %s(.., usr_subdir | \"/run\" | \"/etc\", ..) with otherwise equal arguments, "
                               "behind parse_dirs_count == 0" % (arr, built[0][1].j.get("callee")))
                        return
                    ctx.fail("L1", "three default layers", built[0][0].where, "the three layers are built from %s (expected usr_subdir, \"/run\", \"/etc\")%s" % (
                        got, "" if okc and cut else "; not behind parse_dirs_count == 0"), key="layers-count")
                    return
        ctx.inconclusive("L1", "three default layers", cnt[0].where, "the default layer list is built in a form not understood")
        return
    if not cnt or cnt[0].children[1].const_value() != 3 or sorted(k for k in slots if k is not None) != [0, 1, 2]:
        ctx.fail("L1", "three default layers", (cnt[0] if cnt else f).where, "count %s, slots %s" % ([render(c.children[1]) for c in cnt], sorted(slots)), key="layers-count")
        return
    okc, cut = cfg.all_paths_cut(cfg.block_of(cnt[0]), lambda lit, b, i: lit is not None and lit.kind == "truth" and not lit.pol and
                                 lit.atom == "(*key_file)->parse_dirs_count")
    if okc and cut:
        ctx.ok("L1", "defaults apply only without an explicit PARSING_DIRS list", cnt[0].where, "behind parse_dirs_count == 0")
    else:
        ctx.fail("L1", "defaults apply only without an explicit PARSING_DIRS list", cnt[0].where, "default layers overwrite an explicit list", key="layers-guard")
    want = {0: ("usr_subdir", None), 1: (None, "/run"), 2: (None, "/etc")}
    bufs = {}
    for k in (0, 1, 2):
        st, rhs = slots[k]
        r = rhs.strip()
        if not (r.k == "CallExpr" and r.j.get("callee") == "strdup" and r.call_args()[0].strip().k == "DeclRefExpr"):
            ctx.fail("L1", "layer %d is a copy of its path buffer" % k, st.where, "slot receives %s" % render(rhs), key="layer-src:%d" % k)
            return
        bufs[k] = r.call_args()[0].strip().j["name"]
    formats = {}
    for c in f.calls("snprintf"):
        a = c.call_args()
        dst = render(a[0])
        formats.setdefault(dst, []).append((c, a[2].string_value(), [x for x in a[3:]]))
    for k, buf in bufs.items():
        par, lit = want[k]
        calls = formats.get(buf, [])
        if not calls:
            ctx.fail("L1", "layer %d buffer is filled" % k, slots[k][0].where, "%s is never written" % buf, key="layer-fill:%d" % k)
            continue
        bad = None
        for c, fmt, args in calls:
            names = [render(x) for x in args]
            lits = [x.string_value() for x in args]
            if par and par not in names:
                bad = (c, "does not use %s" % par)
            # the path the format produces, with the string-literal arguments filled in and the others as place holders
            tmpl = _path_template(fmt, args)
            if lit and tmpl is not None:
                rootp, projp = "{(*key_file)->root_prefix}", "{project}"
                want_t = (rootp if rootp in tmpl else "") + lit + ("/" + projp if projp in tmpl else "")
                others = set(re.findall(r"\{[^}]*\}", tmpl)) - {rootp, projp}
                if not others:
                    # the form with the project directory is used exactly when there is a project, the prefixed one exactly when there is a prefix
                    req9 = cfg.required_literals(cfg.block_of(c), expand_locals=False)
                    for ph, atom in ((projp, "project"), (rootp, "(*key_file)->root_prefix")):
                        pols = set(l9.pol for l9 in req9 if l9 is not None and l9.kind == "truth" and l9.atom == atom)
                        pols |= set((not l9.pol) for l9 in req9 if l9 is not None and l9.kind == "eq" and atom in (render(l9.lhs), render(l9.rhs))
                                    and (l9.lhs.is_null_const() or l9.rhs.is_null_const()))
                        if pols and ((ph in tmpl) not in pols):
                            bad = (c, "composes `%s` on the branch where `%s` is %s" % (tmpl, atom, "NULL" if ph in tmpl else "set"))
                    if bad:
                        continue
                    if tmpl != want_t:
                        bad = (c, "composes `%s`, not `%s`%s" % (tmpl, want_t, ": directory and prefix run into each other" if tmpl.replace("/", "") == want_t.replace("/", "") else ""))
                    continue
            if lit and lit not in lits:
                bad = (c, "does not use %r" % lit)
            if lit and any(l in ("/run", "/etc", "/usr", "/usr/etc") and l != lit for l in lits if l):
                bad = (c, "uses %s instead of %r" % ([l for l in lits if l], lit))
        layer = {0: "vendor (usr_subdir)", 1: "/run", 2: "/etc"}[k]
        if bad:
            ctx.fail("L1", "layer %d is the %s directory" % (k, layer), bad[0].where, "%s: %s" % (render(bad[0])[:70], bad[1]), key="layer-dir:%d" % k)
        else:
            ctx.ok("L1", "layer %d is the %s directory" % (k, layer), calls[0][0].where, "all %d ways of composing %s use it" % (len(calls), buf))
    # root prefix and project in all three or none: each buffer is composed by the same set of (condition, format) alternatives
    per_buf = {}
    first_call = None
    for buf, calls in formats.items():
        if buf not in bufs.values():
            continue
        for c, fmt, args in calls:
            first_call = first_call or c
            names = [render(x) for x in args]
            req = cfg.required_literals(cfg.block_of(c), expand_locals=False)
            conds = frozenset((l.atom, l.pol) for l in req if l.atom in ("(*key_file)->root_prefix", "project"))
            per_buf.setdefault(buf, set()).add((conds, fmt, "(*key_file)->root_prefix" in names, "project" in names))
    sigs = list(per_buf.values())
    if len(sigs) == 3 and sigs[0] == sigs[1] == sigs[2]:
        ctx.ok("L1", "the three layers are composed alike", first_call.where,
               "%d alternatives (root prefix x project), the same formats under the same conditions for all three buffers" % len(sigs[0]))
    else:
        diff = set()
        for a in sigs:
            for b2 in sigs:
                diff |= set(x[1] for x in a ^ b2)
        ctx.fail("L1", "the three layers are composed alike", (first_call or f).where, "formats %s" % sorted(diff), key="layer-compose")


def l2_l5(prog, ctx):
    f = prog.fn(HIST)
    ctx.touch(f)
    cfg = f.cfg
    gates = f.calls(GATE)
    if len(gates) != 1:
        raise Inconclusive("history builder: expected one main-file probe, found %d" % len(gates))
    g = gates[0]
    lp = enclosing_loop(g)
    if lp is None:
        ctx.fail("L2", "main file searched in every layer", g.where, "the probe is not in a loop over the layers", key="main-loop")
        return
    sh = loops.for_shape(lp)
    fa = render(g.call_args()[1])
    # the file name is built from parse_dirs[<element>]
    elem = None
    for x in lp.walk():
        # the layer the name is built from: wherever parse_dirs[..] is read in the loop (a call argument, a list of name parts)
        if x.k == "ArraySubscriptExpr" and render(x.children[0]) == "parse_dirs":
            t = render(x)
            if elem is not None and elem != t:
                elem = "several (%s, %s)" % (elem, t)
                break
            elem = t
    if sh.ok and sh.step < 0 and sh.start == "parse_dirs_count" and sh.cmp == ">" and sh.bound == "0" and elem == "parse_dirs[%s - 1]" % sh.var:
        ctx.ok("L2", "main file searched from the highest layer down", lp.where, "%s, file in %s" % (sh.describe(), elem))
    elif sh.ok and sh.step < 0 and sh.start == "parse_dirs_count - 1" and sh.cmp == ">=" and sh.bound == "0" and elem == "parse_dirs[%s]" % sh.var:
        ctx.ok("L2", "main file searched from the highest layer down", lp.where, "%s, file in %s" % (sh.describe(), elem))
    elif sh.ok and sh.step > 0:
        ctx.fail("L2", "main file searched from the highest layer down", lp.where,
                 "the scan is %s: with the first-hit rule the LOWEST layer's main file wins (vendor overrides /etc)" % sh.describe(), key="main-direction")
    elif sh.ok:
        ctx.fail("L2", "main file searched from the highest layer down", lp.where, "loop %s reads %s: a layer is skipped or indexed out of range" % (sh.describe(), elem),
                 key="main-range")
    else:
        ctx.inconclusive("L2", "main file searched from the highest layer down", lp.where, sh.describe())
    hb = cfg.loop_header(lp)
    body = cfg.natural_loop(hb)
    # which variable receives the probe's result
    up = g.up()
    ev = render(up.children[0]) if up is not None and up.k == "BinaryOperator" and up.j.get("op") == "=" else None
    if ev is None:
        raise Inconclusive("result of the main-file probe is not assigned to a variable")
    gb = cfg.block_of(g)
    succ_edges = [(b, i) for (b, i, s) in cfg.edges() if b in body and cfg.edge_lit(b, i) is not None and cfg.edge_lit(b, i).kind == "truth"
                  and cfg.edge_lit(b, i).atom == ev and not cfg.edge_lit(b, i).pol and gb in cfg.reachable(b, forward=False)]
    # first hit stops the scan: from a success edge the loop header is not reachable again
    stops = None
    for (b, i) in succ_edges:
        tgt = cfg.blocks[b].succs[i]
        reg = cfg.reachable(tgt, avoid_blocks=[hb])
        # does this edge lead out of the loop without another iteration?
        if not any(s == hb for (bb, ii, s) in cfg.edges() if bb in reg):
            stops = (b, i, tgt, reg)
    if not stops:
        # the same through consistent paths: with the probe's result known to be 0 no path leads back to the loop header
        # (if (error != ECONF_NOFILE) break;  covers the success as well)
        pos = cfg.index_of(up)
        if pos is not None and cfg.feasible_reach(hb, lambda l9, bb, ii: False, lambda a9: a9 == ev, start=pos[0], init_facts={ev: False, "=" + ev: 0},
                                                  start_index=pos[1] + 1, nonempty=True) is None:
            leave = [(b, i) for (b, i, s) in cfg.edges() if b in body and s not in body and cfg.edge_lit(b, i) is not None and ev in cfg.edge_lit(b, i).atom
                     and gb in cfg.reachable(b, forward=False)]
            if leave:
                b, i = leave[0]
                stops = (b, i, cfg.blocks[b].succs[i], cfg.reachable(cfg.blocks[b].succs[i], avoid_blocks=[hb]))
    if stops:
        ctx.ok("L2", "the first main file found ends the scan", cfg.blocks[stops[0]].cond.where, "the edge %s == ECONF_SUCCESS leaves the loop" % ev)
        # L3: nothing about the object's content decides on that path
        b, i, tgt, reg = stops
        path_conds = [cfg.edge_lit(bb, ii) for (bb, ii, s) in cfg.edges() if bb in (cfg.reachable(gb) & cfg.reachable(b, forward=False)) | {b}]
        content = [l for l in path_conds if l is not None and any(x in l.atom for x in ("->length", "->file_entry", "->groups", "group_count"))]
        if content:
            ctx.fail("L3", "an empty main file counts as present", content[0].node.where,
                     "whether the main file 'counts' depends on its content (%s): an empty file or a link to /dev/null no longer silences the lower layers" % content[0].atom,
                     key="main-content")
        else:
            ctx.ok("L3", "an empty main file counts as present", cfg.blocks[b].cond.where, "only the read's return code decides")
    else:
        ctx.fail("L2", "the first main file found ends the scan", g.where,
                 "after a successful read the scan goes on to the lower layers: the LOWEST layer's main file ends up in the result", key="main-first-hit")
    # L4
    st0 = [st for lhs, rhs, st, kind in query.stores(f) if render(lhs) == "(*key_files)[0]"]
    if st0 and render(st0[0].children[1]) == render(g.call_args()[0]).lstrip("&"):
        ctx.ok("L4", "the main file is the first element of the history", st0[0].where, "(*key_files)[0] = %s" % render(st0[0].children[1]))
    else:
        ctx.fail("L4", "the main file is the first element of the history", (st0[0] if st0 else f).where, "stores %s" % [render(s) for s in st0], key="main-index")
    # L5
    tr = f.calls("traverse_conf_dirs")
    if len(tr) != 1:
        raise Inconclusive("history builder: traverse_conf_dirs call not found")
    tl = enclosing_loop(tr[0])
    sh2 = loops.for_shape(tl) if tl is not None else None
    elem2 = None
    if tl is not None:
        for c in f.calls():
            if c.within(tl):
                for a in c.call_args():
                    if render(a).startswith("parse_dirs["):
                        elem2 = render(a)
    if tl is not None and elem2 is None and sh2 is not None and sh2.ok:
        # the per-layer path prepared beforehand: A[j] = f(parse_dirs[j]) for all j, then A[i] in the scan
        for c in f.calls():
            if not c.within(tl):
                continue
            for a in c.call_args():
                a0 = a.strip()
                if a0.k == "ArraySubscriptExpr" and render(a0.children[1]) == sh2.var and a0.children[0].strip().k == "DeclRefExpr":
                    arrname = render(a0.children[0])
                    for lhs, rhs, st, kind in query.stores(f):
                        l0 = lhs.strip()
                        if l0.k != "ArraySubscriptExpr" or render(l0.children[0]) != arrname or rhs is None or st.within(tl):
                            continue
                        fl = enclosing_loop(st)
                        shf = loops.for_shape(fl) if fl is not None else None
                        if shf is not None and loops.covers_range(shf, 0, "parse_dirs_count") and render(l0.children[1]) == shf.var \
                                and any(render(x) == "parse_dirs[%s]" % shf.var for x in rhs.walk() if x.k == "ArraySubscriptExpr"):
                            elem2 = "parse_dirs[%s]" % sh2.var
    if sh2 is not None and loops.covers_range(sh2, 0, "parse_dirs_count") and elem2 == "parse_dirs[%s]" % sh2.var:
        ctx.ok("L5", "drop-in layers are visited from the lowest up", tl.where, "%s, layer %s" % (sh2.describe(), elem2))
    elif sh2 is not None and sh2.ok and sh2.step < 0:
        ctx.fail("L5", "drop-in layers are visited from the lowest up", tl.where, "loop is %s: vendor drop-ins are applied last and override /etc" % sh2.describe(),
                 key="dropin-direction")
    elif sh2 is not None and sh2.ok:
        ctx.fail("L5", "drop-in layers are visited from the lowest up", tl.where, "loop %s over %s does not cover [0, parse_dirs_count)" % (sh2.describe(), elem2), key="dropin-range")
    else:
        ctx.inconclusive("L5", "drop-in layers are visited from the lowest up", (tl or tr[0]).where, sh2.describe() if sh2 else "no loop")
    # independent of whether a main file was found
    tb = cfg.block_of(tr[0])
    dep = [cfg.edge_lit(b, i) for (b, i, s) in cfg.edges() if cfg.edge_lit(b, i) is not None and "size" in cfg.edge_lit(b, i).atom
           and cfg.dominates(b, tb) and tb not in cfg.reachable(cfg.blocks[b].succs[1 - i])]
    if dep:
        ctx.fail("L5", "drop-ins are read whether or not a main file exists", dep[0].node.where, "the drop-in scan is behind %s" % dep[0], key="dropin-conditional")
    else:
        ctx.ok("L5", "drop-ins are read whether or not a main file exists", tr[0].where, "no condition on the number of files found dominates the scan")
    # L12: where the final test finds the history empty, the function returns ECONF_NOFILE (whatever the exit is spelled like);
    # and success needs at least one file
    def size_lit(lit, positive):
        return lit is not None and "size" in lit.atom and lit.pol == positive and ((lit.kind == "lt" and lit.lhs.const_value() == 0) or lit.kind == "truth")
    nofile = prog.enumerators.get("ECONF_NOFILE")
    empties = [(b, i, s2) for (b, i, s2) in cfg.edges() if size_lit(cfg.edge_lit(b, i), False)]
    ok12 = False
    for (b, i, s2) in empties:
        vals = cfg.returned_values_from(s2)
        if vals == {nofile}:
            ok12 = True
            ctx.ok("L12", "no file at all gives ECONF_NOFILE", cfg.blocks[b].cond.where, "every consistent path from `*size <= 0` ends in a return of ECONF_NOFILE")
        else:
            ctx.fail("L12", "no file at all gives ECONF_NOFILE", cfg.blocks[b].cond.where,
                     "with an empty history the function can return %s" % sorted(str(v) for v in vals), key="empty-result")
            ok12 = True
    if not ok12:
        ctx.fail("L12", "no file at all gives ECONF_NOFILE", f.where, "an empty history is handed back with success", key="empty-result")
    wp12 = cfg.success_path_avoiding(lambda lit, b, i: size_lit(lit, True))
    if wp12 is not None:
        last = wp12[-1][0] if wp12 else cfg.entry
        ctx.fail("L12", "success only with at least one file", (cfg.blocks[last].elems[-1] if cfg.blocks[last].elems else f).where,
                 "ECONF_SUCCESS reachable with an empty history", key="empty-success")
    else:
        ctx.ok("L12", "success only with at least one file", f.where, "every consistent path to a successful return carries *size > 0")
    # L14 suffix
    sfx = [(lhs, rhs, st) for lhs, rhs, st in f.assignments() if (lhs["name"] if isinstance(lhs, dict) else render(lhs)) == "suffix"]
    vals = sorted(render(r) for _, r, _ in sfx)
    plain = [st for _, r, st in sfx if render(r) == "config_suffix"]
    okp = False
    for st in plain:
        ok, cut = cfg.all_paths_cut(cfg.block_of(st), lambda lit, b, i: lit is not None and lit.kind == "eq" and lit.pol and "config_suffix[0]" in lit.atom
                                    and ord(".") in (lit.lhs.const_value(), lit.rhs.const_value()))
        okp = ok and bool(cut)
    dotted = [r for _, r, _ in sfx if r.strip().k == "DeclRefExpr" and r.strip().j.get("dk") == "local"]
    okd = False
    for r in dotted:
        v = r.strip().j["name"]
        dots = [st for lhs, rhs, st, kind in query.stores(f) if rhs is not None and rhs.const_value() == ord(".") and render(lhs) in ("%s[0]" % v, "*%s" % v)]
        copies = [c for c in f.calls(("strcpy", "stpcpy", "memcpy", "memmove", "mempcpy")) if render(c.call_args()[0]) == "%s + 1" % v and render(c.call_args()[1]) == "config_suffix"]
        okd = bool(dots) and bool(copies)
    others = [v for v in vals if v not in ('""', "config_suffix") and not any(render(r) == v for r in dotted)]
    if '""' in vals and okp and okd and not others:
        ctx.ok("L14", "the suffix used for matching starts with a dot or is empty", plain[0].where, "suffix is \"\", config_suffix (when it starts with '.') or \".\" + config_suffix")
    else:
        ctx.fail("L14", "the suffix used for matching starts with a dot or is empty", f.where, "suffix takes %s" % vals, key="suffix-dot")


def l6_l9(prog, ctx):
    t = prog.fn("traverse_conf_dirs")
    ctx.touch(t)
    wl = [x for x in t.walk() if x.k == "WhileStmt"]
    c = t.calls("check_conf_dir")
    if len(wl) == 1 and len(c) == 1 and c[0].within(wl[0]):
        cond = render(wl[0].child("cond"))
        incs = [x for x in wl[0].child("body").walk() if x.k == "UnaryOperator" and x.j.get("op") in ("++", "--")]
        inits = [st for lhs, rhs, st, kind in query.stores(t) if render(lhs) == "i" and rhs is not None]
        if cond in ("config_dirs[i] != NULL", "config_dirs[i]") and len(incs) == 1 and incs[0].j["op"] == "++" and render(incs[0].children[0]) == "i" \
                and inits and inits[0].children[1].const_value() == 0:
            ctx.ok("L6", "directory postfixes are visited in list order", wl[0].where, "i from 0 while config_dirs[i], one i++ per round")
        else:
            ctx.fail("L6", "directory postfixes are visited in list order", wl[0].where, "loop `%s` with %d increments" % (cond, len(incs)), key="postfix-order")
    else:
        fl = [x for x in t.walk() if x.k == "ForStmt"]
        okp = False
        if len(fl) == 1 and len(c) == 1 and c[0].within(fl[0]):
            init, cond, inc = fl[0].child("init"), fl[0].child("cond"), fl[0].child("inc")
            v, step = loops._step_of(inc) if inc is not None else (None, 0)
            start = None
            if init is not None and init.k == "DeclStmt":
                for d in init.j.get("decls", []):
                    if d["name"] == v and d.get("init", -1) >= 0:
                        start = render(t.nodes[d["init"]])
            if v and step > 0 and start == "config_dirs" and cond is not None and render(cond) in ("*%s != NULL" % v, "*%s" % v):
                okp = True
                ctx.ok("L6", "directory postfixes are visited in list order", fl[0].where, "pointer %s from config_dirs while *%s, one step per round" % (v, v))
        if not okp:
            ctx.inconclusive("L6", "directory postfixes are visited in list order", t.where, "loop not recognised")
    f = prog.fn("check_conf_dir")
    ctx.touch(f)
    cfg = f.cfg
    sc = f.calls("scandir")
    if len(sc) != 1:
        raise Inconclusive("check_conf_dir: scandir call not found")
    a = sc[0].call_args()
    cmp_ = a[3].strip()
    flt = a[2]
    if cmp_.k == "DeclRefExpr" and cmp_.j.get("name") == "alphasort":
        ctx.ok("L7", "drop-ins of one directory are sorted by name", sc[0].where, "scandir(..., alphasort): strcoll order = byte order under the C/POSIX collation")
    elif a[3].is_null_const():
        ctx.fail("L7", "drop-ins of one directory are sorted by name", sc[0].where, "no comparator: directory order is arbitrary", key="sort-none")
    elif cmp_.k == "DeclRefExpr" and cmp_.j.get("name") == "versionsort":
        ctx.fail("L7", "drop-ins of one directory are sorted by name", sc[0].where, "versionsort orders 10-x after 9-x: not byte-wise name order", key="sort-version")
    elif cmp_.k == "DeclRefExpr" and cmp_.j.get("dk") == "func" and prog.has_fn(cmp_.j["name"]):
        cf = prog.fn(cmp_.j["name"])
        rets = cf.returns()
        txt = render(rets[0].children[0]) if rets and rets[0].children else ""
        pa, pb = cf.params[0]["name"], cf.params[1]["name"]
        if txt in ("strcmp((*%s)->d_name, (*%s)->d_name)" % (pa, pb),):
            ctx.ok("L7", "drop-ins of one directory are sorted by name", sc[0].where, "comparator %s is strcmp of the two names" % cf.name)
        elif txt.startswith("strcmp((*%s)->d_name, (*%s)->d_name)" % (pb, pa)) or txt.startswith("-"):
            ctx.fail("L7", "drop-ins of one directory are sorted by name", cf.where, "comparator %s sorts in reverse" % cf.name, key="sort-reverse")
        else:
            ctx.inconclusive("L7", "drop-ins of one directory are sorted by name", cf.where, "comparator body `%s` not recognised" % txt)
    else:
        ctx.inconclusive("L7", "drop-ins of one directory are sorted by name", sc[0].where, "comparator %s" % render(cmp_))
    if flt.is_null_const():
        ctx.ok("L7", "no directory entry is filtered out before the suffix test", sc[0].where, "filter argument NULL")
    else:
        ctx.inconclusive("L7", "scandir filter", sc[0].where, "filter %s" % render(flt))
    nv = sc[0].up()
    nvar = nv.j["decls"][0]["name"] if nv is not None and nv.k == "DeclStmt" else None
    gate0 = f.calls(GATE)
    main = [l for l in f.walk() if l.k in ("ForStmt", "WhileStmt", "DoStmt") and not any(x.k in ("ForStmt", "WhileStmt", "DoStmt") for x in l.ancestors())
            and (not gate0 or any(c9.within(l) for c9 in gate0))]
    if len(main) != 1 or main[0].k != "ForStmt":
        raise Inconclusive("check_conf_dir: loop over the directory not recognised (%s)" % (main[0].k if main else "no loop around the per-file read"))
    sh = loops.for_shape(main[0])
    if loops.covers_range(sh, 0, nvar):
        ctx.ok("L7", "the sorted list is walked front to back", main[0].where, sh.describe())
    elif sh.ok:
        ctx.fail("L7", "the sorted list is walked front to back", main[0].where, "loop is %s" % sh.describe(), key="walk-direction")
    else:
        ctx.inconclusive("L7", "the sorted list is walked front to back", main[0].where, sh.describe())
    # L8 suffix filter
    g = f.calls(GATE)
    if len(g) != 1:
        raise Inconclusive("check_conf_dir: per-file read not found")
    gb = cfg.block_of(g[0])
    rd = ReachingDefs(f)
    de = render(a[1]).lstrip("&")
    dname = "%s[%s]->d_name" % (de, sh.var)
    dname2 = "(*%s[%s]).d_name" % (de, sh.var)

    def resolve(n, at):
        """render with locals replaced by their (single) definitions"""
        s2 = n.strip()
        if s2.k == "DeclRefExpr" and s2.j.get("dk") == "local":
            ds = [d for d in rd.defs if d.var == s2.j["name"] and d.kind in ("init", "assign")]
            if len(ds) == 1 and ds[0].rhs is not None:
                return resolve(ds[0].rhs, at)
        if s2.k == "BinaryOperator":
            return "(%s %s %s)" % (resolve(s2.children[0], at), s2.j["op"], resolve(s2.children[1], at))
        if s2.k == "CallExpr":
            return "%s(%s)" % (s2.j.get("callee"), ", ".join(resolve(x, at) for x in s2.call_args()))
        return render(s2)
    mhb = cfg.loop_header(main[0])
    req = cfg.required_literals(gb, start=cfg.loop_body_entry(main[0]))
    len_ok = tail_ok = False
    deviant = None
    sl, dl = "strlen(config_suffix)", "strlen(%s)" % dname
    for lit in req:
        if lit.kind == "lt":
            l, r = resolve(lit.lhs, g[0]), resolve(lit.rhs, g[0])
            if (l, r) == (sl, dl) and lit.pol:
                len_ok = True
            elif (l, r) == (dl, sl) and not lit.pol:
                len_ok = True
            elif ((l, r) == (dl, sl) and lit.pol) or ((l, r) == (sl, dl) and not lit.pol):
                deviant = (lit, "the length guard is reversed: only names SHORTER than the suffix are considered")
        if lit.kind == "truth" and lit.node.k == "CallExpr" and lit.node.j.get("callee") in ("strncmp", "strcmp", "memcmp"):
            args = [resolve(x, g[0]) for x in lit.node.call_args()]
            tail = "((%s + strlen(%s)) - strlen(config_suffix))" % (dname, dname)
            if tail in args[:2] and "config_suffix" in args[:2]:
                if not lit.pol:
                    tail_ok = True
                else:
                    deviant = (lit, "files are taken when the name does NOT end in the suffix")
            elif dname in args[:2] and "config_suffix" in args[:2]:
                deviant = (lit, "the suffix is compared with the START of the name (tail offset missing)")
    if deviant:
        ctx.fail("L8", "only names ending in the suffix are read", deviant[0].node.where, deviant[1], key="suffix-filter")
    elif len_ok and tail_ok:
        ctx.ok("L8", "only names ending in the suffix are read", g[0].where, "every path to the read requires strlen(suffix) < strlen(name) and strncmp(name + len - lensuffix, suffix) == 0")
    elif not tail_ok and not len_ok:
        mentions = [l2 for l2 in req if "config_suffix" in l2.atom or "d_name" in l2.atom]
        if mentions:
            ctx.inconclusive("L8", "only names ending in the suffix are read", g[0].where, "suffix test %s not recognised" % mentions[0])
        else:
            ctx.fail("L8", "only names ending in the suffix are read", g[0].where, "no suffix test guards the read: every directory entry is parsed as a drop-in", key="suffix-filter")
    elif not len_ok:
        ctx.fail("L8", "only names ending in the suffix are read", g[0].where, "no length guard: for names shorter than the suffix the tail pointer underflows", key="suffix-length")
    else:
        ctx.inconclusive("L8", "only names ending in the suffix are read", g[0].where, "tail comparison not recognised")
    # L9 append at the end
    ap = [st for lhs, rhs, st, kind in query.stores(f) if render(lhs).startswith("(*key_files)[")]
    if ap and render(ap[0].children[0]) == "(*key_files)[*size - 1]" and any("++*size" in render(c) or "++(*size)" in render(c) or "*size + 1" in render(c)
                                                                              for c in f.calls("realloc")):
        ctx.ok("L9", "an accepted drop-in is appended to the history", ap[0].where, "stored at index *size-1, then the array grows by one")
    else:
        ctx.fail("L9", "an accepted drop-in is appended to the history", (ap[0] if ap else f).where, "store %s" % [render(x) for x in ap], key="append")


def _history_walk(m):
    """the loop that walks the NULL-terminated history: (loop, K, current-element text, cursor variable, kind)"""
    import re as _re
    K = m.params[0]["name"]
    out = []
    for lp in m.walk():
        if lp.k not in ("WhileStmt", "ForStmt") or lp.child("cond") is None:
            continue
        if any(y.k in ("WhileStmt", "ForStmt", "DoStmt") for y in lp.ancestors()):
            continue
        t = render(lp.child("cond"))
        t = _re.sub(r" != NULL$", "", t)
        if t == "*" + K:
            out.append((lp, K, "*" + K, K, "cursor"))
        else:
            mm = _re.fullmatch(_re.escape(K) + r"\[([\w$.]+)\]", t)
            if mm:
                out.append((lp, K, t, mm.group(1), "index"))
    # the walk is the loop in which the elements are merged; a loop that only counts the elements is not it
    def merges(lp):
        return any(c.k == "CallExpr" and c.j.get("callee") == "econf_mergeFiles" for c in lp.walk())
    if any(merges(w[0]) for w in out):
        out = [w for w in out if merges(w[0])]
    elif out or True:
        alt = []
        for lp in m.walk():
            if lp.k not in ("WhileStmt", "ForStmt") or any(y.k in ("WhileStmt", "ForStmt", "DoStmt") for y in lp.ancestors()) or not merges(lp):
                continue
            for c in lp.walk():
                if c.k == "CallExpr" and c.j.get("callee") == "econf_mergeFiles" and len(c.call_args()) == 3:
                    t = render(c.call_args()[2])
                    mm = _re.fullmatch(_re.escape(K) + r"\[([\w$.]+)\]", t)
                    if mm:
                        alt.append((lp, K, t, mm.group(1), "index"))
        if alt:
            out = alt
    return out


def l10_l11(prog, ctx):
    import re as _re
    m = prog.fn("merge_econf_files")
    ctx.touch(m)
    cfg = m.cfg
    mc = m.calls("econf_mergeFiles")
    if len(mc) != 1:
        raise Inconclusive("merge_econf_files: econf_mergeFiles call not found")
    walks = _history_walk(m)
    if len(walks) != 1:
        raise Inconclusive("merge_econf_files: loops not recognised")
    outer0, K, CUR, CV, wkind = walks[0]
    outer = [outer0]
    a = [render(x) for x in mc[0].call_args()]
    if a == ["merged_files", "*merged_files", CUR]:
        ctx.ok("L11", "later files override the accumulated result", mc[0].where, "econf_mergeFiles(result, base = accumulated result, override = current file)")
    elif a[1:] == [CUR, "*merged_files"]:
        ctx.fail("L11", "later files override the accumulated result", mc[0].where, "base and override are swapped: earlier (lower-priority) files win", key="merge-direction")
    else:
        ctx.fail("L11", "later files override the accumulated result", mc[0].where, "arguments %s" % a, key="merge-args")
    nested = [x for x in outer0.walk() if x is not outer0 and x.k in ("WhileStmt", "ForStmt", "DoStmt")]
    scope = [outer0.child("body")] + ([outer0.child("inc")] if outer0.k == "ForStmt" and outer0.child("inc") is not None else [])
    incs = [x for part in scope if part is not None for x in part.walk() if x.k == "UnaryOperator" and x.j.get("op") in ("++", "--") and render(x.children[0]) == CV
            and not any(x.within(n2) for n2 in nested)]
    if len(incs) == 1 and incs[0].j["op"] == "++":
        ctx.ok("L11", "the history is merged front to back", incs[0].where, "%s++ once per element" % CV)
    else:
        ctx.fail("L11", "the history is merged front to back", outer[0].where, "cursor updates: %s" % [render(x) for x in incs], key="merge-walk")
    # L10: mask predicate = scan of LATER elements for an equal basename; equality skips the merge.
    # Names are discovered: the strcmp of two locals defined as basename(X->path); one X is the current element,
    # the other an element behind it: *Q with Q starting at cursor+1, or Q[n] with Q = &K[i+1] / K[j] with j from i+1.
    def name_of(l):
        return l["name"] if isinstance(l, dict) else render(l)
    defs = {}
    for l, r, st in m.assignments():
        defs.setdefault(name_of(l), []).append((r, st))
    BN = ("basename", "__xpg_basename")

    def basename_of(arg):
        a2 = arg.strip()
        if a2.k != "DeclRefExpr" or len(defs.get(a2.j.get("name"), [])) != 1:
            return None
        r = defs[a2.j["name"]][0][0].strip()
        if r.k == "CallExpr" and r.j.get("callee") in BN:
            return render(r.call_args()[0])
        return None
    cur_path = ("(%s)->path" % CUR) if CUR.startswith("*") else ("%s->path" % CUR)
    cmpc, later, srcs = [], None, {}
    for c in m.calls("strcmp"):
        bs = [basename_of(x) for x in c.call_args()]
        if None in bs:
            continue
        srcs = dict(zip([render(x) for x in c.call_args()], bs))
        if cur_path in bs:
            other = bs[1 - bs.index(cur_path)]
            later_text = other
            mm = _re.fullmatch(r"\(\*([A-Za-z_$.0-9]+)\)->path", other)
            mi = _re.fullmatch(r"([A-Za-z_$.0-9]+)\[([A-Za-z_$.0-9]+)\]->path", other)
            mx = _re.fullmatch(r"\((&?[^()]+(?:\[[^\]]+\])?)\)\[([A-Za-z_$.0-9]+)\]->path", other)     # (&K[i + 1])[n]->path : the start written in place
            if mx and not mi:
                cmpc.append(c)
                later = ("index", mx.group(1), mx.group(2))
                defs.setdefault(mx.group(1), [])
                inplace_start = mx.group(1)
            elif mm and mm.group(1) != K:
                cmpc.append(c)
                later = ("deref", mm.group(1), None)
            elif mi:
                cmpc.append(c)
                later = ("index", mi.group(1), mi.group(2))
    mb = cfg.block_of(mc[0])
    ohb = cfg.loop_header(outer[0])
    why = []
    end_lit = None
    scan = []
    if cmpc:
        kind2, Q, N = later
        start = [render(r) for r, st in defs.get(Q, [])]
        if kind2 == "deref":
            want_start = ["%s + 1" % K] if wkind == "cursor" else ["&%s[%s + 1]" % (K, CV), "(%s + %s) + 1" % (K, CV), "%s + (%s + 1)" % (K, CV)]
            ok_start = len(start) == 1 and start[0] in want_start
            adv = [x for x in m.walk() if x.k == "UnaryOperator" and x.j.get("op") == "++" and render(x.children[0]) == Q]
            end_atom = "*" + Q
        else:
            # Q[N]: either Q is a pointer to the element behind the current one and N counts from 0, or Q is the list itself and N from cursor+1
            nstart = [render(r) for r, st in defs.get(N, [])]
            if Q == K:
                ok_start = wkind == "index" and nstart == ["%s + 1" % CV]
                start = nstart
            else:
                qs = ["%s + 1" % K] if wkind == "cursor" else ["&%s[%s + 1]" % (K, CV), "(%s + %s) + 1" % (K, CV), "%s + (%s + 1)" % (K, CV)]
                if not start and Q in qs:
                    start = [Q]             # the start expression stands where the pointer would
                ok_start = len(start) == 1 and start[0] in qs and nstart == ["0"]
            adv = [x for x in m.walk() if x.k == "UnaryOperator" and x.j.get("op") == "++" and render(x.children[0]) == N]
            end_atom = later_text[:-len("->path")]
        scan = [w for w in m.walk() if w.k in ("WhileStmt", "ForStmt") and w.child("cond") is not None
                and _re.sub(r" != NULL$", "", render(w.child("cond"))) == end_atom]
        if not ok_start:
            why.append("the scan starts at %s, not at the element behind the current one" % start)
        if len(adv) != 1:
            why.append("the scan cursor is advanced %d times" % len(adv))
        eq_breaks = False
        if len(scan) == 1:
            ihb = cfg.loop_header(scan[0])
            for (b, i, s2) in cfg.edges():
                lit = cfg.edge_lit(b, i)
                if lit is not None and lit.node is cmpc[0] and not lit.pol:
                    # after an equal name the scan does not go on
                    reg = cfg.reachable(s2, avoid_blocks=[ihb, ohb])
                    back = any(ss == ihb for (bb, ii, ss) in cfg.edges() if bb in reg)
                    eq_breaks = not back
        if not eq_breaks:
            why.append("an equal name does not end the scan")
        okm, cutm = cfg.all_paths_cut(mb, lambda lit, b, i: lit is not None and lit.kind == "truth" and lit.atom == end_atom and not lit.pol)
        if not (okm and cutm):
            why.append("the merge is not conditional on 'no later file of that name'")
    else:
        why.append("no equality test of basename(%s) with the basename of a later element's path (strcmp calls compare %s)" % (cur_path, srcs or "nothing of that kind"))
        okm, cutm = cfg.all_paths_cut(mb, lambda lit, b, i: False)
    unknown_cmp = [c for c in m.calls(("strcmp", "strcoll", "strverscmp", "memcmp", "strncmp")) if c.within(outer0) and not any(x.string_value() is not None for x in c.call_args())]
    # whatever the form: the search for a namesake among the later elements may only stop early when it found one.  Stopping at
    # the first name that sorts behind the current one assumes a list sorted by name - the history is sorted per directory only.
    for c in m.calls(("strcmp", "strcoll", "strverscmp")):
        if not c.within(outer0):
            continue
        il = next((a2 for a2 in c.ancestors() if a2.k in ("WhileStmt", "ForStmt", "DoStmt") and a2 is not outer0), None)
        if il is None:
            continue
        res = set()
        up = c.up()
        if up is not None and up.k == "DeclStmt":
            res |= set(d["name"] for d in up.j.get("decls", []))
        elif up is not None and up.k == "BinaryOperator" and up.j.get("op") == "=":
            res.add(render(up.children[0]))
        ihb2 = cfg.loop_header(il)
        nl2 = cfg.natural_loop(ihb2)
        for (b, i, s2) in cfg.edges():
            if b in nl2 and b != ihb2 and s2 not in nl2:
                lit = cfg.edge_lit(b, i)
                if lit is not None and lit.kind == "lt" and (any(render(x) in res for x in (lit.lhs, lit.rhs)) or c.within(lit.node) or lit.node is c):
                    ctx.fail("L10", "the search for a later namesake stops early only when it found one", lit.node.where,
                             "the scan is left on `%s`: that is right only if the names behind the current element are sorted, but the history is sorted "
                             "per directory - a namesake in a later directory is missed and the masked file is merged" % lit, key="mask-sorted-assumption")
    if not cmpc and unknown_cmp:
        # names are compared, but not as basename(<element>->path) of two locals: the masking may be there in a form this rule does not read
        ctx.inconclusive("L10", "a drop-in is skipped when a later file has the same name", unknown_cmp[0].where,
                         "names are compared as `%s`: not the basename(path) comparison the rule knows" % render(unknown_cmp[0]))
    elif not why:
        ctx.ok("L10", "a drop-in is skipped when a later file has the same name", cmpc[0].where,
               "scan of the elements behind the current one comparing basename(path); equality ends the scan before its end, and the merge runs only when the scan reached the end")
    else:
        ctx.fail("L10", "a drop-in is skipped when a later file has the same name", (cmpc[0] if cmpc else m).where, "; ".join(why), key="mask-predicate")
    # every use of a history element as input of the result must pass the mask predicate
    seed = [st for lhs, rhs, st, kind in query.stores(m) if render(lhs) == "*merged_files" and rhs is not None and "key_files" in render(rhs)]
    for st in seed:
        if st.within(outer[0]):
            continue
        ctx.fail("L10", "the first history element is subject to masking too", st.where,
                 "`%s` seeds the result with element 0 before any masking: when no main file exists, element 0 is the first drop-in and is never "
                 "masked - usr/ex.conf.d/10-a.conf stays visible although etc/ex.conf.d/10-a.conf exists" % render(st), key="seed-of-merge:key_files[0]")


def l10_mask_exclusions(prog, ctx, rule="L10"):
    """L10 (continued): a later file of the same name masks an earlier one - for EVERY name except the two directory entries "." and
    "..".  Any other condition next to the name comparison (names starting with a dot, names of a certain length ...) takes files
    out of the masking that are in the history all the same: the merged read then differs from folding the history."""
    m = prog.fn("merge_econf_files")
    walks = _history_walk(m)
    if len(walks) != 1:
        return
    outer0 = walks[0][0]
    n = 0
    for c in m.calls(("strcmp", "strcoll")):
        if not c.within(outer0) or any(a.string_value() is not None for a in c.call_args()):
            continue
        # the condition this comparison is part of
        top = c
        while top.parent is not None and top.parent.k in ("BinaryOperator", "UnaryOperator", "ParenExpr", "ImplicitCastExpr") and \
                (top.parent.k != "BinaryOperator" or top.parent.j.get("op") in ("&&", "==", "!=")):
            top = top.parent

        def conj(e):
            e2 = e.strip()
            if e2.k == "BinaryOperator" and e2.j.get("op") == "&&":
                return conj(e2.children[0]) + conj(e2.children[1])
            return [e2]
        parts = conj(top)
        if len(parts) < 2:
            continue
        n += 1
        bad = None
        unknown_flag = None
        for part in parts:
            if any(x is c for x in part.walk()):
                continue
            calls = [x for x in part.walk() if x.k == "CallExpr"]
            okp = len(calls) == 1 and calls[0].j.get("callee") in ("strcmp", "strcoll") and any(a.string_value() in (".", "..") for a in calls[0].call_args())
            if okp:
                # ... and it says "the name is NOT that directory entry": strcmp(name, ".") != 0 / strcmp(name, "..") (truthy)
                pt = part.strip()
                differs = (pt is calls[0]) or (pt.k == "BinaryOperator" and pt.j.get("op") == "!=" and 0 in (pt.children[0].const_value(), pt.children[1].const_value())) \
                    or (pt.k == "ImplicitCastExpr")
                equal = (pt.k == "BinaryOperator" and pt.j.get("op") == "==" and 0 in (pt.children[0].const_value(), pt.children[1].const_value())) or (
                    pt.k == "UnaryOperator" and pt.j.get("op") == "!")
                if equal and not differs:
                    bad = part
            if not okp:
                # the exclusion kept in a flag: `dot = strcmp(n, ".") == 0 || strcmp(n, "..") == 0; ... if (!dot && strcmp(n, other) == 0)`
                pt = part.strip()
                neg = False
                while pt.k in ("UnaryOperator", "ParenExpr", "ImplicitCastExpr") and pt.children and (pt.k != "UnaryOperator" or pt.j.get("op") == "!"):
                    if pt.k == "UnaryOperator":
                        neg = not neg
                    pt = pt.children[0].strip()
                if pt.k == "DeclRefExpr" and pt.j.get("dk") == "local":
                    from sa.dataflow import ReachingDefs as _RDf
                    g9 = pt.fn if hasattr(pt, "fn") else m
                    dsf = [d for d in _RDf(g9).defs if d.var == pt.j["name"] and d.rhs is not None]
                    if len(dsf) == 1:
                        cs9 = [x for x in dsf[0].rhs.walk() if x.k == "CallExpr"]
                        if cs9 and all(x.j.get("callee") in ("strcmp", "strcoll") and any(a.string_value() in (".", "..") for a in x.call_args()) for x in cs9):
                            def _eq0(e):
                                e2 = e.strip()
                                return (e2.k == "BinaryOperator" and e2.j.get("op") == "==" and 0 in (e2.children[0].const_value(), e2.children[1].const_value())) or (
                                    e2.k == "UnaryOperator" and e2.j.get("op") == "!" and e2.children[0].strip().k == "CallExpr")
                            def _disj(e):
                                e2 = e.strip()
                                if e2.k == "BinaryOperator" and e2.j.get("op") == "||":
                                    return _disj(e2.children[0]) + _disj(e2.children[1])
                                return [e2]
                            if neg and all(_eq0(x) for x in _disj(dsf[0].rhs)):
                                continue            # "is `.` or `..`" negated: the documented exclusion
                            unknown_flag = part
                            continue
                bad = part
        if bad is None and locals().get("unknown_flag") is not None:
            ctx.inconclusive(rule, "every name but \".\" and \"..\" takes part in the masking", unknown_flag.where,
                             "the exclusion `%s` is kept in a flag whose form is not followed" % render(unknown_flag))
            unknown_flag = None
            continue
        if bad is not None:
            ctx.fail(rule, "every name but \".\" and \"..\" takes part in the masking", bad.where,
                     "the name comparison is only made when `%s`: files for which that is false are never masked by a later namesake although they are in "
                     "the history like any other" % render(bad)[:60], key="mask-exclusion")
        else:
            ctx.ok(rule, "every name but \".\" and \"..\" takes part in the masking", c.where, "the only other conditions are the comparisons with \".\" and \"..\"")


def l13(prog, ctx):
    f = prog.fn("econf_readConfigWithCallback")
    cfg = f.cfg
    reb = [st for lhs, rhs, st, kind in query.stores(f) if render(lhs) == "config_name" and rhs is not None and render(rhs) == "project"]
    if not reb:
        ctx.inconclusive("L13", "a call without project and without config name is refused", f.where, "drop-in-only rebinding `config_name = project` not found")
        return

    def project_given(lit, b, i):
        return lit is not None and lit.pol and ((lit.kind == "truth" and lit.atom in ("project", "strlen(project)", "*project")) or
                                                (lit.kind == "lt" and "strlen(project)" in lit.atom and lit.lhs.const_value() == 0))
    wp = cfg.feasible_reach(cfg.block_of(reb[0]), project_given, lambda a: "config_name" in a or "project" in a)
    if wp is None:
        ctx.ok("L13", "a call without project and without config name is refused", reb[0].where,
               "`config_name = project` is reachable only with a non-NULL project (every consistent path carries the test)")
    else:
        ctx.fail("L13", "a call without project and without config name is refused", reb[0].where,
                 "with config_name NULL/empty the function sets config_name = project; when project is NULL too, NULL reaches strlen() in "
                 "combine_strings() (crash) instead of an error code", key="null-null", path=cfg.describe_path(wp))


def l13b(prog, ctx):
    """L13 (continued): in the drop-ins-only mode (no config name: the project name becomes the config name) the layers are the plain
    layer directories, not <layer>/<project>: `project` is cleared in that branch, and nothing reads `project` for composing a path
    before the mode is known."""
    f = prog.fn("econf_readConfigWithCallback")
    fo = getattr(f, "original", f)
    cfg = f.cfg
    reb = [st for lhs, rhs, st, kind in query.stores(f) if render(lhs) == "config_name" and rhs is not None and render(rhs) == "project"]
    if not reb:
        return
    rb = cfg.block_of(reb[0])
    clr = [st for lhs, rhs, st, kind in query.stores(f) if render(lhs) == "project" and rhs is not None and rhs.is_null_const()]
    same_branch = [st for st in clr if cfg.block_of(st) == rb or cfg.dominates(rb, cfg.block_of(st))]
    if not same_branch:
        ctx.fail("L13", "drop-ins-only mode: the layers are the plain layer directories", reb[0].where,
                 "`config_name = project` without `project = NULL`: the layer directories are composed as <layer>/<project>, so "
                 "<layer>/<project>/<project>.d is searched instead of <layer>/<project>.d", key="dropin-only-project-kept")
        return
    # reads of `project` that happen before the mode switch can be reached
    early = None
    sw_if = next((a for a in reb[0].ancestors() if a.k == "IfStmt"), None)
    for u in f.walk():
        if u.k != "DeclRefExpr" or u.j.get("name") != "project" or u.j.get("dk") != "param":
            continue
        if sw_if is not None and u.within(sw_if):
            continue
        up = u.up()
        # tests of the argument itself (project == NULL, *project, strlen(project) - in a condition or in the initialiser of a flag) are
        # not compositions; a composition hands the text on: into a string-building call, or into a pointer variable
        kind9 = None
        prev9 = u
        for a in u.ancestors():
            if a.k == "BinaryOperator" and a.j.get("op") in ("==", "!=", "<", ">", "<=", ">=", "&&", "||"):
                kind9 = "test"
                break
            if a.k == "UnaryOperator" and a.j.get("op") in ("!", "*"):
                kind9 = "test"
                break
            if a.k == "ArraySubscriptExpr":
                kind9 = "test"
                break
            if a.k == "ConditionalOperator" and a.child("cond") is not None and (prev9 is a.child("cond") or prev9.within(a.child("cond"))):
                kind9 = "test"
                break
            if a.k == "CallExpr":
                kind9 = "test" if a.j.get("callee") in ("strlen", "strcmp", "strncmp") else "compose"
                break
            if a.k in ("IfStmt", "WhileStmt", "ForStmt") :
                kind9 = "test"
                break
            if a.k == "DeclStmt" or (a.k == "BinaryOperator" and a.j.get("op") == "="):
                kind9 = "compose" if (prev9.j.get("ct") or "").endswith("*") else "test"
                break
            if a.k in ("CompoundStmt", "ReturnStmt"):
                break
            prev9 = a
        if kind9 != "compose":
            continue
        ub = cfg.block_of(u)
        if ub is not None and rb in cfg.reachable(ub) and ub != rb:
            early = u
            break
    if early is not None:
        ctx.fail("L13", "drop-ins-only mode: the layers are the plain layer directories", early.where,
                 "`project` is used (%s) before the function has decided whether it is the drop-ins-only mode: there the layer directories must not "
                 "contain the project name" % render(early.up() or early)[:60], key="dropin-only-project-early")
    else:
        ctx.ok("L13", "drop-ins-only mode: the layers are the plain layer directories", same_branch[0].where,
               "`project = NULL` in the branch that makes the project name the config name; no use of `project` ahead of it")


PROBES_INT = ("lstat", "stat", "fstat", "access", "faccessat", "fstatat", "open", "openat")
PROBES_PTR = ("fopen", "realpath", "opendir", "fdopen")


def l15_l17(prog, ctx):
    """L15 ECONF_NOFILE means "no such file" and nothing else (it is the one code that lets the main-file scan fall through
    to a lower layer).   L16 a file found under an absolute name is stored under that name (same-name masking compares the
    stored names).   L17 the drop-in directory list that is scanned is a consistent (list, count) pair (= C12.F3)."""
    from rules import common
    from sa.dataflow import ReachingDefs
    n15 = 0
    for fname in (common.GATE, common.PARSER, "get_absolute_path"):
        if not prog.has_fn(fname):
            continue
        f = prog.fn(fname)
        ctx.touch(f)
        cfg = f.cfg
        rd = ReachingDefs(f)
        sites = [r for r in query.returns_of_constant(f, "ECONF_NOFILE")]
        for lhs, rhs, st, kind in query.stores(f):
            if kind == "=" and rhs is not None and query.returned_constant_expr(rhs) == "ECONF_NOFILE" and st.j.get("synthetic") != "return":
                sites.append(st)

        def probe_of(n):
            n = n.strip()
            if n.k == "CallExpr" and n.j.get("callee") in PROBES_INT + PROBES_PTR:
                return n.j["callee"]
            if n.k == "DeclRefExpr" and n.j.get("dk") == "local":
                ds = [d for d in rd.defs if d.var == n.j["name"] and d.kind in ("init", "assign") and d.rhs is not None]
                if len(ds) == 1:
                    return probe_of(ds[0].rhs)
            return None

        def failed_probe(lit, b, i):
            if lit is None:
                return False
            if lit.kind == "truth":
                c = probe_of(lit.node)
                return (c in PROBES_PTR and not lit.pol) or (c in PROBES_INT and lit.pol)
            for x, y in ((lit.lhs, lit.rhs), (lit.rhs, lit.lhs)):
                c = probe_of(x)
                if c in PROBES_INT:
                    yv = y.const_value()
                    if lit.kind == "eq" and yv == -1 and lit.pol:
                        return True
                    if lit.kind == "eq" and yv == 0 and not lit.pol:
                        return True
                    if lit.kind == "lt" and x is lit.lhs and yv == 0 and lit.pol:
                        return True
            return False
        for st in sites:
            n15 += 1
            ok, cut = cfg.all_paths_cut(cfg.block_of(st), failed_probe)
            inst = "%s: ECONF_NOFILE only when the file is not there" % fname
            if ok and cut:
                ctx.ok("L15", inst, st.where, "every path to this exit carries a failed lstat/stat/fopen/realpath")
            else:
                ctx.fail("L15", inst, st.where,
                         "ECONF_NOFILE is produced for a file that EXISTS (no failed lstat/stat/fopen/realpath on the way): the main-file scan treats this code as "
                         "'try the next lower layer', so such a file - e.g. a link to /dev/null placed in /etc to silence the vendor file - no longer "
                         "hides the lower layers", key="nofile-for-existing:%s" % fname)
    ctx.counts["L15 ECONF_NOFILE exits of the gate"] = n15
    if n15 < 2:
        ctx.inconclusive("L15", "ECONF_NOFILE exits of the gate", "", "found %d, expected at least the lstat and fopen exits" % n15)
    # L16
    if prog.has_fn("get_absolute_path"):
        gap = prog.fn("get_absolute_path")
        cfg = gap.cfg
        pname = gap.params[0]["name"]

        def relative(lit, b, i):
            if lit is None or lit.kind != "eq":
                return False
            for x, y in ((lit.lhs, lit.rhs), (lit.rhs, lit.lhs)):
                if y.const_value() == 47 and render(x) in ("*" + pname, pname + "[0]"):
                    return not lit.pol
            return False
        rps = gap.calls(("realpath", "canonicalize_file_name"))
        bad = None
        for c in rps:
            ok, cut = cfg.all_paths_cut(cfg.block_of(c), relative)
            if not (ok and cut):
                bad = c
        if bad is not None:
            ctx.fail("L16", "a file found under an absolute name is stored under that name", bad.where,
                     "%s() is applied to absolute names too: a drop-in that is a symbolic link is stored under the name of its TARGET, and the same-name "
                     "masking of merge_econf_files compares the stored names - the link no longer masks (or is masked by) its namesakes" % bad.j["callee"],
                     key="abs-path-resolved")
        elif rps:
            ctx.ok("L16", "a file found under an absolute name is stored under that name", rps[0].where, "realpath() only on the `*%s != '/'` branch" % pname)
        # ... and on the absolute branch the name is copied, not rewritten
        def absolute(lit, b, i):
            if lit is None or lit.kind != "eq":
                return False
            for x, y in ((lit.lhs, lit.rhs), (lit.rhs, lit.lhs)):
                if y.const_value() == 47 and render(x) in ("*" + pname, pname + "[0]"):
                    return lit.pol
            return False
        retvars = set(render(r.children[0]) for r in gap.returns() if r.children and r.children[0].strip().k == "DeclRefExpr")
        for lhs, rhs, st in gap.assignments():
            nm = lhs["name"] if isinstance(lhs, dict) else render(lhs)
            if nm not in retvars or rhs is None or rhs.is_null_const():
                continue
            oka, cuta = cfg.all_paths_cut(cfg.block_of(st), absolute)
            if not (oka and cuta):
                continue
            if render(rhs.strip()) in ("strdup(%s)" % pname, pname):
                ctx.ok("L16", "an absolute name is stored letter for letter", st.where, "%s = %s" % (nm, render(rhs)))
            else:
                ctx.fail("L16", "an absolute name is stored letter for letter", st.where,
                         "for an absolute name the stored path is `%s`, not a copy of the name given: the file that is opened, the name econf_getPath() reports and "
                         "the name the same-name masking compares are no longer the name the file was found under (a `dir/..` with dir a symbolic link "
                         "even names another file)" % render(rhs), key="abs-path-rewritten")
        else:
            ctx.ok("L16", "a file found under an absolute name is stored under that name", gap.where, "no link resolution at all")
    else:
        ctx.inconclusive("L16", "a file found under an absolute name is stored under that name", "", "get_absolute_path vanished")
    # L17 = C12.F3
    try:
        from sa.report import Ctx as _Ctx
        from rules import C12 as _C12
        sub = _Ctx(ctx.prop, ctx.tier, prog)
        _C12.f1_f3_f5(prog, sub)
        for ob in sub.obs:
            if ob.rule == "F3" and ("pair" in ob.instance or "own list" in ob.instance):
                ob.rule = "L17"
                ctx.obs.append(ob)
    except Inconclusive as e:
        ctx.inconclusive("L17", "the drop-in directory list is a consistent pair", "", str(e))


def l18_l19(prog, ctx):
    """L18 every directory entry whose name ends in the suffix IS read: nothing else about the entry (its type, what a link
    points to, its size) decides whether it takes part - a link to /dev/null placed in /etc must still mask its namesake.
    L19 the computed layer list lives only in the object of the call that computed it: the merged result does not carry
    parse_dirs / conf_dirs over, otherwise the next read with that handle skips the computation (`parse_dirs_count == 0`)."""
    f = prog.fn("check_conf_dir")
    ctx.touch(f)
    cfg = f.cfg
    g = f.calls(GATE)
    main = [x for x in f.walk() if x.k in ("ForStmt", "WhileStmt") and g and g[0].within(x) and not any(y.k in ("ForStmt", "WhileStmt") and g[0].within(y) and y.within(x) and y is not x for y in f.walk())]
    if len(g) != 1 or not main:
        ctx.inconclusive("L18", "every entry with the suffix is read", f.where, "per-file read / loop not found")
    else:
        lp = main[0]
        gb = cfg.block_of(g[0])
        hb = cfg.loop_header(lp)
        # literals that must hold to reach the read (the suffix test) ...
        req = cfg.required_literals(gb, start=cfg.loop_body_entry(lp), expand_locals=False)
        req_keys = set(l.key() for l in req)
        # ... and any other two-way branch in the round from which the next round is reachable without the read
        extra = None
        body = cfg.natural_loop(hb)
        for (b, i, s2) in cfg.edges():
            if b not in body or b == hb:
                continue
            lit = cfg.edge_lit(b, i)
            if lit is None or cfg.blocks[b].cond is None or not cfg.blocks[b].cond.within(lp):
                continue
            if not cfg.dominates(b, gb) and gb not in cfg.reachable(b, avoid_blocks=[hb]):
                continue
            if gb in cfg.reachable(b, avoid_blocks=[hb]) and b != gb:
                # a branch in front of the read: its other side must not skip the read for an entry that has the suffix
                skip = cfg.reachable(s2, avoid_blocks=[gb])
                if hb in skip and gb not in cfg.reachable(s2, avoid_blocks=[hb]):
                    # ... on a CONSISTENT path: `if (error == ECONF_SUCCESS) read..; if (!error) next round else return error` does not
                    init9 = {lit.atom: lit.pol}
                    if lit.kind == "eq":
                        for x9, y9 in ((lit.lhs, lit.rhs), (lit.rhs, lit.lhs)):
                            if x9.strip().k == "DeclRefExpr" and y9.const_value() == 0:
                                init9[render(x9)] = not lit.pol
                                if lit.pol:
                                    init9["=" + render(x9)] = 0
                    elif lit.kind == "truth" and lit.node.k == "DeclRefExpr" and not lit.pol:
                        init9["=" + lit.atom] = 0
                    succ9 = {(bb, ii): ss for (bb, ii, ss) in cfg.edges()}
                    if cfg.feasible_reach(hb, lambda l9, bb, ii: succ9.get((bb, ii)) == gb, lambda a9: True, start=s2, init_facts=init9) is None:
                        continue
                    mentions_suffix = "config_suffix" in lit.atom or "suffix" in lit.atom or "d_name" in lit.atom and ("strlen" in lit.atom or "strncmp" in lit.atom or "strcmp" in lit.atom)
                    resolved = _resolve_len_names(f, lit)
                    alloc_fail = lit.kind == "truth" and any(x.k == "CallExpr" and x.j.get("callee") in ("econf_newKeyFile_with_options", "malloc", "calloc", "combine_strings") for x in lit.node.walk())
                    if not (mentions_suffix or resolved or alloc_fail) and lit.negated().key() not in set() :
                        extra = (cfg.blocks[b].cond, lit)
        # the name must be LONGER than the suffix: an entry that consists of the suffix alone (`.conf`) is not a configuration file
        from sa.dataflow import ReachingDefs as _RD18
        rd18 = _RD18(f)

        def what_len(e):
            e0 = e.strip()
            t = render(e0)
            if e0.k == "DeclRefExpr" and e0.j.get("dk") == "local":
                ds = [d for d in rd18.defs if d.var == e0.j["name"] and d.rhs is not None]
                if len(ds) == 1:
                    t = render(ds[0].rhs)
            if "strlen" in t and "d_name" in t:
                return "name"
            if "strlen" in t and "suffix" in t:
                return "suffix"
            return None
        strict = None
        for l in req:
            if l is None or l.kind != "lt":
                continue
            a9, b9 = what_len(l.lhs), what_len(l.rhs)
            if (a9, b9) == ("suffix", "name") and l.pol:
                strict = True                   # strlen(suffix) < strlen(name)
            elif (a9, b9) == ("name", "suffix") and not l.pol:
                strict = False                  # !(strlen(name) < strlen(suffix)) : equal lengths pass
                where18 = l.node
        if strict is False:
            ctx.fail("L18", "only entries LONGER than the suffix are read", where18.where,
                     "an entry whose whole name is the suffix (the dot file `.conf`) passes the length test: it is parsed as a drop-in, shown to the callback and "
                     "merged - a tree that holds nothing else is no longer ECONF_NOFILE", key="suffix-only-name")
        elif strict:
            ctx.ok("L18", "only entries LONGER than the suffix are read", g[0].where, "strlen(suffix) < strlen(name) on the way to the read")
        if extra is None:
            ctx.ok("L18", "every entry with the suffix is read", g[0].where, "between the suffix test and the read no other test can send the loop on to the next entry")
        else:
            ctx.fail("L18", "every entry with the suffix is read", extra[0].where,
                     "an entry whose name has the suffix is skipped when `%s`: e.g. a symbolic link to /dev/null (the documented way to switch a vendor drop-in "
                     "off) is no longer read, so it no longer masks the file of the same name in a lower layer" % extra[1], key="entry-filter")
    # L19
    m = prog.fn("readConfigWithCallback")
    ctx.touch(m)
    mcalls = m.calls("merge_econf_files")
    bad = None
    for lhs, rhs, st, kind in query.stores(m):
        t = render(lhs)
        if re.search(r"->(parse_dirs|parse_dirs_count|conf_dirs|conf_count)$", t) and rhs is not None and not rhs.is_null_const() and rhs.const_value() != 0:
            if mcalls and cfg_reaches(m, mcalls[0], st):
                bad = st
    if bad is not None:
        ctx.fail("L19", "the merged result does not carry the computed layers", bad.where,
                 "`%s` after the merge: the result keeps the layer list of THIS call; a second read with the same handle finds parse_dirs_count != 0 and does not "
                 "compute the layers of its own project / sub-directory" % render(bad)[:70], key="layers-carried-over")
    else:
        ctx.ok("L19", "the merged result does not carry the computed layers", m.where, "no store into parse_dirs / conf_dirs of the result behind merge_econf_files()")


def cfg_reaches(fn, a, b):
    cfg = fn.cfg
    ba, bb = cfg.block_of(a), cfg.block_of(b)
    return ba is not None and bb is not None and bb in cfg.reachable(ba)


def _resolve_len_names(f, lit):
    """is the literal the suffix test written with locals (lensuffix < lenstr ...)?"""
    from sa.dataflow import ReachingDefs
    names = set(x.j["name"] for x in lit.node.walk() if x.k == "DeclRefExpr" and x.j.get("dk") == "local")
    if lit.kind in ("lt", "eq"):
        for side in (lit.lhs, lit.rhs):
            names |= set(x.j["name"] for x in side.walk() if x.k == "DeclRefExpr" and x.j.get("dk") == "local")
    rd = ReachingDefs(f)
    for n in names:
        for d in rd.defs:
            if d.var == n and d.rhs is not None and ("config_suffix" in render(d.rhs) or "d_name" in render(d.rhs)) and "strlen" in render(d.rhs):
                return True
    return False


def l2_live_object(prog, ctx):
    """L2 (continued): the scan for the main file goes on to the next lower layer after ECONF_NOFILE - with an object the gate
    can fill.  The gate releases the object and clears the pointer when a file that is there cannot be opened; a scan that does
    not create a new one hands the gate NULL for the lower layer (ownership engine, finding kind `null-object`)."""
    from rules import own_rules
    a = own_rules.analyse(prog, HIST)
    n = own_rules.report(ctx, "L2", "%s: every round of the main-file scan has an object to read into" % HIST, a, only_kinds=("null-object",))


def l20_absent_dropin_dir(prog, ctx, rule="L20"):
    """L20: a layer that has no drop-in directory contributes nothing and does not end the read: when scandir() fails because the
    directory (or a component of its path) is not there - errno ENOENT or ENOTDIR - the scan of that directory answers ECONF_SUCCESS,
    so that the remaining layers are still read and a configuration found nowhere is reported as ECONF_NOFILE."""
    import errno as _errno
    f = prog.fn("check_conf_dir")
    ctx.touch(f)
    cfg = f.cfg
    sc = f.calls("scandir")
    if len(sc) != 1:
        raise Inconclusive("check_conf_dir: scandir call not found")
    up = sc[0].up()
    var = up.j["decls"][0]["name"] if up is not None and up.k == "DeclStmt" else (render(up.children[0]) if up is not None and up.k == "BinaryOperator" else None)
    if var is None:
        raise Inconclusive("check_conf_dir: result of scandir() not bound to a variable")
    ok_all, seen = True, 0
    for code, name in ((_errno.ENOENT, "ENOENT"), (_errno.ENOTDIR, "ENOTDIR")):
        pos = cfg.index_of(up)
        vals = set()

        def accept(b, fd):
            for n9 in cfg.blocks[b].elems:
                if n9.k == "ReturnStmt" and not n9.j.get("inlined_return") and n9.children:
                    cv = n9.children[0].const_value()
                    vals.add(cv if cv is not None else fd.get("=" + render(n9.children[0])))
            return False
        cfg.feasible_reach(None, lambda lit, b, i: False, lambda a: True, start=pos[0], start_index=pos[1] + 1, accept=accept,
                           init_facts={"=" + var: -1, var: True, "=*__errno_location()": code, "*__errno_location()": True})
        seen += 1
        if vals == {0}:
            ctx.ok(rule, "a missing drop-in directory (%s) is passed over" % name, sc[0].where, "scandir() < 0 with errno %s: check_conf_dir returns ECONF_SUCCESS" % name)
        elif None in vals and len(vals) > 1 or vals == {None}:
            ctx.inconclusive(rule, "a missing drop-in directory (%s) is passed over" % name, sc[0].where, "return values %s" % sorted(str(v) for v in vals))
        else:
            ok_all = False
            ctx.fail(rule, "a missing drop-in directory (%s) is passed over" % name, sc[0].where,
                     "when scandir() fails with errno %s (%s) check_conf_dir returns %s: the layered read stops there - the layers behind it are not read and a "
                     "configuration that exists nowhere is no longer ECONF_NOFILE" % (
                         name, "a component of the path is a regular file, e.g. /run/<project> being a pid file" if name == "ENOTDIR" else "no such directory",
                         sorted(str(v) for v in vals)), key="absent-dir:%s" % name)


def l13c_dropins_only(prog, ctx):
    """L13c: without a configuration name (NULL or "") the read is "drop-ins only": the project takes the place of the name and the one
    drop-in directory is `<project>.d` - the object's postfix list becomes the single entry ".d", counted as 1."""
    f = prog.fn("econf_readConfigWithCallback")
    ctx.touch(f)
    sw = [st for lhs, rhs, st, kind in query.stores(f) if kind == "=" and render(lhs) == "config_name" and rhs is not None and render(rhs) == "project"]
    if len(sw) != 1:
        ctx.inconclusive("L13", "drop-ins only: entered exactly without a configuration name", f.where, "the statement `config_name = project` was not found")
        return
    iff = next((a for a in sw[0].ancestors() if a.k == "IfStmt"), None)
    cond = iff.child("cond") if iff is not None else None

    def disj(e):
        e2 = e.strip()
        if e2.k == "BinaryOperator" and e2.j.get("op") == "||":
            return disj(e2.children[0]) + disj(e2.children[1])
        return [e2]
    if cond is None:
        ctx.inconclusive("L13", "drop-ins only: entered exactly without a configuration name", sw[0].where, "no guarding test")
    else:
        parts = [render(x).replace(" ", "") for x in disj(cond)]
        null_forms = ("config_name==NULL", "!config_name", "NULL==config_name", "config_name==0")
        empty_forms = ("strlen(config_name)==0", "!strlen(config_name)", "*config_name=='\\x00'", "!*config_name", "config_name[0]=='\\x00'", "!config_name[0]", "*config_name==0",
                       "0==strlen(config_name)", "strlen(config_name)<1")
        if len(parts) == 2 and parts[0] in null_forms and parts[1] in empty_forms:
            ctx.ok("L13", "drop-ins only: entered exactly without a configuration name", cond.where, render(cond)[:70])
        elif any("config_name" in p9 for p9 in parts) and (
                any(p9 in ("config_name!=NULL", "config_name", "strlen(config_name)!=0", "strlen(config_name)", "strlen(config_name)>0", "*config_name") for p9 in parts)
                or any(re.fullmatch(r"strlen\(config_name\)==[1-9]\d*", p9) for p9 in parts)
                or (len(parts) == 1 and "&&" in parts[0] and "config_name" in parts[0])):
            ctx.fail("L13", "drop-ins only: entered exactly without a configuration name", cond.where,
                     "`%s`: not \"config_name is NULL or empty\" - a read with a name is taken for drop-ins only (or the other way round; an empty name is dereferenced "
                     "when NULL)" % render(cond)[:70], key="dropins-only-test")
        else:
            ctx.inconclusive("L13", "drop-ins only: entered exactly without a configuration name", cond.where, "test `%s` not understood" % render(cond)[:60])
    body = iff.child("then") if iff is not None else None
    if body is not None:
        cnt = [st for lhs, rhs, st, kind in query.stores(f) if st.within(body) and kind == "=" and render(lhs).endswith("->conf_count") and rhs is not None]
        slot = [(st, lhs, rhs) for lhs, rhs, st, kind in query.stores(f) if st.within(body) and kind == "=" and lhs.strip().k == "ArraySubscriptExpr"
                and render(lhs.strip().children[0]).endswith("->conf_dirs") and rhs is not None and not rhs.is_null_const()]
        okc = len(cnt) == 1 and cnt[0].children[1].const_value() == 1
        oks = len(slot) == 1 and slot[0][1].strip().children[1].const_value() == 0 and any(x.string_value() == ".d" for x in slot[0][2].walk())
        if okc and oks:
            ctx.ok("L13", "drop-ins only: the postfix list is the single entry \".d\"", slot[0][0].where, "conf_count = 1, conf_dirs[0] = strdup(\".d\")")
        elif slot or (cnt and not okc):
            ctx.fail("L13", "drop-ins only: the postfix list is the single entry \".d\"", (slot[0][0] if slot else cnt[0]).where,
                     "count %s, members %s: the drop-in directory `<project>.d` is not (the only one) searched" % (
                         [render(c9.children[1]) for c9 in cnt], [render(s9[0])[:50] for s9 in slot]), key="dropins-only-list")
        else:
            ctx.inconclusive("L13", "drop-ins only: the postfix list is the single entry \".d\"", body.where, "the list is built in a form not understood")


def run(prog, ctx):
    l20_absent_dropin_dir(prog, ctx)
    l13c_dropins_only(prog, ctx)
    l2_live_object(prog, ctx)
    l18_l19(prog, ctx)
    l1(prog, ctx)
    l2_l5(prog, ctx)
    l6_l9(prog, ctx)
    l10_l11(prog, ctx)
    l10_mask_exclusions(prog, ctx)
    l13(prog, ctx)
    l13b(prog, ctx)
    l15_l17(prog, ctx)
    ctx.floor("C01 obligations", len([o for o in ctx.obs if o.rule.startswith("L")]), 20)
