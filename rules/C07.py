"""C07 - a written configuration reads back identically (the writer's and the reader's tables agree).

W1 entries written in order   W2 section header before the first key of every run of a named section, from addbrackets(group)
W3 delimiter / comment prefix come from the object's tags; the reader stores those tags   W4 quoted values are written quoted
W5 key always, value when present   W6 both comment kinds written, every physical line prefixed   W7 every textual field is read by the writer"""
import re

from sa.ast import render
from sa.facts import Inconclusive
from sa import query, loops
from sa.buf import parse_format
from rules import parser

META = {
    "level": "other",
    "technique": "static analysis: data sources and path conditions of the writer's fprintf calls, field coverage of struct file_entry, "
                 "agreement with the fields the parser stores",
    "level_text": "THIN claim. Decides that every field the parser stores that has a textual form is emitted by the writer, from the right "
                  "source, under the right condition (table agreement), for every object. Not decided: the byte-level round trip itself, and "
                  "anything that depends on the ORDER of entries (a group-less key set after a sectioned key is written below that section's "
                  "header and read back as its member - seen while reading, outside the decided clauses).",
    "level_note": "Partial (thin). A writer that changes its layout (blanks, line breaks) does not touch these rules. Trusted: clang front end/CFG.",
    "explanation": "writer/reader table agreement",
    "trusted_base": ["clang-14 front end and CFG", "sa/cfg.py"],
    "assumptions": [],
}

W = "econf_writeFile"
MARKER = "_none_"


def w8_w9(prog, ctx):
    """W8 entries created through the setters are appended (new_key / key_file_append, = C11.A5): the writer relies on the
    order of entries for the section headers.   W9 a value and its `quotes` flag travel together: wherever an entry's value is
    replaced by another entry's value, the flag comes from that entry too - or the copy drops the flag for everybody."""
    from sa.report import Ctx as _Ctx
    from rules import C11 as _C11
    sub = _Ctx(ctx.prop, ctx.tier, prog)
    try:
        _C11.a5(prog, sub)
        for ob in sub.obs:
            ob.rule = "W8"
            ctx.obs.append(ob)
    except Inconclusive as e:
        ctx.inconclusive("W8", "entries are created at the end", "", str(e))
    # ... and under the section name the reader would give them: NULL and "" mean group-less in creation as in lookup (= C11.A3),
    # otherwise a section named "" is written as `[]`, which does not read back
    sub3 = _Ctx(ctx.prop, ctx.tier, prog)
    try:
        g3, s3, d3 = _C11.accessors(prog)
        _C11.a3(prog, sub3, g3, s3)
        for ob in sub3.obs:
            if "NULL/empty section" in ob.instance or "marker" in ob.instance:
                ob.rule = "W8"
                ctx.obs.append(ob)
    except Inconclusive as e:
        ctx.inconclusive("W8", "created entries get the section name the reader would give them", "", str(e))
    cp = prog.fn("cpy_file_entry")
    ctx.touch(cp)
    qs = [(rhs, st) for lhs, rhs, st, kind in query.stores(cp) if (lhs.strip().k == "MemberExpr" and lhs.strip().j.get("member") == "quotes" and lhs.strip().j.get("rec") == "file_entry") and rhs is not None]
    if not qs:
        ctx.inconclusive("W9", "a value and its quotes flag travel together", cp.where, "cpy_file_entry does not set `quotes`")
        return
    copies_flag = any(rhs.const_value() is None for rhs, st in qs)
    if not copies_flag:
        ctx.ok("W9", "a value and its quotes flag travel together", qs[0][1].where, "copied entries drop the flag (`%s`): no copy can carry a flag that belongs to another value" % render(qs[0][1]))
        return
    bad = None
    n = 0
    for h in prog.lib_functions():
        if not h.calls("cpy_file_entry"):
            continue
        for lhs, rhs, st, kind in query.stores(h):
            l = lhs.resolve() if hasattr(lhs, "resolve") else lhs.strip()
            if kind == "=" and l.k == "MemberExpr" and l.j.get("member") == "value" and rhs is not None and not rhs.is_null_const():
                n += 1
                base = render(l)[:-len(".value")] if render(l).endswith(".value") else render(l.children[0])
                flag_stores = [s2 for l2, r2, s2, k2 in query.stores(h) if render(l2.resolve() if hasattr(l2, "resolve") else l2) in (base + ".quotes", base + "->quotes")
                               and h.cfg.block_of(s2) == h.cfg.block_of(st)]
                if not flag_stores:
                    bad = bad or (h, st)
    if bad:
        ctx.fail("W9", "a value and its quotes flag travel together", bad[1].where,
                 "cpy_file_entry() now copies `quotes`, and %s replaces the copied entry's value (`%s`) without replacing the flag: an unquoted override "
                 "of a quoted vendor value is written in quotes (and a continued value then reads back with the quote characters inside)" % (bad[0].name, render(bad[1])[:60]),
                 key="quotes-not-with-value:%s" % bad[0].name)
    else:
        ctx.ok("W9", "a value and its quotes flag travel together", qs[0][1].where, "%d value replacements after a copy, each with its flag" % n)


def w11_queries_leave_the_text(prog, ctx):
    """W11: what is written is what was read or set: the getters - the extended one works on the stored text of the value - do not
    edit it in between (= C10.Q1 for the getters; a trim() on the stored string cuts trailing blanks inside quotes for good)."""
    from sa.report import Ctx as _Ctx
    from rules import C10 as _C10
    sub = _Ctx(ctx.prop, ctx.tier, prog)
    try:
        _C10.run(prog, sub)
    except Inconclusive as e:
        ctx.inconclusive("W11", "getters do not edit the stored text", "", str(e))
        return
    n_ok = 0
    for ob in sub.obs:
        if ob.rule != "Q1" or "econf_get" not in ob.instance:
            continue
        if ob.outcome == "PASS":
            n_ok += 1
            continue
        ob.rule = "W11"
        ctx.obs.append(ob)
    if n_ok:
        ctx.ok("W11", "getters do not edit the stored text", "", "%d (getter, input) pairs with an empty Mod set (= C10.Q1)" % n_ok)


def _tag_sources(prog, f, tag):
    """[(node, source expression node)] of what `f` stores into an object's ->tag: directly, or by handing the value to a constructor of
    the library that stores that parameter into the tag of the object it creates"""
    out = []
    for lhs, rhs, st, kind in query.stores(f):
        if kind == "=" and lhs.strip().k == "MemberExpr" and lhs.strip().j.get("member") == tag and lhs.strip().j.get("rec") == "econf_file" and rhs is not None:
            out.append((st, rhs))
    for c in f.calls():
        cn = c.j.get("callee")
        if not cn or cn == f.name or not prog.has_fn(cn):
            continue
        g = prog.fn(cn)
        if g.body is None:
            continue
        for pi, q in enumerate(g.params):
            gs = [(st2, r2) for l2, r2, st2, k2 in query.stores(g) if k2 == "=" and l2.strip().k == "MemberExpr" and l2.strip().j.get("member") == tag
                  and l2.strip().j.get("rec") == "econf_file" and r2 is not None]
            if gs and all(r2.strip().k == "DeclRefExpr" and r2.strip().j.get("name") == q["name"] and r2.strip().j.get("dk") == "param" for st2, r2 in gs) \
                    and pi < len(c.call_args()) and not [1 for l3, r3, s3, k3 in query.stores(g) if render(l3) == q["name"]]:
                out.append((c, c.call_args()[pi]))
    return out


def w12_merged_objects_are_writable(prog, ctx):
    """W12: the writer emits a section header whenever the section changes and none for the keys without section - those can only be
    written where no header precedes them.  A merged object is written correctly only if the merge keeps its group-less keys in front
    of all sections (= C03.M10)."""
    from rules import common as _common
    from rules import C03 as _C03
    _common.import_obligations(ctx, prog, [_C03.run], "W12", "a merged object can be written as it is: ", keep=lambda ob: ob.rule == "M10",
                               what="placement of group-less keys by the merge")


def w2b_bracket_helpers(prog, ctx, rule="W2"):
    """W2 (continued): a section name counts as "already in brackets" only when it starts with '[' AND ends with ']': addbrackets() hands
    such a name back as it is and wraps every other, stripbrackets() unwraps only such a name.  With `||` a name like `array[0]` is
    written without its header brackets - as a key line - and the section is gone when the file is read back."""
    def shape(e, neg=False):
        """('and'|'or', negated?) of the test that combines the '[' and the ']' comparison, None if it is not such a test"""
        e0 = e.strip()
        if e0.k == "UnaryOperator" and e0.j.get("op") == "!":
            return shape(e0.children[0], not neg)
        if e0.k == "BinaryOperator" and e0.j.get("op") in ("&&", "||"):
            sides = [e0.children[0].strip(), e0.children[1].strip()]
            inner_neg = [x.k == "UnaryOperator" and x.j.get("op") == "!" for x in sides] + ["!=" in render(x) for x in sides]
            t = render(e0)
            if "'['" in t and "']'" in t:
                all_neg = all(("!=" in render(x)) or (x.k == "UnaryOperator" and x.j.get("op") == "!") for x in sides)
                op = "and" if e0.j["op"] == "&&" else "or"
                if all_neg:            # !A || !B  ==  !(A && B)
                    op = "or" if op == "and" else "and"
                    neg = not neg
                return (op, neg, None if (all_neg and any(x.k == "UnaryOperator" and x.j.get("op") == "!" for x in sides)) else all_neg)
        return None
    for fname in ("addbrackets", "stripbrackets"):
        if not prog.has_fn(fname):
            ctx.inconclusive(rule, "%s: bracketed means '[' first and ']' last" % fname, "", "anchor vanished")
            continue
        f = prog.fn(fname)
        ctx.touch(f)
        shapes = [(x, shape(x.child("cond"))) for x in f.walk() if x.k in ("IfStmt", "WhileStmt", "ConditionalOperator") and x.child("cond") is not None]
        shapes = [(x, sh) for x, sh in shapes if sh is not None]
        if len(shapes) != 1:
            ctx.inconclusive(rule, "%s: bracketed means '[' first and ']' last" % fname, f.where, "%d tests that combine the two bracket comparisons" % len(shapes))
            continue
        x, (op, neg, by_ne) = shapes[0]
        # the two comparisons themselves: the FIRST character with '[', the LAST one (index strlen - 1) with ']', each by equality
        wrong = None
        pname = f.params[0]["name"]
        for cmpn in [y for y in x.child("cond").walk() if y.k == "BinaryOperator" and y.j.get("op") in ("==", "!=")]:
            a9, b9 = cmpn.children[0].strip(), cmpn.children[1].strip()
            ch = b9.const_value() if a9.const_value() is None else a9.const_value()
            side = a9 if a9.const_value() is None else b9
            if ch not in (ord("["), ord("]")):
                continue
            if by_ne is not None and cmpn.j["op"] != ("!=" if by_ne else "=="):
                wrong = wrong or (cmpn, "compared with `%s`" % cmpn.j["op"])
            st9 = render(side)
            if ch == ord("["):
                if st9 not in ("*" + pname, pname + "[0]"):
                    wrong = wrong or (cmpn, "'[' is looked for at `%s`, not at the first character" % st9)
            else:
                ixn = side.children[1] if side.k == "ArraySubscriptExpr" else None
                it = render(ixn) if ixn is not None else ""
                if ixn is not None and ixn.strip().k == "DeclRefExpr":
                    ds9 = [r9 for l9, r9, s9 in f.assignments() if (l9["name"] if isinstance(l9, dict) else render(l9)) == it and r9 is not None]
                    if len(ds9) == 1:
                        it = render(ds9[0])
                elif ixn is not None:
                    for l9, r9, s9 in f.assignments():
                        nm9 = l9["name"] if isinstance(l9, dict) else render(l9)
                        if r9 is not None and re.search(r"(?<![\w$.])%s(?![\w$.])" % re.escape(nm9), it) and len([1 for l8, r8, s8 in f.assignments() if (l8["name"] if isinstance(l8, dict) else render(l8)) == nm9]) == 1:
                            it = re.sub(r"(?<![\w$.])%s(?![\w$.])" % re.escape(nm9), "(" + render(r9) + ")", it)
                itn = it.replace("(", "").replace(")", "").replace(" ", "")
                if itn != "strlen%s-1" % pname:
                    wrong = wrong or (cmpn, "']' is looked for at index `%s`, not at the last character (strlen - 1)" % it)
        chars = set(y.const_value() for y in x.child("cond").walk() if y.k == "CharacterLiteral")
        if not {ord("["), ord("]")} <= chars:
            wrong = wrong or (x.child("cond"), "the test does not compare with both '[' and ']'")
        if wrong is not None and op == "and":
            ctx.fail(rule, "%s: bracketed means '[' first and ']' last" % fname, wrong[0].where,
                     "`%s`: %s" % (render(x.child("cond"))[:60], wrong[1]), key="bracket-test:%s" % fname)
        elif op == "and":
            ctx.ok(rule, "%s: bracketed means '[' first and ']' last" % fname, x.where, "`%s`" % render(x.child("cond"))[:70])
        else:
            ctx.fail(rule, "%s: bracketed means '[' first and ']' last" % fname, x.where,
                     "`%s`: a name with only one of the two brackets is treated as bracketed - `array[0]` / `[legacy` are %s" % (
                         render(x.child("cond"))[:60], "written as a key line instead of a section header" if fname == "addbrackets" else "cut at a bracket that is not there"),
                     key="bracket-test:%s" % fname)


def run(prog, ctx):
    w2b_bracket_helpers(prog, ctx)
    w8_w9(prog, ctx)
    w11_queries_leave_the_text(prog, ctx)
    w12_merged_objects_are_writable(prog, ctx)
    f = prog.fn(W)
    ctx.touch(f)
    cfg = f.cfg
    obj = f.params[0]["name"]
    lp = [x for x in f.walk() if x.k == "ForStmt" and not any(a.k in ("ForStmt", "WhileStmt") for a in x.ancestors())]
    if len(lp) != 1:
        raise Inconclusive("writer: entry loop not recognised")
    lp = lp[0]
    sh = loops.for_shape(lp)
    if loops.covers_range(sh, 0, "%s->length" % obj):
        ctx.ok("W1", "entries are written front to back", lp.where, sh.describe())
    elif sh.ok:
        ctx.fail("W1", "entries are written front to back", lp.where, "loop is %s" % sh.describe(), key="order")
        return
    else:
        ctx.inconclusive("W1", "entries are written front to back", lp.where, sh.describe())
        return
    i = sh.var
    ent = "%s->file_entry[%s]" % (obj, i)
    prints = [c for c in f.calls("fprintf") if c.within(lp)]
    stream = render(prints[0].call_args()[0]) if prints else None

    def args_of(c):
        return [render(a) for a in c.call_args()[2:]]

    def fmt_of(c):
        return c.call_args()[1].string_value()
    # ---- key / delimiter ------------------------------------------------------------------------------
    keyp = [c for c in prints if "%s.key" % ent in args_of(c)]
    if len(keyp) != 1:
        ctx.fail("W5", "the key is written", lp.where, "%d fprintf calls print the key" % len(keyp), key="key-print")
        return
    kp = keyp[0]
    hb = cfg.loop_header(lp)
    body_entry = cfg.loop_body_entry(lp)
    kb = cfg.block_of(kp)
    backs = [b for (b, ii, s) in cfg.back_edges() if s == hb]
    skip = cfg.reachable(body_entry, avoid_blocks=[kb, hb])
    incb = set(cfg.block_of(x) for x in (lp.child("inc").walk() if lp.child("inc") is not None else []))
    if any(b in skip for b in incb) :
        ctx.fail("W5", "the key of every entry is written", kp.where, "an iteration can end without printing the key", key="key-skipped")
    else:
        ctx.ok("W5", "the key of every entry is written", kp.where, "every way round the loop passes fprintf(%s)" % ", ".join(args_of(kp)))
    if "%s->delimiter" % obj in args_of(kp) and "%c" in (fmt_of(kp) or ""):
        ctx.ok("W3", "the delimiter written is the object's delimiter tag", kp.where, "fprintf(\"%s\", ..., %s->delimiter)" % (fmt_of(kp), obj))
    else:
        ctx.fail("W3", "the delimiter written is the object's delimiter tag", kp.where,
                 "key printed with format %r and arguments %s: a fixed delimiter is written whatever tag the object carries" % (fmt_of(kp), args_of(kp)), key="delimiter-source")
    # ---- value / quotes ------------------------------------------------------------------------------------
    valp = [c for c in prints if "%s.value" % ent in args_of(c)]
    if not valp:
        ctx.fail("W5", "the value is written", kp.where, "no fprintf prints the value", key="value-print")
    else:
        quoted = [c for c in valp if (fmt_of(c) or "").startswith('"') and (fmt_of(c) or "").rstrip("\n").endswith('"')]
        plain = [c for c in valp if c not in quoted]
        # every path from the key with value != NULL reaches one of them
        vblocks = set(cfg.block_of(c) for c in valp)
        nn = [(b, ii) for (b, ii, s) in cfg.edges() if cfg.edge_lit(b, ii) is not None and cfg.edge_lit(b, ii).atom == "%s.value" % ent and cfg.edge_lit(b, ii).pol
              and kb in cfg.reachable(b, forward=False)]
        missed = False
        for (b, ii) in nn:
            t = cfg.blocks[b].succs[ii]
            reach = cfg.reachable(t, avoid_blocks=list(vblocks) + [hb])
            if any(x in reach for x in incb):
                missed = True
        others = [cfg.edge_lit(b, ii) for (b, ii, s) in cfg.edges() if cfg.edge_lit(b, ii) is not None and any(cfg.block_of(c) == s for c in valp)
                  and cfg.edge_lit(b, ii).atom not in ("%s.value" % ent, "%s.quotes" % ent)]
        if nn and not missed and not others:
            ctx.ok("W5", "the value is written whenever there is one", valp[0].where, "behind `%s.value != NULL` only" % ent)
        else:
            ctx.fail("W5", "the value is written whenever there is one", valp[0].where,
                     "the value is %s" % ("skipped on some path with a non-NULL value" if missed or not nn else "printed only under an extra condition (%s): e.g. empty values are dropped" % others[0]),
                     key="value-cond")
        if quoted:
            q = quoted[0]
            okq, cut = cfg.all_paths_cut(cfg.block_of(q), lambda lit, b, ii: lit is not None and lit.atom == "%s.quotes" % ent and lit.pol)
            # and with quotes set the plain form is not used
            bad_plain = False
            for c in plain:
                okp, cutp = cfg.all_paths_cut(cfg.block_of(c), lambda lit, b, ii: lit is not None and lit.atom == "%s.quotes" % ent and not lit.pol)
                if not (okp and cutp):
                    bad_plain = True
            if okq and cut and not bad_plain:
                ctx.ok("W4", "a value read in quotes is written in quotes", q.where, "\\\"%s\\\" exactly when .quotes is set")
            else:
                ctx.fail("W4", "a value read in quotes is written in quotes", q.where, "the quoted form is not tied to the entry's quotes flag", key="quotes-cond")
        else:
            ctx.fail("W4", "a value read in quotes is written in quotes", valp[0].where,
                     "the writer never emits the quoted form: a value with outer blanks or a comment character does not survive", key="quotes-never")
    # ---- header -----------------------------------------------------------------------------------------------
    ab = [c for c in f.calls("addbrackets") if c.within(lp)]
    hp = None
    for c in prints:
        for a in c.call_args()[2:]:
            s = a.strip()
            if s.k == "DeclRefExpr" and s.j.get("dk") == "local":
                for lhs, rhs, st in f.assignments():
                    nm = lhs["name"] if isinstance(lhs, dict) else render(lhs)
                    if nm == s.j["name"] and rhs.strip().k == "CallExpr" and rhs.strip().j.get("callee") == "addbrackets":
                        hp = (c, rhs.strip())
            elif s.k == "CallExpr" and s.j.get("callee") == "addbrackets":
                hp = (c, s)
    if hp is None:
        ctx.fail("W2", "section headers are written", lp.where, "no fprintf of addbrackets(group)", key="header-missing")
    else:
        hc, abc = hp
        src = render(abc.call_args()[0])
        if src == "%s.group" % ent:
            ctx.ok("W2", "the header names the section of the entry being written", hc.where, "addbrackets(%s)" % src)
        else:
            ctx.fail("W2", "the header names the section of the entry being written", hc.where, "header built from %s" % src, key="header-source")
        hblk = cfg.block_of(hc)
        if not cfg.dominates(hblk, kb) and kb in cfg.reachable(hblk, avoid_blocks=[hb]):
            pass
        # condition: for every edge 'first entry or section differs from the previous' followed by 'not the group-less marker' the header is unavoidable
        changed_edges = []
        for (b, ii, s) in cfg.edges():
            lit = cfg.edge_lit(b, ii)
            if lit is None or not cfg.blocks[b].cond.within(lp):
                continue
            if (lit.atom == i and not lit.pol) or (lit.node.k == "CallExpr" and lit.node.j.get("callee") == "strcmp" and lit.pol
                                                   and "%s->file_entry[%s - 1].group" % (obj, i) in [render(a) for a in lit.node.call_args()]):
                changed_edges.append((b, ii, s))
        named_edges = []
        for (b, ii, s) in cfg.edges():
            lit = cfg.edge_lit(b, ii)
            if lit is not None and lit.node.k == "CallExpr" and lit.node.j.get("callee") == "strcmp" and lit.pol and \
                    any(a.string_value() == MARKER for a in lit.node.call_args()) and "%s.group" % ent in [render(a) for a in lit.node.call_args()]:
                named_edges.append((b, ii, s))
        has_first = any(cfg.edge_lit(b, ii).atom == i for (b, ii, s) in changed_edges)
        has_prev = any(cfg.edge_lit(b, ii).node.k == "CallExpr" for (b, ii, s) in changed_edges)
        if changed_edges and not (has_first and has_prev):
            ctx.fail("W2", "a header precedes the first key of every run of a named section", hc.where,
                     "the header is written %s" % ("only for the first entry: later sections get no header and their keys are read back as members of the first"
                                                   if not has_prev else "without the `first entry` case"), key="header-cond")
        elif not changed_edges or not named_edges:
            ctx.fail("W2", "a header precedes the first key of every run of a named section", hc.where,
                     "the writer does not test %s" % ("whether the section changed" if not changed_edges else "for the group-less marker"), key="header-cond")
        else:
            ok = True
            for (b, ii, s) in named_edges:
                if not any(b in cfg.reachable(s2, avoid_blocks=[hb]) | {s2} for (_, _, s2) in changed_edges):
                    ok = False      # marker test not behind the change test
                if kb in cfg.reachable(s, avoid_blocks=[hblk, hb]):
                    ok = False      # header avoidable
            # and on the change edge, the marker test itself is unavoidable
            nb = set(b for (b, ii, s) in named_edges)
            for (b, ii, s) in changed_edges:
                if kb in cfg.reachable(s, avoid_blocks=list(nb) + [hb]):
                    ok = False
            if ok:
                ctx.ok("W2", "a header precedes the first key of every run of a named section", hc.where,
                       "on (first entry or section != previous) and section != marker the header print is unavoidable before the key")
            else:
                ctx.fail("W2", "a header precedes the first key of every run of a named section", hc.where,
                         "a path with a new named section reaches the key without printing its header", key="header-cond")
    # ---- comments -----------------------------------------------------------------------------------------------------
    for fld, where_ in (("comment_before_key", "before"), ("comment_after_value", "after")):
        uses = [x for x in f.walk() if x.k == "MemberExpr" and x.j.get("member") == fld and x.within(lp)]
        # the per-line variable: a local that receives the result of strsep()/strtok_r()
        line_vars = set()
        for lhs2, rhs2, st2 in f.assignments():
            r2 = rhs2.strip()
            if r2.k == "CallExpr" and r2.j.get("callee") in ("strsep", "strtok_r"):
                line_vars.add(lhs2["name"] if isinstance(lhs2, dict) else render(lhs2))
        cp = [c for c in prints if set(args_of(c)) & line_vars and "%s->comment" % obj in args_of(c)]
        mine = []
        for c in cp:
            ok, cut = cfg.all_paths_cut(cfg.block_of(c), lambda lit, b, ii: lit is not None and lit.atom == "%s.%s" % (ent, fld) and lit.pol)
            if ok and cut:
                mine.append(c)
        if not uses or not mine:
            # another shape of the same thing: the text is written piece by piece (fputs / fwrite / fputc) inside a loop that looks for
            # the line breaks, and the object's comment tag is written in that loop as well
            from sa.dataflow import ReachingDefs as _RD6, origins as _orig6
            OUT = ("fprintf", "fputs", "fputc", "fwrite", "putc", "fputs_unlocked", "fwrite_unlocked")
            rd6 = _RD6(f)
            outs = [c6 for c6 in f.calls(OUT) if c6.within(lp)]
            def from_field(c6):
                for a6 in c6.call_args():
                    if not (a6.j.get("ct") or "").endswith("*"):
                        continue
                    for o6 in _orig6(rd6, a6, c6, passthrough={"strdup": 0, "strsep": 0, "strchr": 0, "strtok_r": 0, "memchr": 0}):
                        n6 = o6[1] if isinstance(o6, tuple) and o6[0] == "expr" else (o6 if not isinstance(o6, tuple) else None)
                        if n6 is not None and any(x6.k == "MemberExpr" and x6.j.get("member") == fld for x6 in n6.walk()):
                            return True
                return False
            text_outs = [c6 for c6 in outs if from_field(c6)]
            if not uses or not text_outs:
                ctx.fail("W6", "the comment %s the entry is written" % where_, lp.where,
                         "no output statement is tied to %s (prefix from the object's comment tag, per physical line)" % fld, key="comment:%s" % fld)
                continue
            c6 = text_outs[0]
            lloops = [a6 for a6 in c6.ancestors() if a6.k in ("WhileStmt", "ForStmt", "DoStmt") and a6 is not lp and a6.within(lp)]
            def seeks_newline(lp6):
                for x6 in lp6.walk():
                    if x6.k == "CallExpr" and x6.j.get("callee") in ("strchr", "strsep", "strtok_r", "memchr", "strcspn", "strpbrk"):
                        if any(a7.const_value() == 10 or a7.string_value() == "\n" for a7 in x6.call_args()[1:]):
                            return True
                return False
            lines = [l6 for l6 in lloops if seeks_newline(l6)]
            tag_outs = [o6 for o6 in outs if lines and o6.within(lines[0]) and any(render(a6).endswith("->comment") or render(a6).endswith(".comment") for a6 in o6.call_args())]
            okg6, cutg6 = cfg.all_paths_cut(cfg.block_of(c6), lambda lit, b, ii: lit is not None and lit.pol and lit.atom.endswith(fld))
            pos6 = (where_ == "before" and kb in cfg.reachable(cfg.block_of(c6), avoid_blocks=[hb])) or (where_ == "after" and cfg.block_of(c6) in cfg.reachable(kb, avoid_blocks=[hb]))
            if lines and tag_outs and okg6 and cutg6 and pos6:
                ctx.ok("W6", "the comment %s the entry is written" % where_, c6.where,
                       "written line by line in the loop at line %d, the comment tag in front of every line, %s the key" % (lines[0].line, where_))
            elif not lloops:
                ctx.fail("W6", "the comment %s the entry is written" % where_, c6.where, "only the first physical line gets the comment prefix", key="comment:%s" % fld)
            elif not pos6:
                ctx.fail("W6", "the comment %s the entry is written" % where_, c6.where, "written on the wrong side of the key", key="comment:%s" % fld)
            else:
                ctx.inconclusive("W6", "the comment %s the entry is written" % where_, c6.where, "the text is written in a loop whose line splitting / tag output is not understood")
            continue
        c = mine[0]
        inloop = any(a.k == "WhileStmt" and any(x.k == "CallExpr" and x.j.get("callee") in ("strsep", "strtok_r") for x in a.child("cond").walk()) for a in c.ancestors())
        order_ok = cfg.node_dominates(c, kp) if where_ == "before" else cfg.block_of(c) in cfg.reachable(kb, avoid_blocks=[hb])
        pos_ok = (where_ == "before" and kb in cfg.reachable(cfg.block_of(c), avoid_blocks=[hb])) or (where_ == "after" and cfg.block_of(c) in cfg.reachable(kb, avoid_blocks=[hb]))
        if inloop and pos_ok:
            ctx.ok("W6", "the comment %s the entry is written" % where_, c.where, "one `%%c%%s` line per physical comment line, prefix %s->comment, %s the key" % (obj, where_))
        else:
            ctx.fail("W6", "the comment %s the entry is written" % where_, c.where,
                     "%s" % ("only the first physical line gets the comment prefix" if not inloop else "written on the wrong side of the key"), key="comment:%s" % fld)
    # ---- W7 coverage ------------------------------------------------------------------------------------------------------
    # textual = the strings, and the flag that decides about quotes; counters and caches derived from them are not written
    fields = [x["name"] for x in prog.record("file_entry")["fields"] if x.get("ct") in ("char *", "const char *") or x["name"] == "quotes"]
    read = set(x.j["member"] for x in f.walk() if x.k == "MemberExpr" and x.j.get("rec") == "file_entry")
    missing = [x for x in fields if x not in read]
    if missing:
        ctx.fail("W7", "the writer reads every textual field of an entry", f.where, "never read: %s" % missing, key="coverage")
    else:
        ctx.ok("W7", "the writer reads every textual field of an entry", f.where, ", ".join(fields))
    # ---- reader side of W3 / W4 -------------------------------------------------------------------------------------------------
    rf = prog.fn("read_file")
    gate = prog.fn("read_file_with_callback")
    ctx.touch(rf, gate)
    ds = [st for lhs, rhs, st, kind in query.stores(rf) if render(lhs) == "ef->delimiter"]
    if ds and render(ds[0].children[1]) in ("*delim", "delim[0]"):
        ctx.ok("W3", "the reader records the first delimiter as the object's tag", ds[0].where, render(ds[0]))
    else:
        ctx.fail("W3", "the reader records the first delimiter as the object's tag", (ds[0] if ds else rf).where, "stores %s" % [render(s) for s in ds], key="reader-delimiter")
    cs = [st for lhs, rhs, st, kind in query.stores(gate) if render(lhs) == "(*key_file)->comment"]
    vals = sorted(("'#'" if (s.children[1].const_value() == ord("#") or render(s.children[1]) == '"#"[0]') else render(s.children[1])) for s in cs)
    reb = [st for lhs, rhs, st, kind in query.stores(gate) if render(lhs) == "comment" and rhs is not None and rhs.string_value() == "#"]
    reb_ok = False
    for st in reb:
        okr, cutr = gate.cfg.all_paths_cut(gate.cfg.block_of(st), lambda lit, b, i: lit is not None and lit.atom in ("*comment", "comment[0]") and not lit.pol)
        reb_ok = reb_ok or (okr and bool(cutr))
    if vals in (["'#'", "comment[0]"], ["'#'", "*comment"]) or (vals in (["comment[0]"], ["*comment"]) and reb_ok and
                                                                all(gate.cfg.node_dominates(reb[0], c2) or True for c2 in cs)):
        ctx.ok("W3", "the reader records the first comment character as the object's tag", cs[0].where, " / ".join(vals))
    else:
        ctx.fail("W3", "the reader records the first comment character as the object's tag", (cs[0] if cs else gate).where, "stores %s" % vals, key="reader-comment")
    # ... on EVERY read: the tag store is not skipped for an object that already carries one (the object may have been created
    # with defaults, or be reused)
    from rules import common as _common
    pc = gate.calls(_common.PARSER)
    if cs and len(pc) == 1:
        gcfg = gate.cfg
        blocks = set(gcfg.block_of(x) for x in cs)
        succ = {(b, i): s2 for (b, i, s2) in gcfg.edges()}
        okm, cutm = gcfg.all_paths_cut(gcfg.block_of(pc[0]), lambda lit, b, i: succ.get((b, i)) in blocks or b in blocks)
        if okm and cutm:
            ctx.ok("W3", "every read records its comment character", cs[0].where, "no path to %s() skips the store" % _common.PARSER)
        else:
            ctx.fail("W3", "every read records its comment character", cs[0].where,
                     "the store of the comment tag is conditional: an object that already carries a tag keeps it although the file is parsed with another "
                     "comment character - written back, its comments get the wrong prefix and do not read back as comments", key="reader-comment-conditional")
    if ds:
        rcfg = rf.cfg
        L0 = parser.landmarks(prog)
        blocks = set(rcfg.block_of(x) for x in ds)
        succ = {(b, i): s2 for (b, i, s2) in rcfg.edges()}
        okm, cutm = rcfg.all_paths_cut(L0.header, lambda lit, b, i: succ.get((b, i)) in blocks or b in blocks)
        if okm and cutm:
            ctx.ok("W3", "every read records its delimiter", ds[0].where, "no path to the line loop skips the store")
        else:
            ctx.fail("W3", "every read records its delimiter", ds[0].where, "the store of the delimiter tag is conditional: an object that already carries a "
                     "tag is written back with a delimiter the file was not read with", key="reader-delimiter-conditional")
    # an object built by hand is written with the tags its creator (or the tag setters) named - any character, a blank included
    for fname in ("econf_newKeyFile", "econf_set_delimiter_tag", "econf_set_comment_tag"):
        if not prog.has_fn(fname):
            ctx.inconclusive("W3", "%s records the tag it is given" % fname, "", "anchor vanished: %s" % fname)
            continue
        nf = prog.fn(fname)
        ctx.touch(nf)
        for tag in ("delimiter", "comment"):
            if tag not in nf.param_names():
                continue
            srcs9 = _tag_sources(prog, nf, tag)
            ts = [st for st, src in srcs9]
            okt = [st for st, src in srcs9 if src.strip().k == "DeclRefExpr" and src.strip().j.get("name") == tag]
            if ts and len(okt) == len(ts):
                ctx.ok("W3", "%s records the %s tag it is given" % (fname, tag), ts[0].where, render(ts[0]))
            elif ts:
                badt = [st for st in ts if st not in okt][0]
                ctx.fail("W3", "%s records the %s tag it is given" % (fname, tag), badt.where,
                         "`%s`: the tag is replaced for some characters (a blank is a legitimate delimiter: `key value` files) - what is written with the "
                         "substitute does not read back with the delimiter the caller works with" % render(badt)[:90], key="creator-tag:%s:%s" % (fname, tag))
            else:
                ctx.fail("W3", "%s records the %s tag it is given" % (fname, tag), nf.where, "the tag is not stored", key="creator-tag:%s:%s" % (fname, tag))
    m = prog.fn("econf_mergeFiles")
    base = m.params[1]["name"]
    for tag in ("delimiter", "comment"):
        msrc = _tag_sources(prog, m, tag)
        ms = [st for st, src in msrc]
        if msrc and all(render(src) == "%s->%s" % (base, tag) for st, src in msrc):
            ctx.ok("W3", "a merged object inherits the base's %s tag" % tag, ms[0].where, render(ms[0])[:80])
        else:
            ctx.fail("W3", "a merged object inherits the base's %s tag" % tag, (ms[0] if ms else m).where, "stores %s" % [render(src) for st, src in msrc], key="merge-tag:%s" % tag)
    L = parser.landmarks(prog)
    parser.delimiter_membership_rule(prog, ctx, "W10", L)
    st_fn = L.store_fn
    qs = [s for lhs, rhs, s, kind in query.stores(st_fn) if (lhs.strip().k == "MemberExpr" and lhs.strip().j.get("member") == "quotes" and lhs.strip().j.get("rec") == "file_entry") and not query.is_slot_init(s)]
    if qs and all(render(s.children[1]) == "quotes" for s in qs):
        ctx.ok("W4", "store() keeps the quotes flag it is given", qs[0].where, render(qs[0]))
    else:
        ctx.fail("W4", "store() keeps the quotes flag it is given", st_fn.where, "stores %s" % [render(s) for s in qs], key="store-quotes")
    # the flag is only ever raised, and only when the value starts with a quote
    qdefs = [(lhs, rhs, st) for lhs, rhs, st in L.fn.assignments() if (lhs["name"] if isinstance(lhs, dict) else render(lhs)) == "quote_seen"]
    badq = None
    for lhs, rhs, st in qdefs:
        cv = rhs.const_value()
        if isinstance(lhs, dict):
            if cv != 0:
                badq = (st, "starts as %s" % render(rhs))
        elif cv == 1:
            okq, cutq = L.cfg.all_paths_cut(L.cfg.block_of(st), lambda lit, b, i: lit is not None and lit.kind == "eq" and lit.pol and ord('"') in (lit.lhs.const_value(), lit.rhs.const_value()),
                                            start=L.header)
            if not (okq and cutq):
                badq = (st, "raised without a quote test")
        elif cv == 0 and not any(L.cfg.block_of(st) in L.cfg.reachable(L.cfg.block_of(s1), avoid_blocks=[L.header])
                                 and not (L.cfg.block_of(st) == L.cfg.block_of(s1) and L.cfg.index_of(st)[1] < L.cfg.index_of(s1)[1])
                                 for l1, r1, s1 in qdefs if not isinstance(l1, dict) and r1.const_value() == 1):
            pass        # the reset at the start of a line's work: no raise of the same line comes before it
        else:
            badq = (st, "`%s`: the flag is withdrawn for some quoted values, which are then written without quotes (a value containing the comment "
                        "character or outer blanks does not survive)" % render(st))
    if qdefs and badq is None:
        ctx.ok("W4", "the quotes flag reflects the opening quote of the value", qdefs[-1][2].where, "false at the start of each line, true exactly behind `*data == '\"'`")
    elif badq:
        ctx.fail("W4", "the quotes flag reflects the opening quote of the value", badq[0].where, badq[1], key="quote-flag-defs")
    qa = set(render(c.call_args()[L.idx["quotes"]]) for c in L.store_calls if render(c.call_args()[L.idx["append_entry"]]) in ("0", "false"))
    if "quote_seen" in qa and qa <= {"quote_seen", "0", "false"}:
        ctx.ok("W4", "the parser passes what it saw on that line", L.store_calls[-1].where, "quotes argument of the new-entry calls: %s" % sorted(qa))
    else:
        ctx.fail("W4", "the parser passes what it saw on that line", L.store_calls[-1].where, "quotes arguments %s" % sorted(qa), key="parser-quotes")
