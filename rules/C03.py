"""C03 - merging two configurations is a complete, ordered, non-destructive override.

M1 both inputs unchanged (Mod = empty)        M2 the result shares no memory with the inputs (fresh copies; group names in the result's own list)
M3 cpy_file_entry copies every field          M4 every write to the output array stays inside it (charging argument)
M5 no index E-k with unsigned E unless E >= k is established        M6 on a key match the override's value wins
M7 a key defined on both sides is not inserted a second time (exactly one visible value per key)
M8 the scan for an existing key covers the whole result   M9 every merge helper runs for every pair   M10 group-less override-only keys go first
M14 the loops over the inputs run for every pair of non-NULL inputs   M12 base entries are copied front to back   M13 the section listing filters the group-less marker wherever it stands (= C11.A7)
M11 an override-only entry is inserted behind the last entry of its section; entries of a new section at the end"""
import re

from sa.ast import render
from sa.facts import Inconclusive
from sa import query, loops
from sa.mod import ModAnalysis, path_depth
from rules.C10 import indirect_table

META = {
    "level": "other",
    "technique": "static analysis: effect (mod) analysis of the merge entry point, freshness of every pointer stored into the result, "
                 "syntactic charging argument for the output-array bound, guarded-index rule",
    "level_text": "Decides non-destructive (both inputs unchanged, result shares no memory with them) and bounded (every write to the output "
                  "array is charged to one iteration of a loop over one input, so at most base.length + override.length writes happen - the "
                  "array's capacity), override-wins and no-duplicate-insertion for all pairs of configurations including empty bases "
                  "and re-opened sections. Not decided: completeness and relative order of the merged result.",
    "level_note": "Partial. M4 proves the bound when it passes; it is deliberately syntactic - a merge whose bound needs value reasoning "
                  "is INCONCLUSIVE, not a pass. Trusted: clang front end/CFG, sa/mod.py.",
    "explanation": "Mod(merge, inputs) = empty; fresh copies; charging argument for the output array; guarded E-k indices",
    "trusted_base": ["clang-14 front end and CFG", "sa/mod.py", "sa/loops.py"],
    "assumptions": ["no allocation failure"],
}

MERGE = "econf_mergeFiles"
MARKER = "_none_"


def helpers_of_merge(prog):
    m = prog.fn(MERGE)
    out = []
    for c in m.calls():
        n = c.j.get("callee")
        if n and prog.has_fn(n) and any(render(a) in ("&fe",) for a in c.call_args()):
            out.append((prog.fn(n), c))
    return m, out


def input_role(m, call, helper, pname):
    """which input of econf_mergeFiles (base = 2nd parameter, override = 3rd) the helper's parameter receives"""
    idx = helper.param_names().index(pname)
    a = call.call_args()[idx].strip()
    if a.k == "DeclRefExpr" and a.j.get("dk") == "param":
        pi = m.param_names().index(a.j["name"])
        return {1: "base", 2: "override"}.get(pi)
    return None


def leaf_defs(h, v, depth=0, seen=None):
    """definitions (lhs, rhs, stmt) of local v, following plain copies  v = w  to the definitions of w (an insertion position
    computed in a helper's local and handed back through an out-parameter is still `k + 1` / 0 / the counter)"""
    seen = seen if seen is not None else set()
    if v in seen or depth > 3:
        return []
    seen = seen | {v}
    out = []
    for lhs2, rhs2, st2 in h.assignments():
        if (lhs2["name"] if isinstance(lhs2, dict) else render(lhs2)) != v:
            continue
        r = rhs2.strip()
        stepped = r.k == "DeclRefExpr" and any(k2 in ("++", "op=") and render(l3) == render(r) for l3, r3, s3, k2 in query.stores(h))
        if r.k == "DeclRefExpr" and r.j.get("dk") == "local" and r.j.get("name") != v and not stepped:
            sub = leaf_defs(h, r.j["name"], depth + 1, seen)
            if sub:
                out += sub
                continue
        out.append((lhs2, rhs2, st2))
    return out


def m0_result_is_fresh(prog, ctx, rule="M0"):
    """M0: the merged object is a new one: `*merged_file` receives a fresh allocation (or NULL), never one of the two inputs - the
    callers release or keep using their inputs independently of the result (merge_econf_files() frees each parsed drop-in right after
    merging it)."""
    m = prog.fn(MERGE)
    ctx.touch(m)
    out = m.params[0]["name"]
    ins = [m.params[1]["name"], m.params[2]["name"]]
    sts = [(st, rhs) for lhs, rhs, st, kind in query.stores(m) if kind == "=" and render(lhs) == "*" + out and rhs is not None]
    if not sts:
        ctx.inconclusive(rule, "the merge result is a new object", m.where, "no store to *%s" % out)
        return
    for st, rhs in sts:
        r = rhs.strip()
        if rhs.is_null_const():
            continue
        srcs = [r]
        if r.k == "DeclRefExpr" and r.j.get("dk") == "local":
            srcs = [d for l9, d, s9 in m.assignments() if (l9["name"] if isinstance(l9, dict) else (l9.strip().j.get("name") if l9.strip().k == "DeclRefExpr" else render(l9)))
                    == r.j["name"] and d is not None and not d.is_null_const()]
            if not srcs:
                continue            # only ever NULL
        def is_input(x):
            x0 = x.strip()
            while x0.k == "UnaryOperator" and x0.j.get("op") in ("&", "*") and x0.children:
                x0 = x0.children[0].strip()
            return x0.k == "DeclRefExpr" and x0.j.get("name") in ins
        bad = [x for x in srcs if is_input(x)]
        ma9 = ModAnalysis(prog, indirect_targets=indirect_table(prog))
        fresh = [x for x in srcs if (x.strip().k == "CallExpr" and x.strip().j.get("callee") in ("calloc", "malloc")) or ma9.is_fresh_expr(m, x.strip(), at=st)[0]]
        if bad:
            ctx.fail(rule, "the merge result is a new object", st.where,
                     "`%s`: one of the inputs is handed out as the result - the caller of the layered read frees that input right after the merge "
                     "(on_merge_delete), every later getter on the result reads freed memory" % render(st)[:70], key="result-is-input")
        elif fresh and len(fresh) == len(srcs):
            ctx.ok(rule, "the merge result is a new object", st.where, render(st)[:70])
        else:
            ctx.inconclusive(rule, "the merge result is a new object", st.where, "source of `%s` not understood" % render(rhs)[:50])


def m16_copy_is_complete(prog, ctx, rule="M16"):
    """M16: "nothing is lost": the copy of an entry (cpy_file_entry) takes every text field from the SAME field of its source - group through the
    destination's group list, key, value and both comments as copies (a missing value / comment stays missing)."""
    if not prog.has_fn("cpy_file_entry"):
        ctx.inconclusive(rule, "cpy_file_entry copies every field from its namesake", "", "anchor vanished")
        return
    f = prog.fn("cpy_file_entry")
    ctx.touch(f)
    for fld in ("key", "value", "comment_before_key", "comment_after_value", "group", "line_number"):
        sts = [(st, rhs) for lhs, rhs, st, kind in query.stores(f) if kind == "=" and lhs.strip().k == "MemberExpr" and lhs.strip().j.get("member") == fld
               and lhs.strip().j.get("rec") == "file_entry" and rhs is not None]
        if not sts:
            ctx.fail(rule, "cpy_file_entry copies .%s from the source's .%s" % (fld, fld), f.where, "the field is not set", key="copy-field:%s" % fld)
            continue
        src = set()
        for st, rhs in sts:
            for x in rhs.walk():
                if x.k == "MemberExpr" and x.j.get("rec") == "file_entry":
                    src.add(x.j.get("member"))
        nonnull = [rhs for st, rhs in sts if not rhs.is_null_const()]
        if src == {fld}:
            ctx.ok(rule, "cpy_file_entry copies .%s from the source's .%s" % (fld, fld), sts[0][0].where, render(nonnull[0] if nonnull else sts[0][1])[:60])
        elif not nonnull:
            ctx.fail(rule, "cpy_file_entry copies .%s from the source's .%s" % (fld, fld), sts[0][0].where,
                     "the copy's .%s is always NULL: merged entries lose it" % fld, key="copy-field:%s" % fld)
        elif src:
            ctx.fail(rule, "cpy_file_entry copies .%s from the source's .%s" % (fld, fld), sts[0][0].where, "set from %s" % sorted(src), key="copy-field:%s" % fld)
        else:
            ctx.inconclusive(rule, "cpy_file_entry copies .%s from the source's .%s" % (fld, fld), sts[0][0].where, "set from `%s`: not followed" % render(nonnull[0])[:50])


def run(prog, ctx):
    m0_result_is_fresh(prog, ctx)
    m16_copy_is_complete(prog, ctx)
    m, helpers = helpers_of_merge(prog)
    ctx.touch(m)
    if not helpers:
        raise Inconclusive("econf_mergeFiles: no helper receives the output array")
    # ---- M13 "nothing else appears": the section listing is how the result's sections are observed, and a merged object
    # registers its sections in copy order (the group-less marker is not necessarily first).  = C11.A7.
    try:
        from sa.report import Ctx as _Ctx
        from rules import C11 as _C11
        sub = _Ctx(ctx.prop, ctx.tier, prog)
        _C11.a7(prog, sub)
        for ob in sub.obs:
            if "econf_getGroups" in ob.instance or "econf_getKeys" in ob.instance:
                ob.rule = "M13"
                ctx.obs.append(ob)
            elif "section name is looked up" in ob.instance:
                # the merge pairs sections by strcmp(); the group list its copies are entered into must use the same equality,
                # or a section spelled differently is "new" for the merge and "known" for the list
                ob.rule = "M15"
                ob.instance = "the merge and the group list agree on what the same section is: " + ob.instance
                ctx.obs.append(ob)
    except Inconclusive as e:
        ctx.inconclusive("M13", "section listing of a merged object", "", str(e))
    # ---- M15 "exactly one visible value: the override's": the merge pairs entries by equality of section and key, and the value a
    # caller then sees is the one find_key() returns - the first entry that EQUALS the names asked for (= C11.A4)
    from rules import common as _common
    _common.import_obligations(ctx, prog, [_C11.a4, _C11.a4_no_entry_passed_over], "M15", "the value seen after a merge is the first equal entry: ",
                               what="lookup of the entry")
    # ---- M1 ----------------------------------------------------------------------------------------
    ma = ModAnalysis(prog, indirect_targets=indirect_table(prog))
    s = ma.summary(MERGE)
    for i in (1, 2):
        pname = m.params[i]["name"]
        if not s.mod[i]:
            ctx.ok("M1", "Mod(%s, %s)" % (MERGE, pname), m.where, "empty: the input is not written, freed or reallocated through any helper")
        else:
            seen = set()
            for site in s.mod[i]:
                if site.key() in seen:
                    continue
                seen.add(site.key())
                ctx.fail("M1", "Mod(%s, %s)" % (MERGE, pname), site.node.where, "the merge modifies its input `%s`: %s" % (pname, site.what),
                         key="mod:%s:%s" % (pname, site.key()), path=site.describe())
    # ---- capacity ------------------------------------------------------------------------------------
    cap = None
    for c in m.calls(("malloc", "calloc")):
        t = render(c)
        if "sizeof(struct file_entry)" in t:
            cap = c
    if cap is None:
        raise Inconclusive("econf_mergeFiles: allocation of the output array not found")
    size = render(cap.call_args()[0] if cap.j["callee"] == "malloc" else cap)
    b, o = m.params[1]["name"], m.params[2]["name"]
    terms = set(re.findall(r"(\w+)->(?:alloc_)?length", size))      # alloc_length >= length: room to spare, never too little
    if terms == {b, o} and "+" in size:
        ctx.ok("M4", "capacity of the output array", cap.where, "(%s->length + %s->length) entries%s" % (b, o, " (a capacity used for a length: not less)" if "alloc_length" in size else ""))
    else:
        ctx.fail("M4", "capacity of the output array", cap.where, "allocated for `%s`: not base.length + override.length" % size, key="capacity")
    # ---- M4 charging -------------------------------------------------------------------------------------
    sites = []
    for h, call in helpers:
        ctx.touch(h)
        pn = h.param_names()
        fe = None
        for idx, a in enumerate(call.call_args()):
            if render(a) == "&fe":
                fe = pn[idx]
        for lhs, rhs, st, kind in query.stores(h):
            l = lhs.resolve()
            if l.k == "ArraySubscriptExpr" and render(l.children[0]) == "*%s" % fe and l.j.get("ct") == "struct file_entry":
                sites.append((h, call, st, l))
    charges = {"base": [], "override": []}
    for h, call, st, l in sites:
        drivers = []
        others = []
        for a in st.ancestors():
            if a.k in ("ForStmt", "WhileStmt", "DoStmt"):
                cond = render(a.child("cond")) if a.child("cond") is not None else ""
                if a.k == "ForStmt" and a.child("init") is not None:
                    cond += " ; " + " ".join(render(x) for x in a.child("init").walk() if x.k == "MemberExpr")
                mm = re.findall(r"(\w+)->length", cond)
                role = None
                for v in mm:
                    if v in h.param_names():
                        role = input_role(m, call, h, v) or role
                if role:
                    drivers.append((a, role))
                else:
                    others.append(a)
        inst = "%s: %s = ..." % (h.name, render(l))
        idx_txt = render(l.children[1])
        if not drivers:
            ctx.inconclusive("M4", inst, st.where, "store is not inside a loop over one of the inputs")
            continue
        inner, role = drivers[0]
        cfg = h.cfg
        # an inner non-driver loop (search over the output) around the store would repeat it
        if others and any(x.within(inner) for x in others):
            ctx.inconclusive("M4", inst, st.where, "store sits in an inner loop that is not a loop over an input")
            continue
        if len(drivers) >= 2:
            # nested under loops over both inputs: tolerated only when the store is followed by an exit of the inner loop
            ihb = cfg.loop_header(inner)
            sb = cfg.block_of(st)
            inl = cfg.natural_loop(ihb)
            inside = cfg.reachable(sb, avoid_blocks=[ihb] + [x.id for x in cfg.blocks.values() if x.id not in inl])
            again = any(s2 == ihb for (bb, ii, s2) in cfg.edges() if bb in inside)      # a way back to the inner loop's next round
            if again:
                ctx.fail("M4", inst, st.where,
                         "the store is nested under the loop over the %s AND the loop over the %s with no once-only exit: it can run "
                         "base.length x override.length times (a base that opens a section twice appends the same override key once per run) "
                         "and overruns the array of base.length + override.length entries" % (drivers[1][1], drivers[0][1]), key="nested-append:%s" % h.name)
                continue
        # index is a running output position
        idx = l.children[1]
        names = set(x.j["name"] for x in idx.walk() if x.k == "DeclRefExpr")
        inc_in_idx = any(x.k == "UnaryOperator" and x.j.get("op") == "++" for x in idx.walk())
        body = inner.child("body")
        inc_after = [x for x in body.walk() if x.k == "UnaryOperator" and x.j.get("op") == "++" and render(x.children[0]) in names] if body is not None else []
        if inner.k == "ForStmt" and inner.child("inc") is not None:
            inc_after += [x for x in inner.child("inc").walk() if x.k == "UnaryOperator" and x.j.get("op") == "++" and render(x.children[0]) in names]
        sh = loops.for_shape(inner) if inner.k == "ForStmt" else None
        uses_loop_var = sh is not None and sh.var in names
        insert_ok = False
        if not (inc_in_idx or inc_after or uses_loop_var) and idx.strip().k == "DeclRefExpr" and body is not None:
            # insertion idiom: (*fe)[pos] = ...; counter++  with pos <= counter on every definition of pos
            counters = [x for x in body.walk() if x.k == "UnaryOperator" and x.j.get("op") == "++" and not any(
                a2.k in ("ForStmt", "WhileStmt") and a2 is not inner and a2.within(inner) for a2 in x.ancestors())]
            if len(counters) == 1 and cfg.node_dominates(st, counters[0]):
                C = render(counters[0].children[0])
                v = idx.strip().j["name"]
                defs = [rhs2 for lhs2, rhs2, st2 in leaf_defs(h, v)]
                good = bool(defs)
                cdefs = [render(rhs2) for lhs2, rhs2, st2 in h.assignments() if (lhs2["name"] if isinstance(lhs2, dict) else render(lhs2)) == C]

                def le_counter(x):
                    # 0, the counter itself, or the value the counter started from (it only grows)
                    return x.const_value() == 0 or render(x) == C or (len(cdefs) == 1 and render(x) == cdefs[0] and x.strip().k == "DeclRefExpr" and x.strip().j.get("dk") == "param")
                for d in defs:
                    t = render(d)
                    dd = d.strip()
                    if le_counter(d):
                        continue
                    if dd.k == "ConditionalOperator" and all(le_counter(x) for x in (dd.child("then"), dd.child("else"))):
                        continue
                    mm2 = re.match(r"^([\w$.]+)(?: \+ 1)?$", t)
                    if mm2:
                        lv = []
                        for lp2 in h.walk():
                            if lp2.k in ("ForStmt", "WhileStmt"):
                                sh2 = loops.index_shape(lp2)
                                if sh2.ok and sh2.var == mm2.group(1) and sh2.cmp == "<" and (sh2.bound == C or (len(cdefs) == 1 and sh2.bound == cdefs[0])):
                                    lv.append(lp2)
                        if lv:
                            continue
                    good = False
                insert_ok = good
        if inc_in_idx or inc_after or uses_loop_var or insert_ok:
            charges[role].append((h, st, l, inner))
        else:
            ctx.inconclusive("M4", inst, st.where, "index `%s` is not recognisably the running output position" % idx_txt)
    for role, items in charges.items():
        if len(items) <= 1:
            for h, st, l, inner in items:
                ctx.ok("M4", "%s: %s = ..." % (h.name, render(l)), st.where, "at most once per entry of the %s (loop `%s`)" % (role, render(inner.child("cond"))))
            continue
        # several sites charged to the same input: complementary conditions on the same element required
        def conds(h, st, inner):
            cfg = h.cfg
            hb = cfg.loop_header(inner)
            out = set()
            sb = cfg.block_of(st)
            for (bb, ii, s2) in cfg.edges():
                lit = cfg.edge_lit(bb, ii)
                if lit is None or MARKER not in lit.atom:
                    continue
                ok, cut = cfg.all_paths_cut(sb, lambda l2, b3, i3: (b3, i3) == (bb, ii), start=hb)
                if ok:
                    out.add((re.sub(r"\[[^\]]*\]", "[#]", lit.atom), lit.pol))
            return out
        cs = [conds(h, st, inner) for (h, st, l, inner) in items]
        comp = len(items) == 2 and any((a, not p) in cs[1] for (a, p) in cs[0])
        for (h, st, l, inner) in items:
            if comp:
                ctx.ok("M4", "%s: %s = ..." % (h.name, render(l)), st.where,
                       "once per entry of the %s; shares that budget with a site under the complementary group-less test" % role)
            else:
                ctx.fail("M4", "%s: %s = ..." % (h.name, render(l)), st.where,
                         "%d store sites are charged to the %s without complementary conditions: an entry of the %s can be copied twice" % (len(items), role, role),
                         key="double-charge:%s:%s" % (role, h.name))
    # block moves inside the output array (insertion): exactly one slot to the right, exactly the tail
    for h, call in helpers:
        pn = h.param_names()
        fe = [pn[i] for i, a in enumerate(call.call_args()) if render(a) == "&fe"]
        for c in h.calls(("memmove", "memcpy")):
            a = [render(x) for x in c.call_args()]
            if not fe or "*%s" % fe[0] not in a[0]:
                continue
            md = re.match(r"^&\(\*%s\)\[(\w+) \+ 1\]$" % fe[0], a[0])
            ms = re.match(r"^&\(\*%s\)\[(\w+)\]$" % fe[0], a[1])
            mn = re.match(r"^\((\w+) - (\w+)\) \* sizeof\(struct file_entry\)$", a[2])
            inst = "%s: %s" % (h.name, render(c)[:70])
            if c.j["callee"] == "memmove" and md and ms and mn and md.group(1) == ms.group(1) == mn.group(2):
                ctx.ok("M4", inst, c.where, "shifts entries [%s, %s) one slot right: last slot written is index %s, the one the insertion then accounts for" % (
                    ms.group(1), mn.group(1), mn.group(1)))
            elif md and ms and re.match(r"^\(\((\w+) - (\w+)\) \+ 1\) \* sizeof", a[2]):
                ctx.fail("M4", inst, c.where, "the block move copies one entry too many: it writes one slot beyond the running length", key="memmove-count:%s" % h.name)
            elif c.j["callee"] == "memcpy":
                ctx.fail("M4", inst, c.where, "overlapping ranges moved with memcpy", key="memmove-overlap:%s" % h.name)
            else:
                ctx.inconclusive("M4", inst, c.where, "block move inside the output array not of the recognised insertion form")
    ctx.floor("C03 output store sites", len(sites), 1)
    # ---- M5 guarded E-k ------------------------------------------------------------------------------------
    from rules import common
    n5 = 0
    for h, call in helpers:
        n5 += common.unsigned_minus_indices(ctx, "M5", h)
    ctx.counts["M5 indices E-k"] = n5
    # ---- M7 a key both sides define is not inserted a second time ----------------------------------------------
    for h, st, l, inner in charges.get("override", []):
        cfg = h.cfg
        hb = cfg.loop_header(inner)
        eq_edges = []
        for (bb, ii, s2) in cfg.edges():
            lit = cfg.edge_lit(bb, ii)
            if lit is not None and lit.kind == "truth" and not lit.pol and lit.node.k == "CallExpr" and lit.node.j.get("callee") == "strcmp" \
                    and all(".key" in render(a2) for a2 in lit.node.call_args()) and cfg.blocks[bb].cond.within(inner):
                eq_edges.append((bb, ii, s2))
        if not eq_edges:
            ctx.inconclusive("M7", "%s: a key defined on both sides is not inserted again" % h.name, st.where, "no key comparison found in the insertion loop")
            continue
        bad = None
        for (bb, ii, s2) in eq_edges:
            wp = cfg.feasible_reach(cfg.block_of(st), lambda lit, b3, i3: cfg.blocks[b3].succs[i3] == hb, lambda a2: re.match(r"^[\w$.]+$", a2) is not None, start=s2)
            if wp is not None:
                bad = (bb, wp)
        if bad:
            ctx.fail("M7", "%s: a key defined on both sides is not inserted again" % h.name, st.where,
                     "after the key comparison found the override's key in the result, the same iteration still reaches the insertion: the key "
                     "appears twice (the base position holding the override's value, and a second copy)", key="dup-insert:%s" % h.name,
                     path=cfg.describe_path(bad[1])[-6:])
        else:
            ctx.ok("M7", "%s: a key defined on both sides is not inserted again" % h.name, st.where,
                   "from the key-equality edge the insertion is unreachable in that iteration (flag reasoning on the path)")
    # ---- M8 the duplicate/position scan looks at the whole result ------------------------------------------------
    for h, st, l, inner in charges.get("override", []):
        cfg = h.cfg
        scans = [x for x in inner.child("body").walk() if x.k in ("ForStmt", "WhileStmt") and any(
            c2.k == "CallExpr" and c2.j.get("callee") == "strcmp" and all(".key" in render(a2) for a2 in c2.call_args()) for c2 in x.walk())]
        if len(scans) != 1:
            ctx.inconclusive("M8", "%s: the scan for an existing key covers the whole result" % h.name, st.where, "%d scan loops" % len(scans))
            continue
        sc = scans[0]
        sh2 = loops.index_shape(sc)
        counters = [x for x in inner.child("body").walk() if x.k == "UnaryOperator" and x.j.get("op") == "++" and not x.within(sc)]
        C = render(counters[0].children[0]) if counters else None
        early = [x for x in sc.child("body").walk() if x.k in ("BreakStmt", "GotoStmt", "ReturnStmt")]
        bad_exit = None
        for x in early:
            # tolerated: the exit taken when the key itself was found
            okx, cutx = cfg.all_paths_cut(cfg.block_of(x), lambda lit, b3, i3: lit is not None and lit.kind == "truth" and not lit.pol and lit.node.k == "CallExpr"
                                          and lit.node.j.get("callee") == "strcmp" and all(".key" in render(a2) for a2 in lit.node.call_args()), start=cfg.loop_header(sc))
            if not (okx and cutx):
                bad_exit = x
        # a flag in the loop condition is an early exit too: it may only be switched off where the key itself was found
        for ex in getattr(sh2, "extra", []) or []:
            fl = ex
            while fl.k == "UnaryOperator" and fl.j.get("op") == "!":
                fl = fl.children[0].strip()
            if fl.k != "DeclRefExpr":
                bad_exit = bad_exit or ex
                continue
            for lhs3, rhs3, st3, kind3 in query.stores(h):
                if render(lhs3) == render(fl) and st3.within(sc):
                    okx, cutx = cfg.all_paths_cut(cfg.block_of(st3), lambda lit, b3, i3: lit is not None and lit.kind == "truth" and not lit.pol and lit.node.k == "CallExpr"
                                                  and lit.node.j.get("callee") == "strcmp" and all(".key" in render(a2) for a2 in lit.node.call_args()), start=cfg.loop_header(sc))
                    if not (okx and cutx):
                        bad_exit = st3
        if not (loops.covers_range(sh2, 0, C)):
            ctx.fail("M8", "%s: the scan for an existing key covers the whole result" % h.name, sc.where, "scan loop is %s, result length is %s" % (sh2.describe(), C),
                     key="scan-range:%s" % h.name)
        elif bad_exit is not None:
            ctx.fail("M8", "%s: the scan for an existing key covers the whole result" % h.name, bad_exit.where,
                     "the scan is left early without having found the key (e.g. at the end of the first run of the section): when the base opens that "
                     "section again later, a key defined there is not seen and is inserted a second time", key="scan-early-exit:%s" % h.name)
        else:
            ctx.ok("M8", "%s: the scan for an existing key covers the whole result" % h.name, sc.where, "%s; left early only on a key match" % sh2.describe())
        # ---- M10 group-less override-only keys go to the front --------------------------------------------------------
        idxv = l.children[1].strip()
        if idxv.k == "DeclRefExpr":
            v = idxv.j["name"]
            defs = leaf_defs(h, v)
            front = False
            for lhs2, rhs2, st2 in defs:
                r2 = rhs2.strip()
                if r2.k == "ConditionalOperator" and MARKER in render(r2.child("cond")) and "strcmp" in render(r2.child("cond")) and \
                        r2.child("else").const_value() == 0:
                    front = True
                elif rhs2.const_value() == 0 and not isinstance(lhs2, dict):
                    okf, cutf = cfg.all_paths_cut(cfg.block_of(st2), lambda lit, b3, i3: lit is not None and MARKER in lit.atom and not lit.pol and lit.node.k == "CallExpr",
                                                  start=cfg.loop_header(inner))
                    if okf and cutf:
                        front = True
            if front:
                ctx.ok("M10", "%s: group-less keys only the override has are placed first" % h.name, st.where,
                       "the insertion index is 0 when the entry's group is the group-less marker and the result has no group-less key yet")
            else:
                ctx.fail("M10", "%s: group-less keys only the override has are placed first" % h.name, st.where,
                         "no definition of `%s` sends a group-less entry to the front: it is appended behind the last section, and a written copy of the "
                         "result reads it back as a member of that section" % v, key="groupless-front:%s" % h.name)
    # ---- M12 base entries keep their relative order: the copy loop walks the base front to back -----------------------------
    for h, st, l, inner in charges.get("base", []):
        sh12 = loops.index_shape(inner)
        inst12 = "%s: base entries are copied front to back" % h.name
        if sh12.ok and sh12.step > 0 and sh12.start_node.const_value() == 0 and sh12.cmp == "<":
            ctx.ok("M12", inst12, inner.where, sh12.describe())
        elif sh12.ok and sh12.step < 0:
            ctx.fail("M12", inst12, inner.where, "the base is walked back to front (%s): base keys do not keep their relative order" % sh12.describe(), key="base-order:%s" % h.name)
        else:
            ctx.inconclusive("M12", inst12, inner.where, "loop over the base not recognised (%s)" % sh12.describe())
    # ---- M14 the loop over an input runs for every pair of non-NULL inputs: no way round it that depends on the OTHER input's (or its
    # own) content - an override without entries (comment-only file, fresh object: entry table NULL) must not make the base disappear
    for role in ("base", "override"):
        for h, st, l, inner in charges.get(role, []):
            hcfg = h.cfg
            lhb = hcfg.loop_header(inner)
            succ14 = {(b, i): s2 for (b, i, s2) in hcfg.edges()}
            pn = set(h.param_names())

            def cut14(lit, b, i):
                if succ14.get((b, i)) == lhb:
                    return True
                # skipping because a parameter itself is NULL is what the unchanged code does as well (and econf_mergeFiles refuses NULL inputs)
                if lit is not None and lit.kind == "truth" and not lit.pol and (lit.atom in pn or lit.atom.lstrip("*") in pn):
                    return True
                return False
            wp = hcfg.feasible_reach(hcfg.exit, cut14, lambda a: True)
            inst14 = "%s: the loop over the %s runs for every pair of inputs" % (h.name, role)
            if wp is None:
                ctx.ok("M14", inst14, inner.where, "it can only be skipped when a parameter is NULL")
            else:
                lits = [hcfg.edge_lit(b, i) for (b, i) in wp if hcfg.edge_lit(b, i) is not None]
                why = [str(x) for x in lits if "->" in x.atom or "." in x.atom][:2] or [str(x) for x in lits][:2]
                ctx.fail("M14", inst14, (lits[0].node if lits else inner).where,
                         "the function can return without running it when %s: e.g. an override that has no entries at all (its entry table is NULL) makes the "
                         "whole base vanish from the result" % " and ".join(why), key="input-loop-skipped:%s:%s" % (h.name, role), path=hcfg.describe_path(wp)[-5:])
    # ---- M11 where an override-only entry is inserted: behind the last entry of its section, a new section at the end ------
    for h, st, l, inner in charges.get("override", []):
        idxv = l.children[1].strip()
        if idxv.k != "DeclRefExpr":
            continue
        v = idxv.j["name"]
        counters = [x for x in inner.child("body").walk() if x.k == "UnaryOperator" and x.j.get("op") == "++" and not any(
            a2.k in ("ForStmt", "WhileStmt") and a2 is not inner and a2.within(inner) for a2 in x.ancestors())]
        if len(counters) != 1:
            continue
        C = render(counters[0].children[0])
        scanvars = set()
        for lp2 in inner.child("body").walk():
            if lp2.k in ("ForStmt", "WhileStmt"):
                sh3 = loops.index_shape(lp2)
                if sh3.ok and sh3.cmp == "<" and sh3.bound == C:
                    scanvars.add(sh3.var)
        inst11 = "%s: an entry only the override has goes behind the last entry of its section" % h.name
        verdict = []
        for lhs2, rhs2, st2 in leaf_defs(h, v):
            r2 = rhs2.strip()
            t = render(r2)
            if rhs2.const_value() == 0 and (isinstance(lhs2, dict) or st2.k == "DeclStmt"):
                continue                                         # initial value, overwritten or used for the group-less case (M10)
            mm3 = re.match(r"^([\w$.]+)( \+ 1)?$", t)
            if mm3 and mm3.group(1) in scanvars:
                # set while scanning the result: must be under "same section" and point BEHIND the entry
                cfg = h.cfg
                okg, cutg = cfg.all_paths_cut(cfg.block_of(st2), lambda lit, b3, i3: lit is not None and lit.kind == "truth" and not lit.pol and lit.node.k == "CallExpr"
                                              and lit.node.j.get("callee") == "strcmp" and all(".group" in render(a2) for a2 in lit.node.call_args()),
                                              start=cfg.loop_header(inner))
                if not (okg and cutg):
                    verdict.append(("fail", st2, "the insertion index follows entries of OTHER sections (`%s` is not under the same-section test)" % render(st2)))
                elif mm3.group(2):
                    verdict.append(("ok", st2, "behind the last entry of the same section (`%s`)" % render(st2)))
                else:
                    verdict.append(("fail", st2, "`%s` points AT the last entry of the section, not behind it: the new key is inserted in front of a key of the base, "
                                    "whose relative position to the section's other keys changes" % render(st2)))
                continue
            if r2.k == "ConditionalOperator" and MARKER in render(r2.child("cond")) and "strcmp" in render(r2.child("cond")):
                cnd = r2.child("cond").strip()
                named_branch = r2.child("then") if not (cnd.k == "UnaryOperator" and cnd.j.get("op") == "!") else r2.child("else")
                if render(named_branch) == C:
                    verdict.append(("ok", st2, "a section the result does not have yet is appended at the end (`%s`)" % C))
                else:
                    verdict.append(("fail", st2, "an entry of a section the result does not have yet is inserted at `%s`, not at the end `%s`: sections only the "
                                    "override has do not come last / in the override's order" % (render(named_branch), C)))
                continue
            if t == C:
                verdict.append(("ok", st2, "appended at the end"))
                continue
            if rhs2.const_value() == 0:
                continue
            verdict.append(("unknown", st2, "definition `%s` of the insertion index not understood" % render(st2)))
        if not verdict:
            ctx.inconclusive("M11", inst11, st.where, "no definition of the insertion index `%s` found" % v)
        for kind, node, why in verdict:
            if kind == "ok":
                ctx.ok("M11", inst11, node.where, why)
            elif kind == "fail":
                ctx.fail("M11", inst11, node.where, why, key="insert-position:%s" % h.name)
            else:
                ctx.inconclusive("M11", inst11, node.where, why)
    # ---- M11c the position found while scanning is the one used: the default position (end of the list / front for group-less keys)
    # does not replace it, and it IS taken when the scan found no entry of the section (decided on consistent paths through the flags)
    for h, st, l, inner in charges.get("override", []):
        idxv = l.children[1].strip()
        if idxv.k != "DeclRefExpr":
            continue
        v = idxv.j["name"]
        cfg = h.cfg
        ohb = cfg.loop_header(inner)
        scans9 = [x for x in inner.child("body").walk() if x.k in ("ForStmt", "WhileStmt")]
        match_st = [s9 for l9, r9, s9, k9 in query.stores(h) if render(l9) == v and k9 == "=" and r9 is not None and any(s9.within(sc9) for sc9 in scans9)]
        dflt_st = [s9 for l9, r9, s9, k9 in query.stores(h) if render(l9) == v and k9 == "=" and r9 is not None and s9.within(inner) and not any(s9.within(sc9) for sc9 in scans9)]
        if len(match_st) != 1 or len(dflt_st) != 1:
            continue
        mb, db, ib = cfg.block_of(match_st[0]), cfg.block_of(dflt_st[0]), cfg.block_of(st)
        back = lambda lit, b3, i3: cfg.blocks[b3].succs[i3] == ohb
        pos9 = cfg.index_of(match_st[0])
        over = cfg.feasible_reach(db, back, lambda a2: re.match(r"^[\w$.]+$", a2) is not None, start=mb, start_index=0)
        inst11c = "%s: the position found in the section is the one used" % h.name
        if over is not None and ib in cfg.reachable(db, avoid_blocks=[ohb]):
            ctx.fail("M11", inst11c, dflt_st[0].where,
                     "after `%s` (an entry of the section was found) the same round can still reach `%s`: the entry is put at the end of the list / in front of it "
                     "instead of behind its section" % (render(match_st[0]), render(dflt_st[0])[:60]), key="insert-default-overrides:%s" % h.name, path=cfg.describe_path(over)[-6:])
        else:
            ctx.ok("M11", inst11c, match_st[0].where, "the default position is unreachable once `%s` was stored in that round" % render(match_st[0]))
        # no entry of the section found: the default must be taken
        succ9 = {(b9, i9): t9 for (b9, i9, t9) in cfg.edges()}
        miss = cfg.feasible_reach(db, lambda lit, b3, i3: succ9.get((b3, i3)) == mb or succ9.get((b3, i3)) == ohb, lambda a2: re.match(r"^[\w$.]+$", a2) is not None,
                                  start=cfg.loop_body_entry(inner))
        inst11d = "%s: a section the result does not have gets the default position" % h.name
        if miss is None:
            ctx.fail("M11", inst11d, dflt_st[0].where,
                     "`%s` cannot be reached in a round in which the scan found no entry of the section: the insertion index keeps its initial value - entries of a "
                     "new section are put in front of everything" % render(dflt_st[0])[:60], key="insert-default-unreachable:%s" % h.name)
        else:
            ctx.ok("M11", inst11d, dflt_st[0].where, "reachable when the scan stores no position")
    # ---- M11b "section not found" is decided on something that cannot also be a position ----------------------------------------
    m11b_fns = {}
    for h, st, l, inner in charges.get("override", []):
        m11b_fns[h.name] = (h, inner)
    if prog.has_fn("add_new_groups") and "add_new_groups" not in m11b_fns:
        h0 = prog.fn("add_new_groups")
        outer0 = [x for x in h0.walk() if x.k in ("ForStmt", "WhileStmt") and not any(a.k in ("ForStmt", "WhileStmt") for a in x.ancestors())]
        if outer0:
            m11b_fns["add_new_groups"] = (h0, outer0[0])
    for h, inner in m11b_fns.values():
        hcfg = h.cfg
        for lhs2, rhs2, st2, kind2 in query.stores(h):
            r2 = rhs2.strip() if rhs2 is not None else None
            if r2 is None or r2.k != "ConditionalOperator" or MARKER not in render(r2.child("cond")):
                continue
            # the test(s) under which this "new section" position is chosen
            for (b3, i3, s3) in hcfg.edges():
                lit = hcfg.edge_lit(b3, i3)
                if lit is None or lit.kind != "truth" or lit.node.k != "DeclRefExpr" or lit.node.j.get("dk") != "local":
                    continue
                if hcfg.blocks[b3].succs[i3] != hcfg.block_of(st2) and not (hcfg.dominates(s3, hcfg.block_of(st2)) and hcfg.block_of(st2) not in hcfg.reachable(hcfg.blocks[b3].succs[1 - i3], avoid_blocks=[hcfg.loop_header(inner)])):
                    continue
                V = lit.atom
                defs = [(l9, r9, s9) for l9, r9, s9 in h.assignments() if (l9["name"] if isinstance(l9, dict) else render(l9)) == V and r9 is not None]
                init = [r9.const_value() for l9, r9, s9 in defs if r9.const_value() is not None]
                amb = None
                for l9, r9, s9 in defs:
                    if r9.const_value() is not None:
                        continue
                    t9 = render(r9.strip())
                    lp9 = next((a9 for a9 in s9.ancestors() if a9.k in ("ForStmt", "WhileStmt")), None)
                    sh9 = loops.index_shape(lp9) if lp9 is not None else None
                    if sh9 is not None and sh9.ok and t9 == sh9.var and sh9.start_node is not None and sh9.start_node.const_value() in init:
                        amb = (s9, sh9)
                if amb is not None and not lit.pol:
                    ctx.fail("M11", "%s: `section not found` is told apart from every position" % h.name, lit.node.where,
                             "`!%s` stands for 'the result has no entry of this section', but `%s` is also what it holds when the only entry of the section is "
                             "entry %s (`%s`): a key only the override has is then placed as if its section were new (in front of everything / at the very end)"
                             % (V, V, amb[1].start, render(amb[0])), key="insert-sentinel:%s" % h.name)
                elif defs:
                    ctx.ok("M11", "%s: `section not found` is told apart from every position" % h.name, lit.node.where,
                           "`%s` cannot hold the value it starts with once a section entry was seen" % V)
    # ---- M9 every helper runs for every pair (also for an empty base or override) ---------------------------------
    mcfg = m.cfg
    succ_rets = [r2 for r2 in m.returns() if query.returned_constant(r2) in ("ECONF_SUCCESS", 0)]
    for h, call in helpers:
        cb = mcfg.block_of(call)
        skipped = [r2 for r2 in succ_rets if mcfg.block_of(r2) in mcfg.reachable(mcfg.block_of(cap), avoid_blocks=[cb])]
        if skipped:
            ctx.fail("M9", "%s runs for every pair of inputs" % h.name, call.where,
                     "the call is conditional: a path from the allocation of the result to the successful return skips it (e.g. for an empty base), "
                     "and the entries it would have contributed are missing", key="helper-conditional:%s" % h.name)
        else:
            ctx.ok("M9", "%s runs for every pair of inputs" % h.name, call.where, "on every path from the allocation to ECONF_SUCCESS")
    # ---- M2 / M3 / M6 ---------------------------------------------------------------------------------------------
    cp = prog.fn("cpy_file_entry")
    ctx.touch(cp)
    fields = [f["name"] for f in prog.record("file_entry")["fields"]]
    assigned = {}
    for lhs, rhs, st, kind in query.stores(cp):
        l = lhs.strip()
        if l.k == "MemberExpr" and l.j.get("rec") == "file_entry":
            assigned.setdefault(l.j["member"], []).append((st, rhs))
    missing = [f for f in fields if f not in assigned]
    if missing:
        ctx.fail("M3", "cpy_file_entry copies every field", cp.where, "fields never assigned: %s" % missing, key="copy-fields")
    else:
        ctx.ok("M3", "cpy_file_entry copies every field", cp.where, "all %d fields of struct file_entry assigned" % len(fields))
    dest = cp.params[0]["name"]
    for fld, sts in sorted(assigned.items()):
        for st, rhs in sts:
            if not (rhs.strip().j.get("ct", "").endswith("*")):
                continue
            inst = "cpy_file_entry: %s" % render(st)[:60]
            if rhs.is_null_const():
                ctx.ok("M2", inst, st.where, "NULL")
                continue
            ok, why = ma.is_fresh_expr(cp, rhs)
            r = rhs.strip()
            if ok:
                ctx.ok("M2", inst, st.where, why)
            elif fld == "group" and r.k == "CallExpr" and r.j.get("callee") == "setGroupList" and render(r.call_args()[0]) == dest:
                ctx.ok("M2", inst, st.where, "group name lives in the destination's own group list (setGroupList(%s, ...))" % dest)
            else:
                ctx.fail("M2", inst, st.where, "the copy shares `%s` with the source entry (%s): freeing or editing either object corrupts the other" % (fld, why),
                         key="shared:%s" % fld)
    for h, call in helpers:
        for c in h.calls("cpy_file_entry"):
            a0 = c.call_args()[0].strip()
            good = a0.k == "DeclRefExpr" and a0.j.get("dk") == "param" and render(call.call_args()[h.param_names().index(a0.j["name"])]) == "*merged_file"
            if good:
                ctx.ok("M2", "%s copies into the result's group list" % h.name, c.where, "cpy_file_entry(%s, ...) with %s = *merged_file" % (render(a0), render(a0)))
            else:
                ctx.fail("M2", "%s copies into the result's group list" % h.name, c.where, "destination argument is %s" % render(a0), key="dest:%s" % h.name)
    fe_store = [st for lhs, rhs, st, kind in query.stores(m) if render(lhs) == "(*merged_file)->file_entry"]
    if fe_store and render(fe_store[0].children[1]) == "fe":
        ctx.ok("M2", "the filled array becomes the result's entry array", fe_store[0].where, "(*merged_file)->file_entry = fe")
    else:
        ctx.fail("M2", "the filled array becomes the result's entry array", m.where, "stores: %s" % [render(s2) for s2 in fe_store], key="result-array")
    # M6: value override
    n6 = 0
    for h, call in helpers:
        for lhs, rhs, st, kind in query.stores(h):
            l = lhs.resolve()
            if l.k == "MemberExpr" and l.j.get("member") == "value" and "(*" in render(l) and rhs is not None:
                n6 += 1
                roots = set()
                for x in rhs.walk():
                    if x.k == "DeclRefExpr" and x.j.get("dk") == "param" and x.j.get("ct", "").endswith("econf_file *"):
                        roots.add(x.j["name"])
                txt6 = render(rhs)
                for pn6 in h.param_names():
                    if re.search(r"(^|[^\w])%s->" % re.escape(pn6), txt6):
                        roots.add(pn6)
                # ... or through a local that points into one of the inputs (entry = lookup(ef, ...); entry->value)
                from sa.dataflow import ReachingDefs as _RD, origins as _origins
                rd6 = _RD(h)
                for x in rhs.walk():
                    if x.k == "DeclRefExpr" and x.j.get("dk") == "local" and (x.j.get("ct") or "").endswith("*"):
                        for o in _origins(rd6, x, st):
                            otxt = o[1] if isinstance(o, tuple) and o[0] == "param" else (render(o[1]) if isinstance(o, tuple) and o[0] == "expr" else "")
                            for pn6 in h.param_names():
                                if otxt == pn6 or re.search(r"(^|[^\w$.])%s->" % re.escape(pn6), otxt):
                                    roots.add(pn6)
                roots = set(r6 for r6 in roots if h.param(r6) is not None and (h.param(r6).get("ct") or "").endswith("econf_file *"))
                roles = set(input_role(m, call, h, r) for r in roots)
                ok, why = ma.is_fresh_expr(h, rhs, at=st)
                if roles == {"override"} and ok:
                    ctx.ok("M6", "%s: on a key match the override's value is stored" % h.name, st.where, "fresh copy of %s" % render(rhs)[:60])
                    # ... and it is the override's FIRST definition (what a lookup in the override returns): the scan ends with the match
                    scan = None
                    for a6 in st.ancestors():
                        if a6.k in ("ForStmt", "WhileStmt", "DoStmt") and a6.child("cond") is not None and any(
                                re.search(r"(^|[^\w])%s->length" % re.escape(r6), render(a6.child("cond"))) for r6 in roots):
                            scan = a6
                            break
                    if scan is not None:
                        hcfg = h.cfg
                        shb = hcfg.loop_header(scan)
                        again = hcfg.feasible_reach(shb, lambda lit, b6, i6: False, lambda a7: True, start=hcfg.block_of(st), nonempty=True)
                        # leaving the scan and re-entering it for the next base entry is fine: cut at the enclosing loop's header
                        outer = [a7 for a7 in scan.ancestors() if a7.k in ("ForStmt", "WhileStmt", "DoStmt")]
                        if outer:
                            ohb6 = hcfg.loop_header(outer[0])
                            succ6 = {(b7, i7): s7 for (b7, i7, s7) in hcfg.edges()}
                            again = hcfg.feasible_reach(shb, lambda lit, b6, i6: succ6.get((b6, i6)) == ohb6, lambda a7: True, start=hcfg.block_of(st), nonempty=True)
                        # the scan itself starts at the override's first entry and goes up: the element taken is [scan variable]
                        shs = loops.index_shape(scan)
                        elem_idx = None
                        mi = re.search(r"[\w$.]+->file_entry\[([^\]]+)\]", render(rhs))      # render() expands local aliases
                        if mi:
                            nm = mi.group(1)
                            cand = [x for x in h.walk() if x.k == "DeclRefExpr" and x.j.get("name") == nm]
                            elem_idx = cand[0] if cand and re.match(r"^[\w$.]+$", nm) else None
                        order_ok, order_bad = False, None
                        if elem_idx is not None and shs.ok:
                            if render(elem_idx) == shs.var and shs.step > 0 and shs.start_node.const_value() == 0:
                                order_ok = True
                            elif elem_idx.k == "DeclRefExpr" and elem_idx.j.get("dk") == "local":
                                ds6 = [(l6, r6, s6) for l6, r6, s6 in h.assignments() if (l6["name"] if isinstance(l6, dict) else render(l6)) == elem_idx.j["name"]]
                                carried = set(render(l7) for l7, r7, s7, k7 in query.stores(h) if outer and s7.within(outer[0]) and not isinstance(l7, dict))
                                for l6, r6, s6 in ds6:
                                    used = set(x.j["name"] for x in r6.walk() if x.k == "DeclRefExpr")
                                    if s6.within(scan) and (used & carried) - {shs.var}:
                                        order_bad = (s6, sorted((used & carried) - {shs.var}))
                            elif shs.step < 0:
                                order_bad = (scan, ["descending scan"])
                        if again is None and order_bad is not None:
                            ctx.fail("M6", "%s: the override's first definition of the key is the one taken" % h.name, order_bad[0].where,
                                     "the override entry looked at is `%s`, which depends on state carried over from earlier base entries (%s): the scan does not "
                                     "start at the override's first entry, so of two definitions of a key the later one can be found first" % (
                                         render(order_bad[0])[:60], ", ".join(order_bad[1])), key="override-last:%s" % h.name)
                        elif again is None and not order_ok:
                            ctx.inconclusive("M6", "%s: the override's first definition of the key is the one taken" % h.name, st.where,
                                             "the scan over the override is not a front-to-back index loop (%s)" % shs.describe())
                        elif again is None:
                            ctx.ok("M6", "%s: the override's first definition of the key is the one taken" % h.name, st.where,
                                   "the override is scanned front to back (%s) and the scan ends with the match" % shs.describe())
                        else:
                            ctx.fail("M6", "%s: the override's first definition of the key is the one taken" % h.name, st.where,
                                     "after a match the scan of the override goes on: when the override defines the key twice the LAST definition ends up in the "
                                     "result, while a lookup in the override itself returns the first", key="override-last:%s" % h.name)
                elif roles == {"base"}:
                    ctx.fail("M6", "%s: on a key match the override's value is stored" % h.name, st.where, "the BASE's value is stored: overrides have no effect",
                             key="override-source:%s" % h.name)
                elif not ok:
                    ctx.fail("M6", "%s: on a key match the override's value is stored" % h.name, st.where, "value is not a fresh copy (%s)" % why, key="override-fresh:%s" % h.name)
                else:
                    ctx.inconclusive("M6", "%s: value store" % h.name, st.where, "source %s" % sorted(roots))
        for c in h.calls("cpy_file_entry"):
            a1 = c.call_args()[1]
            roots = set(x.j["name"] for x in a1.walk() if x.k == "DeclRefExpr" and x.j.get("dk") == "param")
            t1 = render(a1)
            for pn6 in h.param_names():
                if re.search(r"(^|[^\w])%s->" % re.escape(pn6), t1):
                    roots.add(pn6)
            roles = set(input_role(m, call, h, r) for r in roots if r in h.param_names()) - {None}
            if len(roles) != 1:
                ctx.inconclusive("M6", "%s: source of a copied entry" % h.name, c.where, "roots %s" % sorted(roots))
    if n6 == 0:
        # is there a value store at all that the rule could not attribute (written through a walking pointer, say)?
        unknown6 = []
        for fn6 in prog.lib_functions(with_helpers=True):
            if fn6.name not in ("merge_existing_groups", "add_new_groups", "econf_mergeFiles") and not getattr(fn6, "is_inlined_helper", False):
                continue
            for l6, r6, s6, k6 in query.stores(fn6):
                l0 = l6.strip()
                if l0.k == "MemberExpr" and l0.j.get("member") == "value" and l0.j.get("rec") == "file_entry" and r6 is not None and not r6.is_null_const():
                    unknown6.append(s6)
        if unknown6:
            ctx.inconclusive("M6", "on a key match the override's value is stored", unknown6[0].where,
                             "`%s`: a value is stored in a form the rule cannot attribute to base or override" % render(unknown6[0])[:70])
        else:
            ctx.fail("M6", "on a key match the override's value is stored", m.where, "no helper replaces the value of a matching key", key="override-missing")
