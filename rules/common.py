"""Rule fragments shared by several properties."""
from sa.ast import render
from sa.facts import Inconclusive
from sa import query

# routines that can open / map a file for reading besides fopen
OTHER_OPENERS = ("open", "open64", "openat", "openat64", "freopen", "freopen64", "fdopen", "mmap", "mmap64",
                 "popen")
GATE = "read_file_with_callback"
PARSER = "read_file"


def fopen_read_sites(prog):
    """[(fn, call, mode)] for fopen calls in lib whose mode may read."""
    out = []
    for f in prog.lib_functions():
        for c in f.calls(("fopen", "fopen64")):
            args = c.call_args()
            mode = args[1].string_value() if len(args) > 1 else None
            out.append((f, c, mode))
    return out


def choke_point(prog, ctx, rule):
    """G1 / X2: the only way to file content is read_file, whose only caller is the gate."""
    gate = prog.fn(GATE)
    parser = prog.fn(PARSER)
    ctx.touch(gate, parser)
    n_readers = 0
    for f, c, mode in fopen_read_sites(prog):
        if mode is None:
            ctx.inconclusive(rule, "fopen mode in %s" % f.name, c.where, "mode argument is not a literal")
            continue
        reads = mode.startswith("r") or "+" in mode
        if not reads:
            ctx.ok(rule, "fopen(%s) in %s is write-only" % (mode, f.name), c.where, "mode %r cannot read" % mode)
            continue
        n_readers += 1
        if f.name == PARSER:
            ctx.ok(rule, "fopen-for-read in %s" % f.name, c.where, "the parser itself opens its input (mode %r)" % mode)
        else:
            ctx.fail(rule, "fopen-for-read outside the parser", c.where,
                     "%s opens a file for reading (mode %r) outside %s: content can bypass the gate" % (f.name, mode, PARSER),
                     key="fopen-read:%s" % f.name)
    if n_readers == 0:
        ctx.inconclusive(rule, "no fopen-for-read found", parser.where, "the parser's fopen vanished; idiom unknown")
    # other ways to read a file
    bad = 0
    for f in prog.lib_functions():
        for c in f.calls(OTHER_OPENERS):
            bad += 1
            ctx.fail(rule, "alternative file reader", c.where,
                     "%s calls %s: a second way to file content that bypasses %s" % (f.name, c.j.get("callee"), GATE),
                     key="opener:%s:%s" % (f.name, c.j.get("callee")))
    if not bad:
        ctx.ok(rule, "no alternative reader (%d routines searched)" % len(OTHER_OPENERS), "lib/",
               "none of %s is called in lib/" % ", ".join(OTHER_OPENERS[:8]) + " ...")
    # who may call the parser
    callers = query.callers_of(prog, PARSER)
    if not callers:
        ctx.inconclusive(rule, "callers of %s" % PARSER, parser.where, "no caller found")
    for f, c in callers:
        if f.name == GATE:
            ctx.ok(rule, "%s called from the gate" % PARSER, c.where, "sole legitimate caller")
        else:
            ctx.fail(rule, "%s called outside the gate" % PARSER, c.where,
                     "%s calls %s directly, bypassing callback and restrictions" % (f.name, PARSER),
                     key="parser-caller:%s" % f.name)
    # address of the parser must not escape (indirect calls)
    for f in prog.lib_functions():
        for n in f.walk():
            if n.k == "DeclRefExpr" and n.j.get("dk") == "func" and n.j.get("name") == PARSER:
                up = n.up()
                if not (up is not None and up.k == "CallExpr" and up.children[0].strip() is n):
                    ctx.fail(rule, "address of %s taken" % PARSER, n.where, "in %s" % f.name,
                             key="parser-addr:%s" % f.name)
    return gate, parser
