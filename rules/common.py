"""Rule fragments shared by several properties."""
from sa.ast import render
from sa.facts import Inconclusive
from sa import query

# routines that can open / map a file for reading besides fopen
OTHER_OPENERS = ("open", "open64", "openat", "openat64", "freopen", "freopen64", "fdopen", "mmap", "mmap64",
                 "popen")
GATE = "read_file_with_callback"
PARSER = "read_file"


def fopen_read_sites(prog):
    """[(fn, call, mode)] for fopen calls in lib whose mode may read."""
    out = []
    for f in prog.lib_functions():
        for c in f.calls(("fopen", "fopen64")):
            args = c.call_args()
            mode = args[1].string_value() if len(args) > 1 else None
            out.append((f, c, mode))
    return out


def choke_point(prog, ctx, rule):
    """G1 / X2: the only way to file content is read_file, whose only caller is the gate."""
    gate = prog.fn(GATE)
    parser = prog.fn(PARSER)
    ctx.touch(gate, parser)
    n_readers = 0
    for f, c, mode in fopen_read_sites(prog):
        if mode is None:
            ctx.inconclusive(rule, "fopen mode in %s" % f.name, c.where, "mode argument is not a literal")
            continue
        reads = mode.startswith("r") or "+" in mode
        if not reads:
            ctx.ok(rule, "fopen(%s) in %s is write-only" % (mode, f.name), c.where, "mode %r cannot read" % mode)
            continue
        n_readers += 1
        if f.name == PARSER:
            ctx.ok(rule, "fopen-for-read in %s" % f.name, c.where, "the parser itself opens its input (mode %r)" % mode)
        else:
            ctx.fail(rule, "fopen-for-read outside the parser", c.where,
                     "%s opens a file for reading (mode %r) outside %s: content can bypass the gate" % (f.name, mode, PARSER),
                     key="fopen-read:%s" % f.name)
    if n_readers == 0:
        ctx.inconclusive(rule, "no fopen-for-read found", parser.where, "the parser's fopen vanished; idiom unknown")
    # other ways to read a file
    bad = 0
    for f in prog.lib_functions():
        for c in f.calls(OTHER_OPENERS):
            # opened for writing only (the writer's temporary file, an append-only log): not a way to file content
            cn, a = c.j.get("callee"), c.call_args()
            wo = None
            if cn in ("fdopen", "freopen", "freopen64", "popen"):
                mi = 2 - 1 if cn != "freopen" and cn != "freopen64" else 1
                mode = a[mi].string_value() if len(a) > mi else None
                if mode is not None and mode[:1] in ("w", "a") and "+" not in mode:
                    wo = "mode %r" % mode
            elif cn in ("open", "open64", "openat", "openat64"):
                fi = 1 if cn.startswith("open") and not cn.startswith("openat") else 2
                flags = a[fi].const_value() if len(a) > fi else None
                if flags is not None and (flags & 3) == 1:
                    wo = "flags O_WRONLY"
            if wo:
                ctx.ok(rule, "%s() in %s is write-only" % (cn, f.name), c.where, "%s cannot read" % wo)
                continue
            bad += 1
            ctx.fail(rule, "alternative file reader", c.where,
                     "%s calls %s: a second way to file content that bypasses %s" % (f.name, c.j.get("callee"), GATE),
                     key="opener:%s:%s" % (f.name, c.j.get("callee")))
    if not bad:
        ctx.ok(rule, "no alternative reader (%d routines searched)" % len(OTHER_OPENERS), "lib/",
               "none of %s is called in lib/" % ", ".join(OTHER_OPENERS[:8]) + " ...")
    # who may call the parser
    callers = query.callers_of(prog, PARSER)
    if not callers:
        ctx.inconclusive(rule, "callers of %s" % PARSER, parser.where, "no caller found")
    for f, c in callers:
        if f.name == GATE:
            ctx.ok(rule, "%s called from the gate" % PARSER, c.where, "sole legitimate caller")
        else:
            ctx.fail(rule, "%s called outside the gate" % PARSER, c.where,
                     "%s calls %s directly, bypassing callback and restrictions" % (f.name, PARSER),
                     key="parser-caller:%s" % f.name)
    # address of the parser must not escape (indirect calls)
    for f in prog.lib_functions():
        for n in f.walk():
            if n.k == "DeclRefExpr" and n.j.get("dk") == "func" and n.j.get("name") == PARSER:
                up = n.up()
                if not (up is not None and up.k == "CallExpr" and up.children[0].strip() is n):
                    ctx.fail(rule, "address of %s taken" % PARSER, n.where, "in %s" % f.name,
                             key="parser-addr:%s" % f.name)
    return gate, parser


# only where length == 0 is an ordinary state (the line loop before the first entry).  store() indexes [length-1] after a
# conditional length++ that rests on the object invariant alloc_length == length of parsed objects - value reasoning, not armed.
LAST_ENTRY_FUNCS = ("read_file", "read_file_with_callback")


def unsigned_minus_indices(ctx, rule, f):
    """Every array index of the form E - k with unsigned E must be reachable only with E >= k established
    (consistent-path reachability).  Returns the number of instances."""
    cfg = f.cfg
    n = 0
    for x in f.walk():
        if x.k != "ArraySubscriptExpr":
            continue
        idx = x.children[1].strip()
        if idx.k == "BinaryOperator" and idx.j.get("op") == "-" and idx.children[1].const_value() and idx.children[0].strip().j.get("sg") is False:
            e = render(idx.children[0])
            k = idx.children[1].const_value()
            if any(c.k == "CallExpr" for c in idx.children[0].walk()):
                continue        # strlen(x) - 1 and friends: the last-character rule (C04.S2)
            # instances: E is the induction variable of an enclosing counting loop that starts below k
            # ("compare with the previous element").  Lengths and counters need value reasoning and are not armed.
            from sa import loops as _loops
            ind = False
            for a in x.ancestors():
                if a.k == "ForStmt":
                    sh = _loops.for_shape(a)
                    if sh.var == e and sh.start_node is not None and (sh.start_node.const_value() is None or sh.start_node.const_value() < k):
                        ind = True
            # ... or the "last entry" access  X->file_entry[X->length - 1]  of the parser unit: length is 0 for a file that
            # has not produced an entry yet, so it needs `length > 0` (or an append) on the way
            last_entry = e.endswith("->length") and render(x.children[0]).endswith("->file_entry") and f.name in LAST_ENTRY_FUNCS
            if not ind and not last_entry:
                continue
            n += 1

            def guard(lit, b2, i2, e=e, k=k):
                if lit is None:
                    return False
                if lit.kind == "truth" and lit.atom == e and lit.pol:
                    return k == 1
                if lit.kind == "lt" and render(lit.rhs) == e and lit.pol and lit.lhs.const_value() is not None and lit.lhs.const_value() >= k - 1:
                    return True
                if lit.kind == "eq" and not lit.pol and k == 1 and ((render(lit.lhs) == e and lit.rhs.const_value() == 0) or (render(lit.rhs) == e and lit.lhs.const_value() == 0)):
                    return True
                return False
            wp = cfg.feasible_reach(cfg.block_of(x), guard, lambda a, e=e: a == e or (" " + e + " ") in (" " + a + " "))
            inst = "%s: %s" % (f.name, render(x))
            if wp is None:
                ctx.ok(rule, inst, x.where, "every consistent path establishes %s >= %d first" % (e, k))
            else:
                # a counter that starts at a positive value / was just incremented?  (length-1 after length++ ...)
                if _positive_by_construction(f, x, idx.children[0]):
                    ctx.ok(rule, inst, x.where, "%s was incremented / tested against 0 on the way (see path)" % e)
                else:
                    ctx.fail(rule, inst, x.where,
                             "`%s` is unsigned and the index %s is reachable with %s == 0: element [-1] of the array is addressed" % (e, render(idx), e),
                             key="underflow:%s:%s" % (f.name, render(x)), path=cfg.describe_path(wp)[-6:])
    return n


def _positive_by_construction(f, use, e):
    """E is a length field that is incremented on every path before the use in this function
    (ef->length++ ... ef->file_entry[ef->length-1]) or the function returned early for E <= 0."""
    cfg = f.cfg
    et = render(e)
    ub = cfg.block_of(use)
    incs = set()
    for lhs, rhs, st, kind in query.stores(f):
        if render(lhs) == et and kind == "++":
            incs.add(cfg.block_of(st))
    if incs and ub not in cfg.reachable(cfg.entry, avoid_blocks=incs) and ub not in incs:
        return True
    # early return under E <= 0 :  literal (0 < E) true on every path
    ok, cut = cfg.all_paths_cut(ub, lambda lit, b, i: lit is not None and lit.kind == "lt" and lit.pol and lit.lhs.const_value() == 0 and render(lit.rhs) == et)
    return ok and bool(cut)


_STATIC_ANCHORS = None


def static_anchors():
    """anchors with internal linkage (rules/tables/anchors.json): if one vanishes, its code is analysed inside its callers"""
    global _STATIC_ANCHORS
    if _STATIC_ANCHORS is None:
        import json
        import os
        from sa.facts import VERIF
        try:
            with open(os.path.join(VERIF, "rules", "tables", "anchors.json")) as f:
                _STATIC_ANCHORS = set(json.load(f).get("static", []))
        except OSError:
            _STATIC_ANCHORS = set()
    return _STATIC_ANCHORS


def holder_of(prog, static_name, must_call):
    """the function that holds the code of a static anchor: the anchor itself, or - when it was folded into its caller -
    the library function that makes all the calls in `must_call`"""
    if prog.has_fn(static_name):
        return prog.fn(static_name)
    cands = [f for f in prog.lib_functions() if all(f.calls(c) for c in must_call)]
    return cands[0] if len(cands) == 1 else None


def import_obligations(ctx, prog, runners, rule, prefix="", keep=None, what="imported rule"):
    """run rule functions of another property on a private context and file their obligations under `rule` of this property
    (the same structural fact is a necessary condition of both properties)"""
    from sa.report import Ctx as _Ctx
    from sa.facts import Inconclusive as _Inc
    sub = _Ctx(ctx.prop, ctx.tier, prog)
    try:
        for r in runners:
            r(prog, sub)
    except _Inc as e:
        ctx.inconclusive(rule, what, "", str(e))
    n = 0
    for ob in sub.obs:
        if keep is not None and not keep(ob):
            continue
        ob.rule = rule
        if prefix:
            ob.instance = prefix + ob.instance
        ctx.obs.append(ob)
        n += 1
    return n


def verbatim_store_rule(prog, ctx, rule, fname, field, pindex, what):
    """`fname` stores into `.field` a complete copy of the text it is handed in parameter #pindex: strdup() of the parameter itself
    (or of a local that stands for it: `value = v ? v : ""`), which is not moved or shortened before.  strndup / a pointer that was
    advanced / a copy loop store a PART of the text."""
    from sa.ast import render
    from sa import query
    from sa.dataflow import ReachingDefs
    if not prog.has_fn(fname):
        ctx.inconclusive(rule, what, "", "anchor vanished: %s" % fname)
        return
    f = prog.fn(fname)
    ctx.touch(f)
    pname = f.params[pindex]["name"]
    rd = ReachingDefs(f)
    sts = [(st, rhs) for lhs, rhs, st, kind in query.stores(f) if kind == "=" and lhs.strip().k == "MemberExpr" and lhs.strip().j.get("member") == field
           and rhs is not None and not rhs.is_null_const()]
    if not sts:
        ctx.inconclusive(rule, what, f.where, "no store to .%s in %s" % (field, fname))
        return

    def stands_for_param(e, at, depth=0):
        e0 = e.strip()
        if e0.k == "ConditionalOperator":
            arms = [e0.child("then"), e0.child("else")]
            return all(a is not None and (a.string_value() is not None or stands_for_param(a, at, depth + 1)) for a in arms) and \
                any(a is not None and a.string_value() is None for a in arms)
        if e0.k != "DeclRefExpr":
            return False
        nm = e0.j.get("name")
        moved = [st for lhs, rhs, st, kind in query.stores(f) if render(lhs) == nm and (kind != "=" or rhs is None or nm in render(rhs))]
        if moved:
            return False
        if e0.j.get("dk") == "param":
            return nm == pname
        if depth > 3:
            return False
        ds = rd.reaching(nm, at)
        return bool(ds) and all(d.rhs is not None and d.node is not None and stands_for_param(d.rhs, d.node, depth + 1) for d in ds)
    for st, rhs in sts:
        srcs = [(rhs.strip(), st)]
        r0 = rhs.strip()
        if r0.k == "DeclRefExpr" and r0.j.get("dk") == "local":
            srcs = [(d.rhs.strip(), d.node) for d in rd.reaching(r0.j["name"], st) if d.rhs is not None and d.node is not None and not d.rhs.is_null_const()]
        verdict = "ok"
        why = ""
        for x, at in srcs:
            if x.k == "CallExpr" and x.j.get("callee") == "strdup" and x.call_args() and stands_for_param(x.call_args()[0], at):
                continue
            if x.k == "CallExpr" and x.j.get("callee") in ("malloc", "calloc") and r0.k == "DeclRefExpr":
                # copy = malloc(len + 1); memcpy(copy, text, len);  with len = strlen(text): the whole text, written out by hand
                def is_len_of_param(e, at9, depth=0):
                    e0 = e.strip()
                    if e0.k == "CallExpr" and e0.j.get("callee") == "strlen" and e0.call_args():
                        return stands_for_param(e0.call_args()[0], at9)
                    if e0.k == "DeclRefExpr" and e0.j.get("dk") in ("local", "param") and depth < 4:
                        ds9 = rd.reaching(e0.j["name"], at9)
                        return bool(ds9) and all(d9.rhs is not None and d9.node is not None and is_len_of_param(d9.rhs, d9.node, depth + 1) for d9 in ds9)
                    return False
                whole = False
                for c9 in f.calls(("memcpy", "strcpy", "stpcpy")):
                    a9 = c9.call_args()
                    if len(a9) >= 2 and render(a9[0]) == r0.j["name"] and stands_for_param(a9[1], c9):
                        if c9.j["callee"] != "memcpy" or (len(a9) == 3 and is_len_of_param(a9[2], c9)):
                            whole = True
                if whole:
                    continue
            if x.k == "CallExpr" and x.j.get("callee") in ("strndup", "strdup", "memcpy", "strncpy", "mempcpy"):
                verdict, why = "fail", render(x)[:60]
                break
            verdict, why = "unknown", render(x)[:60]
        if not srcs:
            verdict, why = "unknown", render(rhs)[:60]
        if verdict == "ok":
            ctx.ok(rule, what, st.where, "%s = strdup(%s)" % (render(st.children[0])[:40], pname))
        elif verdict == "fail":
            ctx.fail(rule, what, st.where,
                     "`.%s` receives %s: a part of the text handed in `%s` (or the text from a moved pointer), not a copy of all of it - what is looked up or "
                     "read back later is not what was given" % (field, why, pname), key="verbatim:%s:%s" % (fname, field))
        else:
            ctx.inconclusive(rule, what, st.where, "source %s not understood" % why)


def index_param_rule(prog, ctx, rule):
    """A function that is handed the index of "its" entry (`size_t num`) works on that entry: every subscript of an entry array in its
    body is that parameter, unchanged.  (`file_entry[num + 1]`, or the index of another variable of the same type, reads or writes the
    neighbour - or the slot behind the array for the last entry.)"""
    from sa.ast import render
    from sa import query
    n = 0
    for f in prog.lib_functions():
        idx = [q["name"] for q in f.params if (q.get("ct") or "") in ("unsigned long", "size_t") and q["name"] in ("num", "index", "idx", "pos", "n")]
        if len(idx) != 1:
            continue
        ip = idx[0]
        if [1 for l, r, st, k in query.stores(f) if render(l) == ip]:
            continue
        subs = [x for x in f.walk() if x.k == "ArraySubscriptExpr" and render(x.children[0]).endswith("file_entry")]
        if not subs:
            continue
        own = [x for x in subs if render(x.children[1]) == ip]
        other = [x for x in subs if render(x.children[1]) != ip]
        if not own:
            continue
        n += 1
        ctx.touch(f)
        derived = [x for x in other if ip in render(x.children[1])]
        if derived:
            ctx.fail(rule, "%s works on the entry it is given" % f.name, derived[0].where,
                     "`%s`: %d other accesses use `[%s]` - this one addresses a neighbour of the entry (for the last entry: the slot behind the array)" % (
                         render(derived[0])[:60], len(own), ip), key="index-param:%s" % f.name)
        elif other and all(render(x.children[1]).replace(" ", "").isidentifier() for x in other):
            # another index variable altogether (a loop over all entries next to the one given): not this rule's business
            ctx.ok(rule, "%s works on the entry it is given" % f.name, f.where, "%d accesses with [%s]; %d with a loop index of their own" % (len(own), ip, len(other)))
        else:
            ctx.ok(rule, "%s works on the entry it is given" % f.name, f.where, "all %d entry accesses use [%s]" % (len(own), ip))
    ctx.floor("%s functions with an entry index parameter" % rule, n, 10)


def searched_message_table(prog, es, table="messages"):
    """econf_errString over a table of {code, "text"} rows that is searched by code instead of being indexed:
         for (i = 0; i < <number of rows>; i++) if (table[i].code == error) return table[i].text;
    Returns None when the function is not of that form, else (ok, why, loop): ok when the loop visits every row from 0 in steps of
    one without another way out, the row tested is the row delivered, and every enumerator of econf_err has a row with a text."""
    from sa import loops as _loops
    g = prog.globals.get(table)
    rows = g.init_rows() if g is not None and hasattr(g, "init_rows") else None
    if not rows:
        return None
    p = es.params[0]["name"]
    for lp in es.walk():
        if lp.k not in ("ForStmt", "WhileStmt"):
            continue
        sh = _loops.index_shape(lp)
        if not sh.ok:
            continue
        tests = []
        for x in lp.walk():
            if x.k == "IfStmt":
                c = x.child("cond")
                c0 = c.strip() if c is not None else None
                if c0 is not None and c0.k == "BinaryOperator" and c0.j.get("op") == "==":
                    a, b = c0.children[0].strip(), c0.children[1].strip()
                    for u, v in ((a, b), (b, a)):
                        if render(v) == p and u.k == "MemberExpr" and render(u.children[0]) == "%s[%s]" % (table, sh.var):
                            tests.append((x, u))
        if not tests:
            continue
        if len(tests) != 1:
            return (False, "more than one row test in the search loop", lp)
        ifs, u = tests[0]
        bn = getattr(sh, "bound_node", None)
        bv = bn.const_value() if bn is not None else None
        if bv is None:
            from sa.dataflow import ReachingDefs
            ds = [d for d in ReachingDefs(es).defs if d.var == sh.bound]
            if len(ds) == 1 and ds[0].rhs is not None:
                bv = ds[0].rhs.const_value()
        if not (str(sh.start) == "0" and sh.step == 1 and sh.cmp == "<" and not getattr(sh, "extra", None) and bv == len(rows)):
            return (False, "the search does not run over all %d rows (%s)" % (len(rows), sh.describe()), lp)
        if any(x.k in ("BreakStmt", "GotoStmt") for x in lp.walk()):
            return (False, "the search loop has another way out", lp)
        then = ifs.child("then")
        rets = [r for r in (then.walk() if then is not None else []) if r.k == "ReturnStmt"]
        if len(rets) != 1 or not rets[0].children:
            return (False, "a hit does not return the row's text", lp)
        rv = rets[0].children[0].strip()
        if not (rv.k == "MemberExpr" and render(rv.children[0]) == "%s[%s]" % (table, sh.var) and rv.j.get("member") != u.j.get("member")):
            return (False, "a hit returns `%s`, not the text of the row tested" % render(rv), lp)
        codes = [c["val"] for c in prog.enum("econf_err")["enumerators"]]
        have = {}
        for code, text in rows:
            if code is not None and code not in have:
                have[code] = text
        missing = [v for v in codes if not have.get(v)]
        if any(code is None for code, _ in rows):
            return (False, "a row whose code is not a constant", lp)
        if missing:
            return (False, "no row with a text for code(s) %s" % missing, lp)
        return (True, "%s[] is searched by code over all %d rows; each of the %d codes has a row with a text" % (table, len(rows), len(codes)), lp)
    return None
