"""C20 - every allocation is released exactly once on every path, failures included.

H1 ownership typestate over the read / merge / option / accessor functions (all exits, all failure returns)
H2 out-pointer contract (dangling out-pointers are typestate findings; failure exits clear or keep)
H3 destructors: NULL-safe, return NULL, release every owning field
H4 constructors initialise every field of every slot they create
H5 no two owners of one allocation (= C18.T4 freshness)"""
import re
from sa import loops
from sa import loops as _loops
from sa.ast import render
from sa.facts import Inconclusive
from sa import query
from rules import own_rules, common

META = {
    "level": "proof",
    "technique": "static analysis: object-based ownership typestate with trace partitioning over clang's CFG (callee summaries keyed by "
                 "return class, re-derived for the gate), must-pass-through rules for the array-with-count idiom, field-coverage "
                 "rules for constructors and destructors",
    "level_text": "The typestate explores every exit of every function on the read / merge / option paths, i.e. every position at which a "
                  "read can fail (missing file, rejected callback, restriction, parse error in the n-th drop-in, unknown option), and "
                  "reports leaks, double frees, use after free and dangling out-pointers per exit; constructors/destructors are checked "
                  "against the record definitions. No run of the suite under a leak checker can enumerate those exits.",
    "level_note": "Trusted: clang front end/CFG, sa/own.py, the callee summary table in rules/own_rules.py (the gate's row is re-derived on "
                  "every run). Assumes no allocation failure (exits returning ECONF_NOMEM and NULL edges of fresh allocations are pruned). "
                  "Not decided: leaks that need value reasoning across API calls (a caller that never frees).",
    "explanation": "ownership typestate on all exits + constructor/destructor field coverage",
    "trusted_base": ["clang-14 front end and CFG", "sa/own.py", "callee summaries (rules/own_rules.py)"],
    "assumptions": ["no allocation failure", "opaque callback"],
}

OWNED_BY_GROUP_LIST = {"group"}


def pointer_fields(rec):
    return [f["name"] for f in rec["fields"] if f.get("ct", "").endswith("*")]


def h3(prog, ctx):
    entry_rec = prog.record("file_entry")
    file_rec = prog.record("econf_file")
    for name in ("econf_freeFile", "econf_freeArray", "econf_freeExtValue"):
        f = prog.fn(name)
        ctx.touch(f)
        cfg = f.cfg
        p = f.params[0]["name"]
        # NULL test dominates the first dereference and returns
        derefs = [n for n in f.walk() if (n.k == "MemberExpr" and n.j.get("arrow") and render(n.children[0]) == p) or
                  (n.k == "UnaryOperator" and n.j.get("op") == "*" and render(n.children[0]) == p) or
                  (n.k == "ArraySubscriptExpr" and render(n.children[0]) == p)]
        bad = None
        for d in derefs:
            ok, cut = cfg.all_paths_cut(cfg.block_of(d), lambda lit, b, i: lit is not None and lit.kind == "truth" and lit.atom == p and lit.pol)
            if not (ok and cut):
                bad = d
                break
        if bad is None and derefs:
            ctx.ok("H3", "%s accepts NULL" % name, f.where, "every dereference of `%s` is behind a non-NULL test" % p)
        elif bad is not None:
            ctx.fail("H3", "%s accepts NULL" % name, bad.where, "`%s` is dereferenced without a NULL test" % p, key="null:%s" % name)
        rets = [r for r in f.returns() if r.children]
        if name != "econf_freeExtValue":
            nonnull = [r for r in rets if not r.children[0].is_null_const()]
            if rets and not nonnull:
                ctx.ok("H3", "%s returns NULL" % name, f.where, "all %d returns yield NULL" % len(rets))
            else:
                ctx.fail("H3", "%s returns NULL" % name, (nonnull[0] if nonnull else f).where, "a return yields %s" % (render(nonnull[0].children[0]) if nonnull else "nothing"),
                         key="retnull:%s" % name)
    # econf_freeFile releases every owning field
    f = prog.fn("econf_freeFile")
    p = f.params[0]["name"]
    released = set()
    for c in f.calls(("free", "econf_freeArray", "econf_free")):
        if c.call_args():
            released.add(render(c.call_args()[0]))
    for fld in pointer_fields(file_rec):
        if "%s->%s" % (p, fld) in released:
            ctx.ok("H3", "econf_freeFile releases %s" % fld, f.where, "free/econf_freeArray(%s->%s)" % (p, fld))
        elif any(n9.k == "MemberExpr" and n9.j.get("member") == fld and n9.j.get("rec") == "econf_file" for n9 in f.walk()) and any(
                c9.call_args() and c9.call_args()[0].strip().k in ("ArraySubscriptExpr", "DeclRefExpr") and render(c9.call_args()[0]) != p
                for c9 in f.calls(("free", "econf_freeArray", "econf_free"))):
            # the field is read into a local or a table and something of that kind is released (`lists[] = { kf->parse_dirs, .. }; for .. econf_freeArray(lists[i])`)
            ctx.inconclusive("H3", "econf_freeFile releases %s" % fld, f.where, "`%s->%s` is read and a local / table element is released: not followed" % (p, fld))
        else:
            ctx.fail("H3", "econf_freeFile releases %s" % fld, f.where,
                     "the owning field `%s` of econf_file is never released: every object leaks it" % fld, key="field:econf_file.%s" % fld)
    if p in released:
        ctx.ok("H3", "econf_freeFile releases the object itself", f.where, "free(%s)" % p)
    else:
        ctx.fail("H3", "econf_freeFile releases the object itself", f.where, "free(%s) missing: every object leaks its own block" % p, key="field:econf_file")
    # econf_freeArray: every element, then the array (under whatever name its start was kept)
    fa = prog.fn("econf_freeArray")
    pa = fa.params[0]["name"]
    starts = set([pa])
    for l9, r9, st9 in fa.assignments():
        if r9 is not None and render(r9.strip()) == pa:
            starts.add(l9["name"] if isinstance(l9, dict) else render(l9))
    fcalls = [c for c in fa.calls("free") if c.call_args()]
    elem = [c for c in fcalls if any(a9.k in ("WhileStmt", "ForStmt", "DoStmt") for a9 in c.ancestors())]
    whole = [c for c in fcalls if render(c.call_args()[0]) in starts and not any(a9.k in ("WhileStmt", "ForStmt", "DoStmt") for a9 in c.ancestors())]
    if elem:
        ctx.ok("H3", "econf_freeArray releases every element", elem[0].where, render(elem[0])[:50])
    else:
        ctx.fail("H3", "econf_freeArray releases every element", fa.where, "no free() inside a loop over the list", key="array-elements")
    if whole:
        ctx.ok("H3", "econf_freeArray releases the array", whole[0].where, render(whole[0])[:50])
    else:
        ctx.fail("H3", "econf_freeArray releases the array", fa.where, "the block of the list itself is never released: every list leaks it", key="array-block")
    from sa import loops as _loops
    per_entry = set()
    trav = None
    for l in [n for n in f.walk() if n.k in ("ForStmt", "WhileStmt", "DoStmt")]:
        for t in _loops.traversals(l):
            if t.base == "%s->file_entry" % p:
                trav = t
        for c in l.walk():
            if c.k == "CallExpr" and c.j.get("callee") == "free" and c.call_args():
                a = c.call_args()[0].strip()
                if a.k == "MemberExpr":
                    per_entry.add(a.j["member"])
    for fld in pointer_fields(entry_rec):
        if fld in OWNED_BY_GROUP_LIST:
            if fld in per_entry:
                ctx.fail("H3", "entry field %s belongs to the group list" % fld, f.where, "freed per entry and again with the group list (double free)",
                         key="entryfield:%s" % fld)
            continue
        if fld in per_entry:
            ctx.ok("H3", "econf_freeFile releases entry field %s" % fld, f.where, "freed for every slot")
        else:
            ctx.fail("H3", "econf_freeFile releases entry field %s" % fld, f.where, "`%s` of every entry leaks" % fld, key="entryfield:%s" % fld)
    if trav is None:
        ctx.inconclusive("H3", "econf_freeFile visits all allocated slots", f.where, "loop over %s->file_entry not recognised" % p)
    elif trav.lo in ("0",) and "alloc_length" in trav.hi:
        ctx.ok("H3", "econf_freeFile visits all allocated slots", trav.loop.where, trav.describe())
    else:
        ctx.fail("H3", "econf_freeFile visits all allocated slots", trav.loop.where,
                 "%s: the pre-initialised slots beyond `length` (8 in a fresh object) leak" % trav.describe(), key="slots-bound")
    # ext value
    f = prog.fn("econf_freeExtValue")
    p = f.params[0]["name"]
    released = set(render(c.call_args()[0]) for c in f.calls("free") if c.call_args())
    rec = prog.record("econf_ext_value")
    for fld in pointer_fields(rec):
        if "%s->%s" % (p, fld) in released:
            ctx.ok("H3", "econf_freeExtValue releases %s" % fld, f.where, "")
        else:
            ctx.fail("H3", "econf_freeExtValue releases %s" % fld, f.where, "field never released", key="field:econf_ext_value.%s" % fld)
    if p in released:
        ctx.ok("H3", "econf_freeExtValue releases the record", f.where, "")
    else:
        ctx.fail("H3", "econf_freeExtValue releases the record", f.where, "free(%s) missing" % p, key="field:econf_ext_value")


def _assign_blocks(f, pred):
    cfg = f.cfg
    out = {}
    for lhs, rhs, st, kind in query.stores(f):
        l = lhs.strip()
        if l.k == "MemberExpr" and pred(l):
            out.setdefault(l.j["member"], set()).add(cfg.block_of(st))
    # &obj->field passed to a call counts as assignment by the callee
    for c in f.calls():
        for a in c.call_args():
            a2 = a.strip()
            if a2.k == "UnaryOperator" and a2.j.get("op") == "&":
                i = a2.children[0].strip()
                if i.k == "MemberExpr" and pred(i):
                    out.setdefault(i.j["member"], set()).add(cfg.block_of(c))
    return out


def h4(prog, ctx):
    entry_fields = [f["name"] for f in prog.record("file_entry")["fields"]]
    ext_fields = [f["name"] for f in prog.record("econf_ext_value")["fields"]]
    # (constructor, record fields, predicate on the MemberExpr, start selector)
    specs = [
        ("initialize", entry_fields, lambda m: m.j.get("rec") == "file_entry", None),
        ("cpy_file_entry", entry_fields, lambda m: m.j.get("rec") == "file_entry" and render(m.children[0]) == "copied_fe", None),
        ("store", entry_fields, lambda m: m.j.get("rec") == "file_entry", "new-entry"),
        ("econf_getExtValue", ext_fields, lambda m: m.j.get("rec") == "econf_ext_value", None),
    ]
    for name, fields, pred, sel in specs:
        f = prog.fn(name)
        ctx.touch(f)
        cfg = f.cfg
        blocks = _assign_blocks(f, pred)
        start = cfg.entry
        if sel == "new-entry":
            # the branch taken when append_entry is false
            cand = [(b, i) for (b, i, s) in cfg.edges() if cfg.edge_lit(b, i) is not None and cfg.edge_lit(b, i).atom == "append_entry"
                    and not cfg.edge_lit(b, i).pol]
            if not cand:
                ctx.inconclusive("H4", "store(): new-entry branch", f.where, "branch on append_entry not found")
                continue
            cand.sort(key=lambda e: cfg.blocks[e[0]].cond.line)
            start = cfg.blocks[cand[0][0]].succs[cand[0][1]]
        succ = [r for r in f.returns() if query.returned_constant(r) in ("ECONF_SUCCESS", 0) or (r.children and r.children[0].strip().j.get("ct", "").startswith("struct"))]
        if name == "initialize":
            succ = [None]
        returns_status = (f.j.get("ret", {}) or {}).get("ct") in ("enum econf_err", "econf_err") or any(
            query.returned_constant(r) is not None for r in f.returns())
        succ_edges = {(b, i): s2 for (b, i, s2) in cfg.edges()}
        # an object that comes from calloc() starts with every field 0 / NULL: nothing in it is uninitialised
        zeroed = False
        if name == "econf_getExtValue":
            for l9, r9, st9 in f.assignments():
                r0 = r9.strip() if r9 is not None else None
                if r0 is not None and r0.k == "CallExpr" and r0.j.get("callee") == "calloc" and "econf_ext_value" in (render(r0.call_args()[1]) if len(r0.call_args()) > 1 else ""):
                    zeroed = True
        if zeroed:
            ctx.ok("H4", "%s sets every field" % name, f.where, "the object is allocated with calloc(): every field starts as 0 / NULL")
            continue
        for fld in fields:
            bs = blocks.get(fld, set())
            ok = bool(bs)
            if ok and returns_status and name != "initialize":
                # a consistent path from the start to a return that may deliver success, never entering an assigning block
                if start not in bs:
                    wp = cfg.success_path_avoiding(lambda lit, b, i: succ_edges.get((b, i)) in bs, start=start)
                    ok = wp is None
            elif ok:
                targets = [cfg.block_of(r) for r in succ if r is not None] or [cfg.exit]
                for t in targets:
                    if t in cfg.reachable(start, avoid_blocks=bs) and t not in bs:
                        ok = False
            inst = "%s sets %s" % (name, fld)
            if ok:
                ctx.ok("H4", inst, f.where, "assigned on every path to the successful exit")
            else:
                ctx.fail("H4", inst, f.where,
                         "%s can complete without assigning `%s`: a later reader (econf_getExtValue, econf_freeFile, the writer) "
                         "uses an uninitialised value" % (name, fld), key="init:%s:%s" % (name, fld))
    # growth of the entry array is followed by initialisation of the new slot
    k = prog.fn("key_file_append")
    ctx.touch(k)
    cfg = k.cfg
    re = k.calls("realloc")
    ini = k.calls("initialize")
    if len(re) == 1 and ini:
        rb = cfg.block_of(re[0])
        ib = set(cfg.block_of(c) for c in ini)
        succ = [r for r in k.returns() if query.returned_constant(r) in ("ECONF_SUCCESS", 0)]
        bad = [r for r in succ if cfg.block_of(r) in cfg.reachable(rb, avoid_blocks=ib) and rb not in ib]
        idx = render(ini[0].call_args()[1]) if len(ini[0].call_args()) > 1 else ""
        looped = None
        lp9 = next((a for a in ini[0].ancestors() if a.k in ("ForStmt", "WhileStmt")), None)
        if lp9 is not None:
            # growth by more than one slot: every new slot [old capacity, new capacity) goes through initialize()
            sh9 = _loops.index_shape(lp9)
            caps = [render(r2) for l2, r2, st2, k2 in query.stores(k) if k2 == "=" and r2 is not None and render(l2).endswith("alloc_length")]
            olds = set([x for x in ("kf->alloc_length",)])
            for l2, r2, st2 in k.assignments():
                if r2 is not None and render(r2).endswith("alloc_length") and isinstance(l2, dict):
                    olds.add(l2["name"])
            if sh9.ok and sh9.step > 0 and sh9.cmp == "<" and idx == sh9.var and sh9.start in olds and (sh9.bound in caps or sh9.bound.endswith("alloc_length")):
                looped = "initialize(kf, %s) for %s" % (idx, sh9.describe())
        if looped:
            ctx.ok("H4", "key_file_append initialises the slot it adds", ini[0].where, looped + ": every slot from the old to the new capacity")
        elif not bad and ("alloc_length - 1" in idx or any(
                k2 == "=" and r2 is not None and render(l2).endswith("->alloc_length") and render(r2) + " - 1" == idx and cfg.node_dominates(st2, ini[0])
                and len([1 for l3, r3, st3 in k.assignments() if isinstance(l3, dict) and l3["name"] == render(r2)]) == 1
                for l2, r2, st2, k2 in query.stores(k))):
            ctx.ok("H4", "key_file_append initialises the slot it adds", ini[0].where, "initialize(kf, %s) on every path from the realloc to success" % idx)
        elif not bad and idx.endswith("->length - 1"):
            ctx.inconclusive("H4", "key_file_append initialises the slot it adds", ini[0].where, "initialize(kf, %s): the last entry in use, which is the new slot only when the array was full" % idx)
        else:
            ctx.fail("H4", "key_file_append initialises the slot it adds", re[0].where,
                     "the array grows without initialize() of the new last slot (index %s)" % idx, key="append-init")
    else:
        ctx.inconclusive("H4", "key_file_append initialises the slot it adds", k.where, "growth idiom not recognised")
    # econf_file objects are zero-allocated
    n = 0
    for f in prog.lib_functions():
        for c in f.calls(("malloc", "calloc")):
            txt = render(c)
            if "sizeof(econf_file)" in txt or "sizeof(struct econf_file)" in txt:
                n += 1
                if c.j.get("callee") == "calloc":
                    ctx.ok("H4", "%s: econf_file object zero-initialised" % f.name, c.where, "calloc")
                elif _all_fields_assigned(prog, f, c):
                    ctx.ok("H4", "%s: econf_file object zero-initialised" % f.name, c.where,
                           "malloc, and every member of the object is assigned before the function can succeed")
                else:
                    ctx.fail("H4", "%s: econf_file object zero-initialised" % f.name, c.where,
                             "malloc'ed object: fields not assigned afterwards (groups, conf_dirs, root_prefix ...) are garbage for econf_freeFile",
                             key="malloc-object:%s" % f.name)
    ctx.floor("C20 econf_file allocation sites", n, 1)


def _all_fields_assigned(prog, f, alloc):
    """A malloc()ed econf_file whose every member gets a value of its own (one member-wise assignment each, or an assignment of a
    whole record literal, which names or zeroes every member) in a block every successful return is dominated by."""
    cfg = f.cfg
    fields = [x["name"] for x in prog.record("econf_file")["fields"]]
    up = alloc.up()
    while up is not None and up.k in ("ImplicitCastExpr", "CStyleCastExpr", "ParenExpr"):
        up = up.up()
    var = None
    if up is not None and up.k == "BinaryOperator" and up.j.get("op") == "=":
        var = render(up.children[0])
    elif up is not None and up.k == "DeclStmt":
        var = next((d.get("name") for d in up.j.get("decls", []) if d.get("init", -1) >= 0), None)
    if not var:
        return False
    succ = [r for r in f.returns() if query.returned_constant(r) in ("ECONF_SUCCESS", 0)]
    if not succ:
        return False
    have = {}
    for l2, r2, st2, k2 in query.stores(f):
        m = l2.strip()
        if k2 == "=" and m.k == "MemberExpr" and m.j.get("rec") == "econf_file" and r2 is not None and (
                render(m.children[0]).strip("()*") == var.strip("()*") or (m.children[0].strip().k == "DeclRefExpr" and m.children[0].strip().j.get("name") == var)):
            if all(cfg.dominates(cfg.block_of(st2), cfg.block_of(r)) for r in succ) and cfg.node_dominates(alloc, st2):
                have[m.j.get("member")] = st2
    return all(x in have for x in fields)


def h4_capacity(prog, ctx):
    """H4 (capacity): econf_freeFile and the append path treat every slot below alloc_length as set up (they free its strings).  So
    wherever a function gives an object a capacity, the slots up to it are filled: the capacity is the number of entries just
    stored (alloc_length == length), or the surplus slots are passed through initialize()."""
    from sa import loops as _loops
    n = 0
    for f in prog.lib_functions():
        sts = [(lhs, rhs, st, kind) for lhs, rhs, st, kind in query.stores(f)
               if lhs.strip().k == "MemberExpr" and lhs.strip().j.get("member") == "alloc_length" and lhs.strip().j.get("rec") == "econf_file"]
        if not sts:
            continue
        ctx.touch(f)
        cfg = f.cfg
        for lhs, rhs, st, kind in sts:
            n += 1
            obj = render(lhs.strip().children[0])
            inst = "%s: %s" % (f.name, render(st)[:60])
            inits = [c for c in f.calls("initialize") if c.call_args() and render(c.call_args()[0]).lstrip("*(").rstrip(")") == obj.lstrip("*(").rstrip(")")]
            if kind != "=":
                # alloc_length++ : the new last slot is initialised
                sep = "->" if lhs.strip().j.get("arrow") else "."
                good = [c for c in inits if render(c.call_args()[1]).replace(" ", "") in ("%s%salloc_length-1" % (obj, sep),) and cfg.node_dominates(st, c)]
                if good:
                    ctx.ok("H4", inst, st.where, "the slot added is passed to initialize()")
                else:
                    ctx.fail("H4", inst, st.where, "the capacity grows but the new slot is not passed to initialize(): econf_freeFile() releases whatever "
                             "its string fields happen to hold", key="capacity:%s" % f.name)
                continue
            if rhs is None:
                continue
            if rhs.const_value() == 0:
                ctx.ok("H4", inst, st.where, "no slot at all")
                continue
            # the capacity counted up by one through a local: `n = kf->alloc_length + 1; kf->alloc_length = n; .. initialize(kf, n - 1)`
            r8 = rhs.strip()
            if r8.k == "DeclRefExpr" and r8.j.get("dk") == "local":
                sep8 = "->" if lhs.strip().j.get("arrow") else "."
                d8 = [r2 for l2, r2, st2 in f.assignments() if isinstance(l2, dict) and l2["name"] == r8.j["name"]]
                if len(d8) == 1 and d8[0] is not None and render(d8[0]).replace(" ", "") == "%s%salloc_length+1" % (obj, sep8):
                    good8 = [c for c in inits if render(c.call_args()[1]).replace(" ", "") in ("%s%salloc_length-1" % (obj, sep8), "%s-1" % r8.j["name"])
                             and cfg.node_dominates(st, c)]
                    if good8:
                        ctx.ok("H4", inst, st.where, "the capacity grows by one (%s) and the slot added is passed to initialize()" % render(d8[0]))
                        continue
            # the value stored as length by the same function
            lens = [render(r2) for l2, r2, st2, k2 in query.stores(f) if k2 == "=" and r2 is not None and l2.strip().k == "MemberExpr"
                    and l2.strip().j.get("member") == "length" and render(l2.strip().children[0]) == obj]
            sep = "->" if lhs.strip().j.get("arrow") else "."
            r9 = rhs.strip()
            pre_inc = r9.k == "UnaryOperator" and r9.j.get("op") == "++" and not r9.j.get("postfix", False) and render(r9.children[0]) == "%s%slength" % (obj, sep)
            # capacity = length + 1 with the count stepped right after (`cap = length + 1; ... return &array[length++];`)
            post_inc = render(rhs) == "%s%slength + 1" % (obj, sep) and any(
                k2 == "++" and st2.j.get("op") == "++" and render(l2) == "%s%slength" % (obj, sep) and f.cfg.must_pass(st, st2) is not None and (
                    f.cfg.block_of(st2) in f.cfg.reachable(f.cfg.block_of(st))) for l2, r2, st2, k2 in query.stores(f))
            if render(rhs) in lens or render(rhs) == "%s%slength" % (obj, sep) or pre_inc or post_inc:
                ctx.ok("H4", inst, st.where, "capacity = number of entries stored (%s)" % render(rhs))
                continue
            # surplus slots initialised by a loop over [.., capacity)
            covered = False
            for c in inits:
                lp = next((a for a in c.ancestors() if a.k in ("ForStmt", "WhileStmt")), None)
                if lp is None:
                    continue
                sh = _loops.index_shape(lp)
                if sh.ok and sh.step > 0 and (sh.cmp == "<" or (sh.cmp == "!=" and sh.step == 1 and str(sh.start) == "0")) and render(c.call_args()[1]) == sh.var and (
                        sh.bound == render(rhs) or _loops.same_count(lp, sh.bound, "%s%salloc_length" % (obj, sep)) or sh.bound.replace("(", "").replace(")", "") == ("%s%salloc_length" % (obj, sep)).replace("(", "").replace(")", "")
                        or (getattr(sh, "bound_node", None) is not None and sh.bound_node.const_value() is not None and sh.bound_node.const_value() == rhs.const_value())):
                    covered = True
                # the bound as a plain constant expression
                cond = lp.child("cond")
                if not covered and sh.ok and cond is not None and rhs.const_value() is not None:
                    for x in cond.walk():
                        if x.is_expr() and x.const_value() == rhs.const_value() and render(c.call_args()[1]) == sh.var:
                            covered = True
            if not covered:
                # the surplus slots cleared field by field: a loop up to the new capacity that stores NULL into every string field
                strfields = set(x["name"] for x in prog.record("file_entry")["fields"] if x.get("ct") in ("char *", "const char *"))
                for lp in f.walk():
                    if lp.k not in ("ForStmt", "WhileStmt"):
                        continue
                    sh = _loops.index_shape(lp)
                    if not (sh.ok and sh.step > 0 and sh.cmp == "<" and sh.bound == render(rhs)):
                        continue
                    cleared = set()
                    for l3, r3, st3, k3 in query.stores(f):
                        if st3.within(lp) and r3 is not None and r3.is_null_const() and l3.strip().k == "MemberExpr" and l3.strip().j.get("rec") == "file_entry" \
                                and render(l3.strip().children[0]).endswith("[%s]" % sh.var):
                            cleared.add(l3.strip().j.get("member"))
                    if strfields <= cleared and ("alloc_length" in sh.start or "length" in sh.start):
                        covered = "cleared"
            if covered == "cleared":
                ctx.ok("H4", inst, st.where, "the slots from the old to the new capacity get NULL in every string field: nothing in them to release")
            elif covered:
                ctx.ok("H4", inst, st.where, "every slot below the capacity is passed to initialize()")
            else:
                ctx.fail("H4", inst, st.where,
                         "the object is given the capacity `%s` while the slots actually filled are %s: the slots in between hold whatever malloc() "
                         "returned, and econf_freeFile() / the append path free their string fields" % (render(rhs), lens or "unknown"),
                         key="capacity:%s" % f.name)
    ctx.counts["H4 capacity stores"] = n


def h8_lists_filled(prog, ctx):
    """H8: a NULL-terminated list of strings that is malloc()ed (not calloc()ed) for N + 1 slots holds a pointer of its own in every slot
    below its terminator before anyone walks it (econf_freeArray() frees every slot up to the first NULL): the filling loop stores into
    slot i in every round of 0 <= i < N and the terminator stands at N - or the terminator stands at the fill counter."""
    from rules.C01 import enclosing_loop as _el
    n = 0
    for f in prog.lib_functions():
        cfg = f.cfg
        for c in f.calls("malloc"):
            up = c.up()
            while up is not None and up.k in ("CStyleCastExpr", "ImplicitCastExpr", "ParenExpr"):
                up = up.up()
            if up is None or not (up.k == "BinaryOperator" and up.j.get("op") == "=" or up.k == "DeclStmt"):
                continue
            arr = render(up.children[0]) if up.k == "BinaryOperator" else up.j["decls"][0]["name"]
            size = render(c.call_args()[0])
            m = re.search(r"sizeof\(char \*\) \* \((.+) \+ (\d+)\)|\((.+) \+ (\d+)\) \* sizeof\(char \*\)", size)
            if not m:
                continue
            N = m.group(1) or m.group(3)
            n += 1
            inst = "%s: list %s = malloc(%s)" % (f.name, arr, size[:50])
            fills, terms = [], []
            for lhs, rhs, st, kind in query.stores(f):
                l0 = lhs.strip()
                if kind == "=" and l0.k == "ArraySubscriptExpr" and render(l0.children[0]) == arr and rhs is not None and cfg.node_dominates(c, st):
                    (terms if rhs.is_null_const() else fills).append((st, l0.children[1]))
            loopfills = [(st, ix) for st, ix in fills if _el(st) is not None and ix.const_value() is None]
            if not loopfills:
                ctx.ok("H8", inst, c.where, "slots filled one by one (%d stores), terminator stores %d" % (len(fills), len(terms)))
                continue
            verdict = None
            for st, ix in loopfills:
                lp = _el(st)
                sh = loops.for_shape(lp) if lp.k == "ForStmt" else None
                hb = cfg.loop_header(lp)
                every_round = cfg.every_round_passes(hb, cfg.block_of(st))
                if sh is not None and sh.ok and loops.covers_range(sh, 0, N) and render(ix) == sh.var and every_round:
                    if any(render(tx) == N for _, tx in terms):
                        verdict = verdict or ("ok", "slot i written in every round of %s, terminator at %s" % (sh.describe(), N))
                    else:
                        verdict = ("unknown", "terminator not found at %s" % N)
                    continue
                # a fill counter of its own: the terminator must stand at that counter, after the loop
                it = render(ix).replace("++", "")
                cnt_ok = [tx for tst, tx in terms if render(tx) == it and cfg.block_of(tst) not in cfg.natural_loop(hb)]
                if cnt_ok:
                    verdict = verdict or ("ok", "terminator at the fill counter `%s`" % it)
                elif any(render(tx) == N for _, tx in terms):
                    verdict = ("fail", "the terminator stands at `%s`, but slot `%s` is filled %s: the slots between the last one filled and the terminator hold "
                                       "whatever malloc() returned, and econf_freeArray() hands them to free()" % (
                                           N, render(ix), "only in some rounds" if not every_round else "by a counter of its own"))
                else:
                    verdict = ("unknown", "fill index %s / terminators %s" % (render(ix), [render(tx) for _, tx in terms]))
            if verdict[0] == "ok":
                ctx.ok("H8", inst, c.where, verdict[1])
            elif verdict[0] == "fail":
                ctx.fail("H8", inst, loopfills[0][0].where, verdict[1], key="list-holes:%s:%s" % (f.name, arr))
            else:
                ctx.inconclusive("H8", inst, c.where, verdict[1])
    ctx.counts["H8 malloc'ed string lists"] = n


TEXT_FIELDS_OWNED = ("key", "value", "comment_before_key", "comment_after_value")


def h9_replaced_text_released(prog, ctx):
    """H9: an entry owns the strings its text fields point to.  Where a field of an EXISTING entry is given a new string (assignment, or
    asprintf(&field, ...)), the old one is released: free(field) before, or saved in a local that is freed afterwards on every way on,
    or the field is known to be NULL there.  Slots that the function has just created (array grown / counted up, a local struct value,
    a freshly allocated object, the slot constructor initialize()) have nothing to release."""
    n = 0
    for f in prog.lib_functions():
        if f.name in ("initialize",):
            continue
        cfg = f.cfg
        sites = []
        for lhs, rhs, st, kind in query.stores(f):
            l0 = lhs.strip()
            if kind == "=" and l0.k == "MemberExpr" and l0.j.get("rec") == "file_entry" and l0.j.get("member") in TEXT_FIELDS_OWNED:
                sites.append((st, l0, "assign"))
        for c in f.calls(("asprintf", "vasprintf")):
            a0 = c.call_args()[0].strip() if c.call_args() else None
            if a0 is not None and a0.k == "UnaryOperator" and a0.j.get("op") == "&":
                t0 = a0.children[0].strip()
                if t0.k == "MemberExpr" and t0.j.get("rec") == "file_entry" and t0.j.get("member") in TEXT_FIELDS_OWNED:
                    sites.append((c, t0, "asprintf"))
        if not sites:
            continue
        # is the slot fresh in this function?
        grows = [c for c in f.calls(("realloc", "calloc", "malloc")) if "file_entry" in render(c) or "sizeof(econf_file)" in render(c)]
        counts_up = [st for l, r, st, k in query.stores(f) if k == "++" and render(l).endswith("length")]
        nomem = set(cfg.block_of(r) for r in f.returns(inlined=True) if query.returned_constant(r) == "ECONF_NOMEM" or (r.children and r.children[0].is_null_const())
                    or (r.children and "ECONF_NOMEM" in render(r.children[0])))
        for site, fld, how in sites:
            path = render(fld)
            base = fld.children[0].strip()
            root = base
            while root.k in ("ArraySubscriptExpr", "MemberExpr", "UnaryOperator", "ParenExpr", "ImplicitCastExpr") and root.children:
                root = root.children[0].strip()
            if base.k == "DeclRefExpr" and base.j.get("dk") == "local" and not (base.j.get("ct") or "").endswith("*"):
                continue                                        # a local struct value being filled
            if root.k == "DeclRefExpr" and root.j.get("dk") == "local":
                continue                                        # reached through a local pointer (a slot a helper handed back, a freshly grown array): not followed
            if how == "assign" and query.is_slot_init(site):
                continue                                        # a run of new slots being cleared
            fresh = any(cfg.block_of(site) in cfg.reachable(cfg.block_of(g)) for g in grows + counts_up) and ("length - 1" in path or "length]" in path)
            if fresh:
                continue
            n += 1
            sb = cfg.block_of(site)
            inst = "%s: %s %s" % (f.name, path[:50], "= ..." if how == "assign" else "<- asprintf")
            # (a) free(field) in front, nothing stored into it since
            frees = [c for c in f.calls("free") if c.call_args() and render(c.call_args()[0]) == path and cfg.node_dominates(c, site)]
            if not frees:
                # `if (field) free(field);` - every way to the site passes the free or the edge on which the field is NULL
                fbs = set(cfg.block_of(c) for c in f.calls("free") if c.call_args() and render(c.call_args()[0]) == path)
                succ9 = {(b9, i9): t9 for (b9, i9, t9) in cfg.edges()}
                if fbs:
                    okf, cutf = cfg.all_paths_cut(sb, lambda lit, b, i: succ9.get((b, i)) in fbs or b in fbs or (
                        lit is not None and ((lit.kind == "truth" and not lit.pol and lit.atom == path) or (
                            lit.kind == "eq" and lit.pol and path in (render(lit.lhs), render(lit.rhs)) and 0 in (lit.lhs.const_value(), lit.rhs.const_value())))))
                    if okf and cutf:
                        frees = [c for c in f.calls("free") if cfg.block_of(c) in fbs]
            # (c) the field is known to be NULL
            req = cfg.required_literals(sb)
            empty = any(l is not None and ((l.kind == "truth" and not l.pol and l.atom == path) or (l.kind == "eq" and l.pol and path in (render(l.lhs), render(l.rhs)) and
                                           0 in (l.lhs.const_value(), l.rhs.const_value()))) for l in req)
            # (b) saved in a local that is freed on every way on
            saved = None
            for l2, r2, st2 in f.assignments():
                if r2 is not None and render(r2) == path and cfg.node_dominates(st2, site):
                    v = l2["name"] if isinstance(l2, dict) else render(l2)
                    if empty is False:
                        empty = any(l is not None and ((l.kind == "truth" and not l.pol and l.atom == v) or (l.kind == "eq" and l.pol and v in (render(l.lhs), render(l.rhs)) and
                                                       0 in (l.lhs.const_value(), l.rhs.const_value()))) for l in req)
                    fb = [cfg.block_of(c) for c in f.calls("free") if c.call_args() and render(c.call_args()[0]) == v and (
                        cfg.block_of(c) in cfg.reachable(sb))]
                    if fb:
                        lp = next((a for a in site.ancestors() if a.k in ("ForStmt", "WhileStmt", "DoStmt")), None)
                        targets = [cfg.exit] + ([cfg.loop_header(lp)] if lp is not None and cfg.loop_header(lp) is not None else [])
                        reach = cfg.reachable(sb, avoid_blocks=[b for b in fb if b != sb] + list(nomem))
                        same_block_after = sb in fb
                        if same_block_after or not any(t in reach and t != sb for t in targets):
                            saved = v
            if frees:
                ctx.ok("H9", inst, site.where, "free(%s) before" % path[:40])
            elif saved:
                ctx.ok("H9", inst, site.where, "old text saved in `%s`, which is freed on every way on" % saved)
            elif empty:
                ctx.ok("H9", inst, site.where, "the field is known to be NULL here")
            else:
                ctx.fail("H9", inst, site.where,
                         "the entry's old `%s` is overwritten without being released: every such replacement (a repeated key with JOIN_SAME_ENTRIES, a continuation "
                         "line, a second set of the same key) leaks the previous text" % fld.j.get("member"), key="replace-leak:%s:%s" % (f.name, fld.j.get("member")))
    ctx.floor("C20.H9 replacements of an entry's text", n, 10)


LIST_LVALUES = (r"->parse_dirs$", r"->conf_dirs$", r"->groups$", r"^\*keys$", r"^\*groups$", r"^conf_dirs$", r"^configure_dirs$", r"^parse_dirs$")


def h10_lists_terminated(prog, ctx):
    """H10: the string lists of the library (parse_dirs, conf_dirs, groups, the key and group lists handed to the caller) end with a NULL
    slot - econf_freeArray() and every caller walk them up to it.  Where such a list is allocated there is room for that slot (count + 1
    or more), and where the memory does not come zeroed (malloc, realloc) the NULL is stored."""
    n = 0
    for f in prog.lib_functions():
        cfg = f.cfg
        for c in f.calls(("malloc", "calloc", "realloc")):
            up = c.up()
            while up is not None and up.k in ("CStyleCastExpr", "ImplicitCastExpr", "ParenExpr"):
                up = up.up()
            if up is None:
                continue
            if up.k == "BinaryOperator" and up.j.get("op") == "=":
                lv = render(up.children[0])
            elif up.k == "DeclStmt":
                lv = up.j["decls"][0]["name"]
            else:
                continue
            if not any(re.search(pat, lv) for pat in LIST_LVALUES):
                continue
            a = c.call_args()
            size = a[0] if c.j["callee"] != "realloc" else a[1]
            t = render(size)
            if c.j["callee"] == "calloc":
                t = render(a[0])
                cnt = t
            else:
                m9 = re.fullmatch(r"sizeof\(char \*\) \* \((.+)\)|\((.+)\) \* sizeof\(char \*\)|sizeof\(char \*\)", t)
                if not m9:
                    continue
                cnt = m9.group(1) or m9.group(2) or "1"
            n += 1
            inst = "%s: list %s" % (f.name, lv[:40])
            cv = None
            try:
                cv = int(cnt)
            except ValueError:
                pass
            m2 = re.search(r"\+ ?(\d+)\)?$", cnt.strip())
            pre_inc = "++" in cnt
            room = (cv is not None and cv >= 1) or (m2 is not None and int(m2.group(1)) >= 1)
            if not room and not pre_inc:
                ctx.fail("H10", inst + " has room for its terminator", c.where,
                         "allocated for `%s` slots: none is left for the terminating NULL - whoever walks the list (econf_freeArray(), the caller) reads behind it" % cnt,
                         key="list-room:%s:%s" % (f.name, lv))
                continue
            if c.j["callee"] == "calloc":
                ctx.ok("H10", inst + " is terminated", c.where, "calloc(%s, ..): the slot behind the members is NULL" % cnt)
                continue
            base = lv
            nul = [st for l2, r2, st, k2 in query.stores(f) if k2 == "=" and r2 is not None and (r2.is_null_const() or r2.const_value() == 0)
                   and l2.strip().k == "ArraySubscriptExpr" and render(l2.strip().children[0]) in (base, "(" + base + ")")
                   and (cfg.block_of(st) in cfg.reachable(cfg.block_of(c)))]
            if nul:
                ctx.ok("H10", inst + " is terminated", nul[0].where, render(nul[0])[:60])
            else:
                ctx.fail("H10", inst + " is terminated", c.where,
                         "after %s(%s) no NULL is stored into the list: its last slot holds what the allocator returned, and the list is walked (and freed) behind its "
                         "members" % (c.j["callee"], t[:40]), key="list-terminator:%s:%s" % (f.name, lv))
    ctx.floor("C20.H10 list allocations", n, 6)


def h11_new_objects_start_empty(prog, ctx):
    """H11: a new object holds nothing: no entries in use, no directory lists, no sections - the counts a creator stores are 0 (its lists NULL),
    and its capacity is the number of slots it allocates and initialises.  A count of 1 with a NULL list, or a `length` equal to the capacity
    with slots nobody filled, sends econf_freeFile() and every reader into memory that holds nothing of theirs."""
    for name in ("econf_newKeyFile", "econf_newKeyFile_with_options"):
        if not prog.has_fn(name):
            continue
        f = prog.fn(name)
        ctx.touch(f)
        cfg = f.cfg
        first_loop = next((x for x in f.walk() if x.k in ("ForStmt", "WhileStmt", "DoStmt")), None)
        for fld in ("length", "parse_dirs_count", "conf_count", "group_count"):
            sts = [(st, rhs) for lhs, rhs, st, kind in query.stores(f) if kind == "=" and lhs.strip().k == "MemberExpr" and lhs.strip().j.get("member") == fld
                   and lhs.strip().j.get("rec") == "econf_file" and rhs is not None and (first_loop is None or not st.within(first_loop))
                   and (first_loop is None or cfg.block_of(st) not in cfg.reachable(cfg.loop_header(first_loop) or cfg.entry) or fld == "length")]
            sts = [(st, rhs) for st, rhs in sts if not any(a.k in ("ForStmt", "WhileStmt", "DoStmt") for a in st.ancestors())]
            if fld != "length":
                sts = [(st, rhs) for st, rhs in sts if rhs.const_value() is not None]
            bad = [(st, rhs) for st, rhs in sts if rhs.const_value() != 0]
            if bad:
                ctx.fail("H11", "%s: a new object has %s == 0" % (name, fld), bad[0][0].where,
                         "`%s`: the object starts with a count that nothing backs" % render(bad[0][0])[:60], key="new-count:%s:%s" % (name, fld))
            elif sts:
                ctx.ok("H11", "%s: a new object has %s == 0" % (name, fld), sts[0][0].where, render(sts[0][0])[:50])
        caps = [(st, rhs) for lhs, rhs, st, kind in query.stores(f) if kind == "=" and lhs.strip().k == "MemberExpr" and lhs.strip().j.get("member") == "alloc_length"
                and rhs is not None and not any(a.k in ("ForStmt", "WhileStmt", "DoStmt") for a in st.ancestors())]
        allocs = [c for c in f.calls(("malloc", "calloc")) if "struct file_entry" in render(c)]
        if allocs:
            want = None
            m9 = re.search(r"(\w+) \* sizeof\(struct file_entry\)|sizeof\(struct file_entry\) \* (\w+)", render(allocs[0]))
            if m9:
                want = m9.group(1) or m9.group(2)
            wv = None
            for x in allocs[0].walk():
                if x.is_expr() and render(x) == want:
                    wv = x.const_value()
            good = [1 for st, rhs in caps if render(rhs) == want or (wv is not None and rhs.const_value() == wv)]
            if caps and good and all(render(rhs) == want or (wv is not None and rhs.const_value() == wv) or rhs.const_value() == 0 for st, rhs in caps):
                ctx.ok("H11", "%s: the capacity is the number of slots allocated" % name, caps[0][0].where, "alloc_length = %s, array of %s entries" % (render(caps[0][1]), want))
            elif not caps:
                ctx.fail("H11", "%s: the capacity is the number of slots allocated" % name, allocs[0].where,
                         "an array of %s entries is allocated but `alloc_length` is never set to it: the object believes it has no room, and its slots are never released" % want,
                         key="new-capacity:%s" % name)
            else:
                ctx.fail("H11", "%s: the capacity is the number of slots allocated" % name, caps[0][0].where,
                         "alloc_length = %s, but the array has %s entries" % (render(caps[0][1]), want), key="new-capacity:%s" % name)


def run(prog, ctx):
    h8_lists_filled(prog, ctx)
    h11_new_objects_start_empty(prog, ctx)
    h10_lists_terminated(prog, ctx)
    h9_replaced_text_released(prog, ctx)
    # H7: the directory lists of an object are released by the code that replaces them only when their count says they exist: an
    # allocated list always has at least one member, i.e. every round of the option parser's splitting loop stores one (= C15.O11)
    # H6: the object a merge hands out is nobody else's (= C03.M0)
    from rules import C03 as _C03
    common.import_obligations(ctx, prog, [_C03.m0_result_is_fresh], "H6", what="result of the merge")
    from rules import C15 as _C15
    common.import_obligations(ctx, prog, [_C15.o11_list_members], "H7", "an allocated list is never counted as absent: ", what="splitting of the option lists")
    names = [n for n in own_rules.LIB_FUNCS if prog.has_fn(n)]
    missing = [n for n in own_rules.LIB_FUNCS if not prog.has_fn(n)]
    # a static anchor that disappeared lives on inside its callers (virtual inlining); only exported ones are missed
    missing = [n for n in missing if n not in common.static_anchors()]
    if missing:
        ctx.inconclusive("H1", "functions under the typestate", "", "anchor(s) vanished: %s" % missing)
    total_exits = 0
    for n in names + own_rules.accessor_macros(prog):
        a = own_rules.analyse(prog, n)
        total_exits += len(a.exit_states)
        own_rules.report(ctx, "H1", n, a)
    own_rules.rederive_gate_summary(prog, ctx, "H1")
    own_rules.history_array_rules(prog, ctx, "H1")
    ctx.counts["exit states explored"] = total_exits
    ctx.floor("C20 functions under the typestate", len(names), 25)
    h3(prog, ctx)
    h4(prog, ctx)
    h4_capacity(prog, ctx)
    # H5 = C18.T4
    from rules import C18
    before = len(ctx.obs)
    sub = type(ctx)(ctx.prop, ctx.tier, prog)
    C18.run(prog, sub)
    for ob in sub.obs:
        if ob.rule == "T4":
            ob.rule = "H5"
            ctx.obs.append(ob)
