"""C05 - a commented-out line is inert whatever it contains.

K1  a line is classified as a comment line by its FIRST NON-BLANK character and nothing else:
    every path to the code that records a before-key comment carries a membership test of
    *name in the comment set, name being the pointer advanced over leading blanks.
K2  once classified, the iteration ends without any path to store()/setGroupList()/an error exit.
K3  nothing is stored and no error raised for a line unless the comment test said "no".
K4  the comment set the parser works with is never empty: an empty set given by the caller is replaced by the default
    at the one place every file passes (the gate), not in some of the entry points.
K6  a further physical line is read in a round only after the comment test said no.   K7  lines are read whole (getline).
K8  the merge takes no decision on an entry's comments.
K5  comment text never flows into a key, a value or a section name (nor the other way round): every string written into
    field F of an entry by the parser unit stems from field F of an entry / the parameter or pending buffer of that kind."""
from sa.ast import render
from sa.facts import Inconclusive
from sa import query
from sa.dataflow import ReachingDefs, origins
from rules import parser

META = {
    "level": "other",
    "technique": "static analysis: must-pass-through of the comment-line guard (edge-cut reachability on the line loop's CFG), "
                 "reaching definitions for the guard's operands, forward reachability from the comment branch",
    "level_text": "Decides the classification rule (first non-blank character, membership in the comment set) and that a classified "
                  "line reaches no store / section / continuation / error code, for every line text and every neighbouring line, "
                  "because both are facts about all paths of the line loop. Not decided: that inserting such lines leaves neighbouring "
                  "entries unchanged in every other respect (the pending-comment buffers change by design).",
    "level_note": "Partial. Trusted: clang front end/CFG, sa/cfg.py, sa/dataflow.py.",
    "explanation": "guard shape + inertness of the comment-line branch",
    "trusted_base": ["clang-14 front end and CFG", "sa/cfg.py", "sa/dataflow.py"],
    "assumptions": [],
}

SINKS = ("store", "setGroupList")


def _pending_defs(L, var):
    """statements that record text into the pending buffer `var` (strdup / asprintf), not the resets"""
    f = L.fn
    out = []
    for lhs, rhs, st in f.assignments():
        if isinstance(lhs, dict):
            continue
        if render(lhs) == var and not rhs.is_null_const() and st.within(L.loop):
            # putting the buffer's own earlier value back (saved in a local before a re-allocation that failed) records nothing
            r0 = rhs.strip()
            if r0.k == "DeclRefExpr" and r0.j.get("dk") == "local":
                saves = [r2 for l2, r2, s2 in f.assignments() if (l2["name"] if isinstance(l2, dict) else render(l2)) == r0.j["name"]
                         and (not isinstance(l2, dict) or l2.get("did") in (None, r0.j.get("did")))]
                if saves and all(r2 is not None and render(r2.strip()) == var for r2 in saves):
                    continue
            out.append(st)
    for c in f.calls(("asprintf", "vasprintf")):
        if c.within(L.loop) and c.call_args():
            a = c.call_args()[0].strip()
            if a.k == "UnaryOperator" and a.j.get("op") == "&" and render(a.children[0]) == var:
                out.append(c)
    return out


def k9_tool_reads(prog, ctx):
    """K9: the tool, too, parses with the whole comment set it was given (= C19.U4b): its re-read of an edited file is a parse like any other"""
    try:
        from rules import C19 as _C19
        _C19.u4b_every_read_with_the_options(prog, ctx, rule="K9")
        # ... and the comment set the user names on the command line is the one the tool uses (--comment is an option of its own, = C19.U13)
        _C19.u13_option_table(prog, ctx, rule="K9")
    except Inconclusive as e:
        ctx.inconclusive("K9", "the tool reads with the comment set it was given", "", str(e))


def run(prog, ctx):
    k9_tool_reads(prog, ctx)
    # K10: inserting or deleting a comment line must not change what the lines around it mean - in particular every other line keeps its
    # one role (header, entry, continuation): the round of the line loop ends where the line has been dealt with
    try:
        parser.one_line_one_role(prog, ctx, "K10")
    except Inconclusive as e:
        ctx.inconclusive("K10", "a line plays one role", "", str(e))
    L = parser.landmarks(prog)
    f, cfg = L.fn, L.cfg
    ctx.touch(f)
    rd = ReachingDefs(f)
    recs = _pending_defs(L, L.pending_before)
    if not recs:
        raise Inconclusive("no statement records a before-key comment")
    comment_param = "comment"
    if comment_param not in f.param_names():
        raise Inconclusive("read_file has no `comment` parameter")
    if L.stripped is None:
        ctx.inconclusive("K1", "blank-stripped line pointer", f.where, "no local advanced over leading blanks found")
        return
    name = L.stripped

    def classify(lit):
        """'good' first-non-blank membership, 'last' last-occurrence equality, 'raw' test on the unstripped buffer, None"""
        if lit is None:
            return None
        n = lit.node
        if lit.kind == "truth" and n.k == "CallExpr" and n.j.get("callee") in ("strchr", "memchr", "index") and len(n.call_args()) >= 2:
            a0, a1 = n.call_args()[0], n.call_args()[1]
            if render(a0) == comment_param:
                t = render(a1)
                if t in ("*" + name, name + "[0]"):
                    return "good" if lit.pol else None
                if t in ("*" + L.linebuf, L.linebuf + "[0]"):
                    return "raw" if lit.pol else None
        if lit.kind == "eq" and lit.pol:
            a, b = render(lit.lhs), render(lit.rhs)
            for x, y in ((a, b), (b, a)):
                if x in ("*" + name, name + "[0]") and y.startswith(comment_param + "["):
                    idx = None
                    for yn in (lit.lhs, lit.rhs):
                        ys = yn.strip()
                        if ys.k == "ArraySubscriptExpr":
                            idx = ys.children[1].const_value()
                    return "first-only" if idx is not None else "good"
                if x in ("*" + name, name + "[0]") and (y.endswith("->comment") or y == "*" + comment_param):
                    return "first-only"
                if x in ("*" + L.linebuf, L.linebuf + "[0]") and y.startswith(comment_param + "["):
                    return "raw"
            # pointer equality p == name with p from a search routine
            for x, y, xn in ((a, b, lit.lhs), (b, a, lit.rhs)):
                if y == name and xn.strip().k == "DeclRefExpr":
                    for d in rd.reaching(x, lit.node):
                        if d.rhs is not None and d.rhs.strip().k == "CallExpr":
                            c = d.rhs.strip().j.get("callee")
                            if c == "strrchr":
                                return "last"
                            if c in ("strchr", "strpbrk"):
                                return "first-occurrence"
        return None

    seen_k1 = set()
    for st in recs:
        tb = cfg.block_of(st)
        ok, cut = cfg.all_paths_cut(tb, lambda lit, b, i: classify(lit) == "good", start=L.header)
        inst = "comment line recognised by its first non-blank character (%s)" % render(st)[:50]
        if ok and cut:
            # strchr(set, c) also "finds" c == 0 (the terminator of the set): the test is a membership test only for a character that is
            # there - a blank-only line leaves the cursor on the NUL
            uses_search = any(cfg.edge_lit(b9, i9) is not None and cfg.edge_lit(b9, i9).kind == "truth" and cfg.edge_lit(b9, i9).node.k == "CallExpr"
                              and classify(cfg.edge_lit(b9, i9)) == "good" for (b9, i9) in cut)
            okz, cutz = cfg.all_paths_cut(tb, lambda lit, b, i: lit is not None and lit.pol and lit.kind == "truth" and lit.atom in ("*" + name, name + "[0]"), start=L.header)
            if uses_search and not (okz and cutz):
                if "nul" not in seen_k1:
                    seen_k1.add("nul")
                    ctx.fail("K1", "comment line recognised by its first non-blank character", st.where,
                             "`strchr(%s, *%s)` is taken without `*%s != 0`: for a line of blanks only the cursor stands on the terminating NUL, which strchr() "
                             "finds at the end of every set - the blank line is recorded as a comment line of the next entry" % (comment_param, name, name),
                             key="nul-is-member")
                continue
            ctx.ok("K1", inst, st.where, "every path to this statement carries `*%s in %s`" % (name, comment_param))
            continue
        kinds = set()
        for (b, i, s) in cfg.edges():
            k = classify(cfg.edge_lit(b, i))
            if k and k != "good" and cfg.dominates(b, tb):
                kinds.add((k, cfg.blocks[b].cond.where))
        if ("last", ) and any(k == "last" for k, _ in kinds):
            w = [wh for k, wh in kinds if k == "last"][0]
            if "last" not in seen_k1:
                seen_k1.add("last")
                ctx.fail("K1", "comment line recognised by its first non-blank character", w,
                         "the line counts as a comment line only if the LAST occurrence of the comment character (strrchr) is at its "
                         "start: `#old=1 # disabled` is parsed as key `#old`", key="last-occurrence", path=[st.where])
        elif any(k == "raw" for k, _ in kinds):
            w = [wh for k, wh in kinds if k == "raw"][0]
            if "raw" not in seen_k1:
                seen_k1.add("raw")
                ctx.fail("K1", "comment line recognised by its first non-blank character", w,
                         "the comment test looks at the unstripped buffer `%s`: an indented comment line is not recognised" % L.linebuf,
                         key="raw-buffer")
        elif any(k == "first-only" for k, _ in kinds):
            w = [wh for k, wh in kinds if k == "first-only"][0]
            if "first-only" not in seen_k1:
                seen_k1.add("first-only")
                ctx.fail("K1", "comment line recognised by its first non-blank character", w,
                         "only ONE comment character (the first of the set) is tested: with a set like \"#;\" a line starting with ';' is not a comment line",
                         key="first-char-only")
        elif any(k == "first-occurrence" for k, _ in kinds):
            ctx.inconclusive("K1", inst, st.where, "guard compares the first occurrence pointer with the line start; idiom not armed")
        else:
            ctx.inconclusive("K1", inst, st.where, "guard of the comment-line branch not recognised")

    # ---- K2 inertness ---------------------------------------------------------------------------
    sink_nodes = []
    for c in f.calls(SINKS):
        if c.within(L.loop):
            sink_nodes.append(("call %s()" % c.j["callee"], c))
    for lhs, rhs, st in f.assignments():
        if not isinstance(lhs, dict) and rhs.strip().k == "DeclRefExpr" and rhs.strip().j.get("dk") == "enum" \
                and rhs.strip().j.get("val") != 0 and rhs.strip().j["name"] != "ECONF_NOMEM" and st.within(L.loop):
            sink_nodes.append(("error code %s" % rhs.strip().j["name"], st))
    for r in f.returns():
        if r.within(L.loop) and query.returned_constant(r) not in ("ECONF_NOMEM",):
            sink_nodes.append(("return", r))
    reported = set()
    for st in recs:
        sb = cfg.block_of(st)
        # forward region inside this iteration (do not pass the loop header)
        region = cfg.reachable(sb, avoid_blocks=[L.header])
        hit = None
        for what, n in sink_nodes:
            nb = cfg.block_of(n)
            if nb in region:
                # tolerated only if every path there passes an emptiness test of the STRIPPED line
                ok, cut = cfg.all_paths_cut(nb, lambda lit, b, i: lit is not None and lit.kind == "truth" and not lit.pol
                                            and lit.atom in ("*" + name, name + "[0]"), start=sb)
                region2 = cfg.reachable(sb, avoid_blocks=[L.header], avoid_edges=cut)
                if nb in region2:
                    hit = (what, n, cut)
                    break
        inst = "comment line ends the iteration (%s)" % render(st)[:50]
        if hit is None:
            ctx.ok("K2", inst, st.where, "no store/section/error is reachable before the next getline")
        else:
            what, n, cut = hit
            raw = False
            for (b, i, s) in cfg.edges():
                lit = cfg.edge_lit(b, i)
                if lit is not None and lit.kind == "truth" and lit.atom in ("*" + L.linebuf, L.linebuf + "[0]") and b in region:
                    raw = True
            key = "falls-through"
            if key in reported:
                continue
            reported.add(key)
            wp = cfg.witness_path(cfg.block_of(n), start=sb, avoid_blocks=[L.header])
            ctx.fail("K2", "comment line ends the iteration", n.where,
                     "after a line has been taken as a comment the same iteration can still reach %s%s" % (
                         what, ": the only exit is an emptiness test of the UNSTRIPPED buffer `%s`, which an indented comment line "
                         "survives (it is then appended to the previous value)" % L.linebuf if raw else ""),
                     key=key, path=cfg.describe_path(wp))
    # ---- K3 completeness: nothing is stored / no error raised for a line unless the comment test said "no" ---------
    def not_comment(lit, b, i):
        if lit is None:
            return False
        if classify(lit.negated()) == "good":
            return True                       # membership test false
        return lit.kind == "truth" and not lit.pol and lit.atom in ("*" + name, name + "[0]")   # empty after stripping blanks
    missed = None
    for what, n in sink_nodes:
        nb = cfg.block_of(n)
        ok, cut = cfg.all_paths_cut(nb, not_comment, start=L.header)
        if not ok:
            wp = cfg.witness_path(nb, avoid_edges=cut, start=L.header)
            missed = (what, n, wp)
            break
    if missed is None:
        ctx.ok("K3", "every line is tested for being a comment line before anything is stored", f.where,
               "all %d store / section / error sites are reachable only through the 'not a comment character' edge" % len(sink_nodes))
    else:
        what, n, wp = missed
        ctx.fail("K3", "every line is tested for being a comment line before anything is stored", n.where,
                 "%s is reachable in an iteration without the comment test having said 'no': under that condition a line whose first "
                 "non-blank character is a comment character is treated as data (e.g. appended to the previous value)" % what,
                 key="comment-test-bypassed", path=cfg.describe_path(wp)[-8:])
    ctx.floor("C05 statements recording a before-key comment", len(recs), 1)
    # ---- K6 physical lines are not glued to a comment line: a second line read inside one round of the line loop (line continuation,
    # look-ahead) is reachable only after the comment test on the FIRST NON-BLANK character of the current line said "no"
    readers = [c for c in f.calls(("getline", "getdelim", "fgets")) if c.within(L.loop) and c is not L.getline]
    for c in readers:
        cb = cfg.block_of(c)

        def no_comment_here(lit, b, i):
            if lit is None:
                return False
            neg = lit.negated()
            return classify(neg) == "good"
        ok6, cut6 = cfg.all_paths_cut(cb, no_comment_here, start=cfg.block_of(L.getline))
        raw = False
        for (b, i, s2) in cfg.edges():
            lit = cfg.edge_lit(b, i)
            if lit is None:
                continue
            t = lit.atom
            if ("strchr(%s" % comment_param) in t and ("*" + L.linebuf in t or "**" in t or L.linebuf + "[0]" in t) and cfg.dominates(b, cb):
                raw = True
        inst = "a further line is read only after the comment test on the current one said no"
        if ok6 and cut6:
            ctx.ok("K6", inst, c.where, "every path to this %s() carries `*%s not in %s`" % (c.j["callee"], name, comment_param))
        else:
            ctx.fail("K6", inst, c.where,
                     "another physical line is read and appended within the round%s: a comment line (e.g. an indented one ending in a backslash) swallows the "
                     "line behind it, and the key on that line disappears" % (
                         " under a comment test on the unstripped buffer" if raw else " without the first-non-blank comment test in front"), key="line-glued-to-comment")
    # ---- K7 a physical line is delivered whole: the reader is getline()/getdelim(); with fgets() into a buffer of fixed size the
    # rest of an over-long comment line comes back as a "line" of its own that does not start with a comment character
    rdr = L.getline.j.get("callee")
    if rdr in ("getline", "getdelim"):
        ctx.ok("K7", "a line of any length is read in one piece", L.getline.where, "%s() grows the buffer to the line" % rdr)
    else:
        ctx.fail("K7", "a line of any length is read in one piece", L.getline.where,
                 "%s() delivers at most a buffer-full: the tail of a longer comment line is handed to the classification as a new line and parsed as a key, a "
                 "continuation or an error" % rdr, key="line-in-pieces")
    # ---- K8 whether an entry carries comments decides nothing in the merge: the same value comes out with or without comment lines
    for hn in ("merge_existing_groups", "add_new_groups", "econf_mergeFiles"):
        if not prog.has_fn(hn):
            continue
        h = prog.fn(hn)
        hcfg = h.cfg
        bad8 = None
        for (b, i, s2) in hcfg.edges():
            lit = hcfg.edge_lit(b, i)
            if lit is not None and ("comment_before_key" in lit.atom or "comment_after_value" in lit.atom):
                bad8 = bad8 or hcfg.blocks[b].cond
        if bad8 is not None:
            ctx.fail("K8", "%s: no decision depends on an entry's comments" % hn, bad8.where,
                     "the merge branches on `%s`: an entry preceded by a comment line is merged along another path than the same entry without it (e.g. its empty "
                     "value comes out NULL instead of \"\")" % render(bad8)[:70], key="merge-depends-on-comments:%s" % hn)
        else:
            ctx.ok("K8", "%s: no decision depends on an entry's comments" % hn, h.where, "no branch on comment_before_key / comment_after_value")
    # ---- K8b the same for the join of repeated keys: a test of an entry's comments may decide what happens to COMMENTS only - whether
    # the value of that definition is joined / resets the collection must not depend on a comment line standing in front of it
    if prog.has_fn("join_same_entries"):
        jf = prog.fn("join_same_entries")
        ctx.touch(jf)
        jcfg = jf.cfg
        headers = [jcfg.loop_header(x) for x in jf.walk() if x.k in ("ForStmt", "WhileStmt", "DoStmt")]
        headers = [h9 for h9 in headers if h9 is not None]
        vblocks = set()
        for lhs, rhs, st, kind in query.stores(jf):
            l0 = lhs.strip()
            if l0.k == "MemberExpr" and l0.j.get("rec") == "file_entry" and not l0.j.get("member", "").startswith("comment"):
                vblocks.add(jcfg.block_of(st))
        for c9 in jf.calls(("asprintf", "free")):
            if any(".value" in render(a9) or ".key" in render(a9) for a9 in c9.call_args()):
                vblocks.add(jcfg.block_of(c9))
        bad8 = None
        for (b, i, s2) in jcfg.edges():
            lit = jcfg.edge_lit(b, i)
            if lit is None or not ("comment_before_key" in lit.atom or "comment_after_value" in lit.atom) or len(jcfg.blocks[b].succs) != 2:
                continue
            other = jcfg.blocks[b].succs[1 - i]
            if other is None or s2 is None:
                continue
            r_this = jcfg.reachable(s2, avoid_blocks=headers) & vblocks
            r_other = jcfg.reachable(other, avoid_blocks=headers) & vblocks
            if r_this != r_other:
                bad8 = bad8 or jcfg.blocks[b].cond
        if bad8 is not None:
            ctx.fail("K8", "join_same_entries: what happens to a value does not depend on the entry's comments", bad8.where,
                     "the test `%s` decides whether the value of this definition is processed: the same line joins / resets differently with and without a "
                     "comment line in front of it" % render(bad8)[:80], key="join-depends-on-comments")
        else:
            ctx.ok("K8", "join_same_entries: what happens to a value does not depend on the entry's comments", jf.where,
                   "tests of comment fields guard stores to comment fields only (%d value sites)" % len(vblocks))
    k4(prog, ctx)
    k5(prog, ctx, L)


TEXT_FIELDS = ("group", "key", "value", "comment_before_key", "comment_after_value")


def k5(prog, ctx, L):
    """field purity of the text sinks of the parser unit (join_same_entries, store, and the store() calls of read_file)"""
    n = 0
    for fname in ("join_same_entries", "store"):
        if not prog.has_fn(fname):
            ctx.inconclusive("K5", "%s keeps comment text and value text apart" % fname, "", "anchor vanished")
            continue
        f = prog.fn(fname)
        ctx.touch(f)
        rd = ReachingDefs(f)
        sinks = []      # (field, node at which the text is consumed, [string argument nodes])
        for c in f.calls(("asprintf",)):
            a = c.call_args()
            if not a:
                continue
            dst = a[0].strip()
            if dst.k == "UnaryOperator" and dst.j.get("op") == "&":
                d2 = dst.children[0].strip()
                if d2.k == "MemberExpr" and d2.j.get("member") in TEXT_FIELDS:
                    sinks.append((d2.j["member"], c, [x for x in a[2:] if (x.j.get("ct") or "").endswith("char *")]))
        for lhs, rhs, st, kind in query.stores(f):
            l = lhs.strip()
            if kind == "=" and l.k == "MemberExpr" and l.j.get("member") in TEXT_FIELDS and rhs is not None:
                r = rhs.strip()
                if r.k == "CallExpr" and r.j.get("callee") in ("strdup", "strndup") and r.call_args():
                    sinks.append((l.j["member"], st, [r.call_args()[0]]))
        for field, at, args in sinks:
            n += 1
            bad = None
            for x in args:
                for o in origins(rd, x, at):
                    src = None
                    if isinstance(o, tuple) and o[0] == "expr" and o[1].strip().k == "MemberExpr" and o[1].strip().j.get("member") in TEXT_FIELDS:
                        src = o[1].strip().j["member"]
                    elif isinstance(o, tuple) and o[0] == "param" and o[1] in TEXT_FIELDS:
                        src = o[1]
                    if src is not None and src != field and not (field == "group" or src == "group"):
                        bad = (x, src)
            inst = "%s: text written into .%s" % (fname, field)
            if bad:
                ctx.fail("K5", inst, at.where,
                         "`%s` can hold the entry's %s here (a definition made for another field reaches this use): %s text ends up in the %s" % (
                             render(bad[0]), bad[1], bad[1].replace("_", " "), field.replace("_", " ")), key="field-mix:%s:%s" % (fname, field))
            else:
                ctx.ok("K5", inst, at.where, "all string operands stem from .%s / the `%s` parameter, or are literals" % (field, field))
    # the parser's store() calls: comment slots get the pending comment buffers, key/value slots never do
    st_fn = prog.fn("store") if prog.has_fn("store") else None
    if st_fn is not None:
        pn = st_fn.param_names()
        pend = {"comment_before_key": L.pending_before, "comment_after_value": getattr(L, "pending_after", None)}
        for c in L.fn.calls("store"):
            a = c.call_args()
            n += 1
            probs = []
            for slot in ("key", "value", "group"):
                if slot in pn:
                    t = render(a[pn.index(slot)])
                    for pv in pend.values():
                        if pv and pv in t:
                            probs.append("the %s slot receives the pending comment buffer `%s`" % (slot, pv))
            for slot, pv in pend.items():
                if slot in pn and pv:
                    t = render(a[pn.index(slot)])
                    if t != pv and t != "NULL":
                        probs.append("the %s slot receives `%s`, not the pending buffer `%s`" % (slot, t, pv))
            if probs:
                ctx.fail("K5", "read_file: arguments of store()", c.where, "; ".join(probs), key="store-slots")
            else:
                ctx.ok("K5", "read_file: arguments of store()", c.where, "comment slots = pending comment buffers; key/value slots do not mention them")
    ctx.floor("C05.K5 text sinks", n, 6)


def k4(prog, ctx):
    from rules import common
    g = prog.fn(common.GATE)
    ctx.touch(g)
    cfg = g.cfg
    calls = g.calls(common.PARSER)
    if len(calls) != 1:
        ctx.inconclusive("K4", "the parser never sees an empty comment set", g.where, "%d parser calls in the gate" % len(calls))
        return
    c = calls[0]
    pn = prog.fn(common.PARSER).param_names()
    if "comment" not in pn:
        ctx.inconclusive("K4", "the parser never sees an empty comment set", c.where, "parser has no `comment` parameter")
        return
    arg = c.call_args()[pn.index("comment")].strip()
    inst = "the parser never sees an empty comment set"
    if arg.string_value() is not None:
        if arg.string_value():
            ctx.ok("K4", inst, c.where, "constant set %r" % arg.string_value())
        else:
            ctx.fail("K4", inst, c.where, "the parser is called with the empty set", key="empty-comment-set")
        return
    if arg.k != "DeclRefExpr":
        ctx.inconclusive("K4", inst, c.where, "comment argument `%s` not a variable" % render(arg))
        return
    v = arg.j["name"]
    succ = {(b, i): s2 for (b, i, s2) in cfg.edges()}
    # blocks that give v a non-empty literal
    good_blocks = set()
    other_defs = []
    for lhs, rhs, st, kind in query.stores(g):
        if render(lhs) == v and rhs is not None:
            if rhs.string_value():
                good_blocks.add(cfg.block_of(st))
            else:
                other_defs.append(st)

    def nonempty(lit, b, i):
        if succ.get((b, i)) in good_blocks:
            return True
        return lit is not None and lit.kind == "truth" and lit.pol and lit.atom in ("*" + v, v + "[0]", "strlen(%s)" % v)
    ok, cut = cfg.all_paths_cut(cfg.block_of(c), nonempty)
    if other_defs:
        ctx.inconclusive("K4", inst, other_defs[0].where, "`%s` is redefined by `%s`" % (v, render(other_defs[0])))
    elif ok and cut:
        ctx.ok("K4", inst, c.where, "every path to %s() carries `*%s` or replaces %s by a non-empty literal" % (common.PARSER, v, v))
    else:
        wp = cfg.witness_path(cfg.block_of(c), avoid_edges=cut)
        ctx.fail("K4", inst, c.where,
                 "%s() is reachable with an empty comment set: every entry point that does not replace \"\" itself (the econf_readDirs* family, "
                 "the history variants) parses with NO comment character - `# text` lines become keys or errors" % common.PARSER,
                 key="empty-comment-set", path=cfg.describe_path(wp)[-6:])
