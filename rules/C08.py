"""C08 - typed values survive set/get exactly (conversion tables of writer and reader agree and are exact).

V1 setter directive matches the promoted argument type in width and signedness
V2 float/double: conversion in {g,e,a}, precision >= FLT_DECIMAL_DIG(9) / DBL_DECIMAL_DIG(17)
V3 getter routine returns a type that can hold every T with T's signedness; float->strtof, double->strtod
V4 floating getters refuse on ERANGE only together with an overflow test (glibc sets ERANGE for subnormals too)
V5 every literal the boolean setter stores is recognised by the getter with the same truth value"""
from sa.ast import render
from sa.facts import Inconclusive
from sa import query
from sa.buf import parse_format
from rules import conv
from rules.C09 import _get_label, _set_label

META = {
    "level": "other",
    "technique": "static analysis: conversion-table extraction from the macro-expanded typed accessors (printf directive vs promoted "
                 "argument type, evaluated precision constants, parsing routine and result type), path conditions of the refusal branch",
    "level_text": "Decides that writer and reader tables agree and are exact for every value of each type (width, signedness, "
                  "round-trip precision, acceptance of every text the setter can produce). Not decided: that the text survives "
                  "econf_writeFile + econf_readFile (needs the parser, C02/C07); the produced text contains only [0-9a-z+.-], which no "
                  "delimiter/comment/quote rule touches (stated assumption).",
    "level_note": "Partial. Trusted: clang's constant evaluator for FLT_DECIMAL_DIG/DBL_DECIMAL_DIG, glibc printf/strto* "
                  "round-trip guarantee at DECIMAL_DIG digits (IEEE 754), LP64.",
    "explanation": "writer/reader conversion tables agree and are exact",
    "trusted_base": ["clang-14 front end and constant evaluator", "glibc printf/strto* round-trip at DECIMAL_DIG"],
    "assumptions": ["LP64 Linux", "IEEE 754 binary32/binary64"],
}

DIRECTIVE_FOR = {   # promoted C type -> (length modifier, allowed conversions)
    "int": ("", "di"), "long": ("l", "di"), "long long": ("ll", "di"),
    "unsigned int": ("", "u"), "unsigned long": ("l", "u"), "unsigned long long": ("ll", "u"),
    "double": ("", "gea"),
}
MIN_PREC = {"float": 9, "double": 17}


def fmt_directives(fmt):
    """[(flags, width, precision, length, conv)]"""
    out = []
    i = 0
    while i < len(fmt):
        if fmt[i] != "%":
            i += 1
            continue
        i += 1
        if i < len(fmt) and fmt[i] == "%":
            i += 1
            continue
        flags = ""
        while i < len(fmt) and fmt[i] in "-+ #0'":
            flags += fmt[i]
            i += 1
        width = ""
        while i < len(fmt) and (fmt[i].isdigit() or fmt[i] == "*"):
            width += fmt[i]
            i += 1
        prec = None
        if i < len(fmt) and fmt[i] == ".":
            i += 1
            prec = ""
            while i < len(fmt) and (fmt[i].isdigit() or fmt[i] == "*"):
                prec += fmt[i]
                i += 1
        length = ""
        while i < len(fmt) and fmt[i] in "hlLqjzt":
            length += fmt[i]
            i += 1
        if i < len(fmt):
            out.append((flags, width, prec, length, fmt[i]))
            i += 1
    return out


def v8_generic_macro(prog, ctx):
    """V8: econf_setValue() - the generic macro of the public header - hands a value to the typed setter of its own type.  Decided on a
    witness unit (witness/generic_set.c, one function per documented argument type; compiled by the front end only): the setter clang
    selects for the argument type must take exactly that type, so that no implicit conversion narrows the value on the way."""
    import os
    from sa import facts
    wit = os.path.join(facts.VERIF, "witness", "generic_set.c")
    flags = ["-std=gnu11", "-D_GNU_SOURCE", "-I" + os.path.join(prog.repo, "include")]
    try:
        raw = facts.extract_unit(wit, flags, os.path.dirname(wit))
    except Inconclusive as e:
        ctx.inconclusive("V8", "econf_setValue selects the setter of the argument's type", "include/libeconf.h",
                         "the witness unit does not compile against the header (a documented argument type lost its association?): %s" % str(e)[-300:])
        return
    n = 0
    for fj in raw.get("functions", []):
        if not fj["name"].startswith("w_"):
            continue
        calls = [x for x in fj["nodes"] if x and x.get("k") == "CallExpr" and (x.get("callee") or "").startswith("econf_set")]
        want = (fj["params"][1].get("ct") or "").replace("const ", "").strip()
        if len(calls) != 1:
            ctx.inconclusive("V8", "econf_setValue(%s)" % want, "include/libeconf.h", "no typed setter selected in the witness %s" % fj["name"])
            continue
        n += 1
        callee = calls[0]["callee"]
        try:
            st = prog.fn(callee)
        except Inconclusive:
            ctx.inconclusive("V8", "econf_setValue(%s)" % want, "include/libeconf.h", "selected %s is not a function of the library" % callee)
            continue
        got = (st.params[-1].get("ct") or "").replace("const ", "").strip()
        if got == want:
            ctx.ok("V8", "econf_setValue(%s) selects the setter of that type" % want, st.where, "%s(%s)" % (callee, got))
        else:
            ctx.fail("V8", "econf_setValue(%s) selects the setter of that type" % want, "include/libeconf.h:%s" % callee,
                     "the generic macro sends a `%s` argument to %s(), which takes `%s`: the value is converted silently on the way (an int64_t/uint64_t is "
                     "`long`/`unsigned long` here) and what is read back is not what was set" % (want, callee, got), key="generic:%s" % want)
    ctx.floor("C08 generic-macro witnesses", n, 8)


def run(prog, ctx):
    v8_generic_macro(prog, ctx)
    # V9: a string is stored letter for letter (and under the key name given) - what econf_getStringValue hands back is a copy of that (= C11.A11)
    from rules import C11 as _C11v
    _C11v.a11_names_kept(prog, ctx, "V9")
    from rules import common as _commonv
    _commonv.index_param_rule(prog, ctx, "V9")
    rows = 0
    for sname, gname in conv.SETTERS.items():
        s = prog.fn(sname)
        g = prog.fn(gname)
        ctx.touch(s, g)
        rows += 1
        width, signed, kind = conv.GETTERS[gname]
        fcalls = [c for c in s.calls(("asprintf", "snprintf", "sprintf"))]
        if not fcalls:
            ctx.inconclusive("V1", "%s formatter" % sname, s.where, "no asprintf/snprintf call found")
            continue
        # several formatter calls (alternative notations): each one must write text the getter of the SAME type reads back
        for extra in fcalls[1:] if len(fcalls) > 1 else []:
            efmt = None
            for a in extra.call_args():
                if a.string_value() is not None and "%" in a.string_value():
                    efmt = a.string_value()
            ed = fmt_directives(efmt) if efmt else []
            if kind == "int" and ed:
                cch = ed[0][4]
                if signed and cch in "xXou":
                    ctx.fail("V1", "%s: every notation keeps the sign" % sname, extra.call_args()[0].where if False else extra.where,
                             "format %r writes a signed value with the unsigned conversion %%%s: a negative number is stored as its bit pattern "
                             "(-2 -> 0xfffffffe), which the signed getter refuses or reads as another number" % (efmt, cch), key="directive-sign:%s" % sname)
                elif (not signed) and cch in "di":
                    ctx.fail("V1", "%s: every notation keeps the sign" % sname, extra.where,
                             "format %r writes an unsigned value with %%%s: values above the signed range come out negative" % (efmt, cch), key="directive-sign:%s" % sname)
                else:
                    ctx.ok("V1", "%s: alternative notation %r" % (sname, efmt), extra.where, "conversion %%%s has the type's signedness" % cch)
        call = fcalls[0]
        if len(fcalls) > 1:
            # judge the plain (decimal / %g) form below: the call whose format has no '#'
            plain = [c2 for c2 in fcalls if not any(a.string_value() is not None and "#" in a.string_value() for a in c2.call_args())]
            call = plain[0] if plain else fcalls[0]
            for extra in [c2 for c2 in fcalls if c2 is not call and c2 not in fcalls[1:]]:
                pass
        fname = call.j["callee"]
        fidx = {"asprintf": 1, "snprintf": 2, "sprintf": 1}[fname]
        args = call.call_args()[fidx - 1:]      # args[1] = format, args[2:] = values (same layout as asprintf)
        fmt = args[1].string_value()
        if fmt is None:
            ctx.inconclusive("V1", "%s format" % sname, call.where, "format is not a literal")
            continue
        if fname != "asprintf":
            # formatted through a buffer: it must hold the longest text of the type
            from sa import buf as _buf
            arrays, sites = _buf.analyse_fixed_arrays(prog, False)
            mine = [x for x in sites if x.node is call]
            if not mine:
                ctx.inconclusive("V1", "%s formats into a buffer" % sname, call.where, "destination is not a fixed array; idiom not understood")
            for x in mine:
                if x.verdict == "ok":
                    ctx.ok("V1", "%s: buffer holds the longest text" % sname, call.where, x.why)
                else:
                    ctx.fail("V1", "%s: buffer holds the longest text" % sname, call.where,
                             "%s: the stored text of extreme values is cut (e.g. the last exponent digit of -DBL_MAX) and reads back as a "
                             "different number" % x.why, key="fmt-buffer:%s" % sname)
        dirs = fmt_directives(fmt)
        if len(dirs) != 1 or fmt.strip() != fmt or not fmt.startswith("%"):
            ctx.fail("V1", "%s writes exactly one number" % sname, call.where, "format %r adds text around the number" % fmt,
                     key="fmt-shape:%s" % sname)
            continue
        flags, w, prec, length, convc = dirs[0]
        rest = args[2:]
        val = rest[-1]
        # the C type the setter reads
        vt = val.j.get("ct")
        src = val.strip()
        srct = src.j.get("ct", "").replace("const ", "")
        if vt not in DIRECTIVE_FOR:
            ctx.inconclusive("V1", "%s argument type" % sname, call.where, "promoted type %s not in the table" % vt)
            continue
        wl, wc = DIRECTIVE_FOR[vt]
        if length == wl and convc in wc:
            ctx.ok("V1", "%s: %%%s%s for %s" % (sname, length, convc, srct), call.where,
                   "directive matches the promoted argument type %s in width and signedness" % vt)
        else:
            ctx.fail("V1", "%s: directive matches the value type" % sname, call.where,
                     "format %r prints a %s (promoted %s) with %%%s%s: wrong %s - values outside the narrower/other-signed range are written wrongly" % (
                         fmt, srct, vt, length, convc, "width" if length != wl else "signedness/conversion"), key="directive:%s" % sname)
        # the setter's value type must be the getter's result type
        gres = g.param("result")
        if gres is not None and gres.get("ct", "").replace(" *", "") == srct:
            ctx.ok("V1", "%s and %s agree on the C type" % (sname, gname), call.where, srct)
        else:
            ctx.fail("V1", "%s and %s agree on the C type" % (sname, gname), call.where,
                     "setter formats a %s, getter returns %s" % (srct, gres.get("ct") if gres else "?"), key="type-pair:%s" % sname)
        if kind == "float":
            tname = "float" if width == 32 else "double"
            need = MIN_PREC[tname]
            if convc not in "gea":
                ctx.fail("V2", "%s: conversion keeps all significant digits" % sname, call.where,
                         "%%%s prints a fixed number of decimals: small and large magnitudes lose digits" % convc, key="conv:%s" % sname)
            pv = None
            if prec == "*":
                pv = rest[0].const_value()
            elif prec:
                pv = int(prec)
            if convc == "a" and prec is None:
                pv = 99
            if convc == "e" and pv is not None:
                pv += 1      # %.Ne prints N+1 significant digits
            if pv is None:
                ctx.fail("V2", "%s: round-trip precision" % sname, call.where, "no precision given: 6 digits do not round-trip a %s" % tname,
                         key="prec:%s" % sname)
            elif pv >= need:
                ctx.ok("V2", "%s: round-trip precision" % sname, call.where,
                       "%d significant digits >= %d (%s_DECIMAL_DIG) as evaluated by clang" % (pv, need, "FLT" if width == 32 else "DBL"))
            else:
                ctx.fail("V2", "%s: round-trip precision" % sname, call.where,
                         "%d significant digits < %d needed to round-trip every %s" % (pv, need, tname), key="prec:%s" % sname)
        # V3 getter routine
        dele = conv.delegate_getter(g)
        if dele is not None:
            dw, dsg, dk = conv.GETTERS[dele]
            if (dw, dsg, dk) != (width, signed, kind):
                ctx.fail("V3", "%s parses with a routine of its own type" % gname, g.where,
                         "%s converts through %s (%d-bit %s) and narrows the result: values of the type do not come back exactly (double rounding / "
                         "lost range)" % (gname, dele, dw, dk), key="routine:%s" % gname)
            else:
                ctx.ok("V3", "%s delegates to %s" % (gname, dele), g.where, "same type")
            continue
        gc = conv.strto_call(g)
        if conv.uses_errno(g):
            ok_e, why_e = conv.errno_reset_before(g, gc)
            if ok_e:
                ctx.ok("V3", "%s: errno cleared before the conversion" % gname, gc.where, why_e)
            else:
                ctx.fail("V3", "%s: errno cleared before the conversion" % gname, gc.where,
                         why_e + ": a correctly stored value is refused after an unrelated earlier failure", key="errno-reset:%s" % gname)
        cname = gc.j["callee"]
        cw, cs = conv.STRTO[cname]
        if kind == "int":
            if cw >= width and cs == signed:
                ctx.ok("V3", "%s parses with %s" % (gname, cname), gc.where, "%d-bit %s routine for a %d-bit %s type" % (
                    cw, "signed" if cs else "unsigned", width, "signed" if signed else "unsigned"))
            else:
                ctx.fail("V3", "%s parses with a routine that can hold every value" % gname, gc.where,
                         "%s returns %d-bit %s but the type is %d-bit %s: part of the value space cannot come back" % (
                             cname, cw, "signed" if cs else "unsigned", width, "signed" if signed else "unsigned"), key="routine:%s" % gname)
        else:
            want = "strtof" if width == 32 else "strtod"
            if cname == want:
                ctx.ok("V3", "%s parses with %s" % (gname, want), gc.where, "same precision as the stored type")
            else:
                ctx.fail("V3", "%s parses with %s" % (gname, want), gc.where, "uses %s (double rounding / wrong precision)" % cname,
                         key="routine:%s" % gname)
            # V4
            cfg = g.cfg
            def errno_set(lit):
                if lit is None or "__errno_location" not in lit.atom:
                    return False
                if lit.kind == "eq" and lit.pol and conv.ERANGE in (lit.lhs.const_value(), lit.rhs.const_value()):
                    return True         # errno == ERANGE
                if lit.kind == "eq" and not lit.pol and 0 in (lit.lhs.const_value(), lit.rhs.const_value()):
                    return True         # errno != 0
                return lit.kind == "truth" and lit.pol
            erange_edges = [(b, i) for (b, i, s2) in cfg.edges() if errno_set(cfg.edge_lit(b, i))]
            if not erange_edges:
                ctx.ok("V4", "%s: no ERANGE refusal" % gname, g.where, "the getter does not refuse on ERANGE at all (subnormals accepted)")
            for (b, i) in erange_edges:
                tgt = cfg.blocks[b].succs[i]

                def overflow_test(lit, bb, ii):
                    if lit is None:
                        return False
                    for n in lit.node.walk():
                        if n.k == "CallExpr" and n.j.get("callee") in ("__builtin_huge_val", "__builtin_huge_valf", "__builtin_inf",
                                                                       "__builtin_inff", "isinf", "__builtin_isinf_sign", "__builtin_isinf",
                                                                       "__isinf", "__isinff"):
                            return True
                        if n.k == "FloatingLiteral" and "inf" in str(n.j.get("fval", "")).lower():
                            return True
                    # result == 0 together with errno: the conversion failed or underflowed to nothing (not a subnormal: those are not 0)
                    if lit.kind == "eq" and lit.pol and 0 in (lit.lhs.const_value(), lit.rhs.const_value()) and "__errno_location" not in lit.atom \
                            and not any(n.k == "CallExpr" for n in lit.node.walk()):
                        return True
                    if lit.kind == "truth" and not lit.pol and "__errno_location" not in lit.atom and not any(n.k == "CallExpr" for n in lit.node.walk()):
                        return True         # `x == 0` is normalised to !x
                    return False
                errs = [r for r in g.returns() if query.returned_constant(r) not in ("ECONF_SUCCESS", 0)]
                bad = None
                for r in errs:
                    rb = cfg.block_of(r)
                    if rb not in cfg.reachable(tgt):
                        continue
                    ok, cut = cfg.all_paths_cut(rb, lambda lit, bb, ii: overflow_test(lit, bb, ii) and lit.pol is not None, start=tgt)
                    if not ok:
                        bad = r
                if bad is None:
                    ctx.ok("V4", "%s: ERANGE refusal only on overflow" % gname, cfg.blocks[b].cond.where,
                           "every path from errno == ERANGE to the error return passes an infinity test of the result")
                else:
                    ctx.fail("V4", "%s: ERANGE refusal only on overflow" % gname, cfg.blocks[b].cond.where,
                             "a bare `errno == ERANGE` refuses the value: glibc also raises ERANGE for every inexact subnormal result, "
                             "so set/get of 5e-324 fails with a conversion error", key="erange-bare:%s" % gname)
    # V5 booleans
    gb, sb = prog.fn("getBoolValueNum"), prog.fn("setBoolValueNum")
    ctx.touch(gb, sb)
    from rules.C09 import _get_consumer
    grec, _ = conv.bool_recognition(gb, _get_label, _get_consumer)
    stored = set()
    for c in sb.calls("strdup"):
        for x in (c.call_args()[0].walk() if c.call_args() else []):
            if x.k == "StringLiteral" and x.string_value() in ("true", "false"):
                stored.add(x.string_value())
        # strdup(local) where the local was given the literal before
        a0 = c.call_args()[0].strip() if c.call_args() else None
        if a0 is not None and a0.k == "DeclRefExpr" and a0.j.get("dk") == "local":
            for lhs2, rhs2, st2 in sb.assignments():
                nm2 = lhs2["name"] if isinstance(lhs2, dict) else render(lhs2)
                if nm2 == a0.j["name"] and rhs2.string_value() in ("true", "false"):
                    stored.add(rhs2.string_value())
    for lit, truth in (("true", True), ("false", False)):
        if lit not in stored:
            ctx.inconclusive("V5", "setter stores %r" % lit, sb.where, "canonical literal not found")
            continue
        got = set(L for (L, how, x) in grec.get(truth, set()))
        anyword = set(L for t9 in (True, False) for (L, how, x) in grec.get(t9, set()) if L)
        if not anyword:
            # no word at all is compared in a form the rule reads (a comparator helper of the getter's own): nothing to say
            ctx.inconclusive("V5", "stored %r reads back as %s" % (lit, truth), gb.where, "the getter's word comparisons are in a form not understood")
            continue
        if lit in got:
            ctx.ok("V5", "stored %r reads back as %s" % (lit, truth), sb.where, "getter recognises it on the path to *result = %s" % str(truth).lower())
        else:
            ctx.fail("V5", "stored %r reads back as %s" % (lit, truth), gb.where,
                     "the getter does not map %r to %s (recognised there: %s)" % (lit, truth, sorted(got)), key="bool-roundtrip:%s" % lit)
    from rules.C09 import r5_lowering_helper
    r5_lowering_helper(prog, ctx, "V5")
    # V6: set and get address the same entry - the first one with that section and key (= C11.A4)
    from sa.report import Ctx as _Ctx
    from rules import C11 as _C11
    sub = _Ctx(ctx.prop, ctx.tier, prog)
    try:
        _C11.a4(prog, sub)
        for ob in sub.obs:
            ob.rule = "V6"
            ctx.obs.append(ob)
    except Inconclusive as e:
        ctx.inconclusive("V6", "set and get find the same entry", "", str(e))
    # ... and a first set creates the entry it then writes: the append makes room for one more initialised entry, new_key() names it
    # and leaves it at the index the typed setter is handed (= C11.A5)
    sub5 = _Ctx(ctx.prop, ctx.tier, prog)
    try:
        _C11.a5(prog, sub5)
        for ob in sub5.obs:
            ob.rule = "V6"
            ob.instance = "first set of a key: " + ob.instance
            ctx.obs.append(ob)
    except Inconclusive as e:
        ctx.inconclusive("V6", "first set of a key writes the entry it created", "", str(e))
    # V7: a set that reports success has stored the value: no successful return of a public setter bypasses setKeyValue()
    n7 = 0
    for name in prog.entry_points():
        if not (name.startswith("econf_set") and name.endswith("Value")):
            continue
        f = prog.fn(name)
        sk = f.calls("setKeyValue")
        if not sk:
            continue
        n7 += 1
        cfg = f.cfg
        blocks = set(cfg.block_of(c) for c in sk)
        succ = {(b, i): s2 for (b, i, s2) in cfg.edges()}
        wp = cfg.success_path_avoiding(lambda lit, b, i: succ.get((b, i)) in blocks or b in blocks)
        if wp is None:
            ctx.ok("V7", "%s: success means stored" % name, sk[0].where, "every consistent path to a successful return passes setKeyValue()")
        else:
            last = wp[-1][0] if wp else cfg.entry
            ctx.fail("V7", "%s: success means stored" % name, (cfg.blocks[last].elems[-1] if cfg.blocks[last].elems else f).where,
                     "%s can report success without storing anything (a shortcut in front of setKeyValue(), e.g. \"value unchanged\" decided by ==, "
                     "which takes -0.0 for 0.0): the following get returns the old value" % name, key="set-skipped:%s" % name, path=cfg.describe_path(wp)[-5:])
    ctx.counts["V7 public setters"] = n7
    ctx.floor("C08 typed setter/getter pairs", rows, 6)
