#!/usr/bin/env python3
"""tools/neutral_check.py [names]: apply each behaviour-preserving refactoring of neutral/ to a scratch copy of /repo's current
tree and run every check.  Exit 1 of a check = FALSE ALARM (must be fixed in the rule); exit 2 = the rule no longer understands
the code (acceptable per design, but worth reducing)."""
import glob, json, os, shutil, subprocess, sys, tempfile
from concurrent.futures import ThreadPoolExecutor
V = os.path.dirname(os.path.dirname(os.path.abspath(__file__)))
names = sys.argv[1:] or sorted(os.path.basename(p) for p in glob.glob(os.path.join(V, "neutral", "*-*")))
props = sorted(os.path.basename(p)[:-3] for p in glob.glob(os.path.join(V, "rules", "C??.py")))


def one(n):
    scratch = tempfile.mkdtemp(prefix="econf-neutral-")
    try:
        repo = os.path.join(scratch, "repo")
        subprocess.check_call("mkdir -p %s && cd /repo && tar cf - --exclude=_build --exclude=.git . | (cd %s && tar xf -)" % (repo, repo), shell=True)
        r = subprocess.run(["patch", "-p1", "-s", "-d", repo, "-i", os.path.join(V, "neutral", n, "patch.diff")], capture_output=True, text=True)
        if r.returncode != 0:
            return n, None, {}
        env = dict(os.environ, VERIF_REPO=repo, VERIF_DB_FROM="/repo", VERIF_NO_EVIDENCE="1", VERIF_REPORT_DIR=os.path.join(scratch, "reports"))
        res = {}
        for p in props:
            try:
                out = subprocess.run([os.path.join(V, "check"), p], capture_output=True, text=True, env=env, timeout=300)
            except subprocess.TimeoutExpired:
                out = subprocess.CompletedProcess([], 2, "ANALYSIS-INCONCLUSIVE property=%s rule=analysis instance=timeout at : the check did not finish in 300 s\n" % p, "")
            if out.returncode != 0:
                lines = [l.strip()[:260] for l in out.stdout.splitlines() if (l.startswith("  ") and not l.startswith("      ")) or l.startswith("ANALYSIS-INCONCLUSIVE")]
                res[p] = (out.returncode, lines[:4])
        return n, True, res
    finally:
        shutil.rmtree(scratch, ignore_errors=True)


with ThreadPoolExecutor(max_workers=8) as ex:
    results = list(ex.map(one, names))
fa = inc = 0
for n, applied, res in results:
    if applied is None:
        print("%-6s patch does not apply to the current tree" % n)
        continue
    alarms = {p: v for p, v in res.items() if v[0] == 1}
    incon = {p: v for p, v in res.items() if v[0] == 2}
    fa += len(alarms)
    inc += len(incon)
    print("%-6s false alarms=%s inconclusive=%s" % (n, sorted(alarms), sorted(incon)))
    for p, v in sorted(res.items()):
        for l in v[1][:3]:
            print("      %s[%d]: %s" % (p, v[0], l))
print("TOTAL false alarms: %d, inconclusive: %d over %d refactorings x %d checks" % (fa, inc, len(results), len(props)))
