#!/usr/bin/env python3
"""tools/gen_anchor_globals.py: record the objects with static storage duration that the rules were confirmed against
(rules/tables/anchors.json, key "globals").  The loader uses the table to recognise a record that merely gathers some of
them (struct-of-globals refactoring) and gives the fields their confirmed names back (sa/facts.py flatten_global_records).
Run on the confirmed tree only; the table is committed."""
import json, os, sys
V = os.path.dirname(os.path.dirname(os.path.abspath(__file__)))
sys.path.insert(0, V)
os.environ["VERIF_NO_RENAME"] = "1"
from sa.facts import Program
prog = Program.load()
out = {"lib": [], "util": []}
for key, tab in (("lib", prog.globals), ("util", prog.util_globals)):
    for name, g in sorted(tab.items(), key=lambda kv: (kv[1].unit, kv[1].line)):
        if not g.is_def:
            continue
        arr = g.j.get("arr") or None
        out[key].append({"name": name, "ct": g.ctype, "unit": g.unit, "static": g.is_static, "const": g.is_const,
                         "arr": {"size": arr.get("size"), "size_mac": arr.get("size_mac")} if arr else None})
p = os.path.join(V, "rules", "tables", "anchors.json")
d = json.load(open(p))
d["globals"] = out
d["comment_globals"] = "objects with static storage duration as confirmed (name, canonical type, unit); used only to undo a struct-of-globals regrouping"
json.dump(d, open(p, "w"), indent=1)
print("globals: %d lib, %d util" % (len(out["lib"]), len(out["util"])))
