#!/usr/bin/env python3
"""tools/seed_check.py [seed ...]  - run every built check against each seeded change (applied to a scratch copy of
/repo's current tree) and record in seeded/<seed>/meta.json which checks report a violation."""
import glob, json, os, shutil, subprocess, sys, tempfile
V = os.path.dirname(os.path.dirname(os.path.abspath(__file__)))
seeds = sys.argv[1:] or sorted(os.path.basename(p) for p in glob.glob(os.path.join(V, "seeded", "*-*")))
props = sorted(os.path.basename(p)[:-3] for p in glob.glob(os.path.join(V, "rules", "C??.py")))
def one(s):
    d = os.path.join(V, "seeded", s)
    lines_out = []
    scratch = tempfile.mkdtemp(prefix="econf-seed-")
    try:
        repo = os.path.join(scratch, "repo")
        subprocess.check_call("mkdir -p %s && cd /repo && tar cf - --exclude=_build --exclude=.git . | (cd %s && tar xf -)" % (repo, repo), shell=True)
        r = subprocess.run(["patch", "-p1", "-s", "-d", repo, "-i", os.path.join(d, "patch.diff")], capture_output=True, text=True)
        applied = r.returncode == 0
        res = {}
        if applied:
            env = dict(os.environ, VERIF_REPO=repo, VERIF_DB_FROM="/repo", VERIF_NO_EVIDENCE="1", VERIF_REPORT_DIR=os.path.join(scratch, "reports"))
            for p in props:
                try:
                    out = subprocess.run([os.path.join(V, "check"), p], capture_output=True, text=True, env=env, timeout=300)
                except subprocess.TimeoutExpired:
                    out = subprocess.CompletedProcess([], 2, "ANALYSIS-INCONCLUSIVE property=%s rule=analysis instance=timeout at : the check did not finish in 300 s\n" % p, "")
                lines = [l for l in out.stdout.splitlines() if l.startswith("  ") and not l.startswith("      ")]
                res[p] = {"exit": out.returncode, "reports": [l.strip()[:300] for l in lines][:6],
                          "inconclusive": [l[:300] for l in out.stdout.splitlines() if l.startswith("ANALYSIS-INCONCLUSIVE")][:4]}
        meta = json.load(open(os.path.join(d, "meta.json")))
        own = meta["breaks_property"]
        meta["patch_applies_to_current_repo"] = applied
        meta["detected_by"] = {p: v for p, v in res.items() if v["exit"] == 1}
        meta["inconclusive_in"] = {p: v["inconclusive"] for p, v in res.items() if v["exit"] == 2}
        meta["own_property_check_exit"] = res.get(own, {}).get("exit")
        json.dump(meta, open(os.path.join(d, "meta.json"), "w"), indent=1)
        det = [p for p, v in res.items() if v["exit"] == 1]
        inc = [p for p, v in res.items() if v["exit"] == 2]
        lines_out.append("%-8s applies=%s own=%s detected_by=%s inconclusive=%s" % (s, applied, res.get(own, {}).get("exit"), det, inc))
        for p in det:
            for l in res[p]["reports"][:2]:
                lines_out.append("      %s: %s" % (p, l[:200]))
        return (s, applied and res.get(own, {}).get("exit") == 1, "\n".join(lines_out))
    finally:
        shutil.rmtree(scratch, ignore_errors=True)


from concurrent.futures import ThreadPoolExecutor
missed = []
with ThreadPoolExecutor(max_workers=int(os.environ.get("SEED_JOBS", "6"))) as ex:
    for s, ok, text in ex.map(one, seeds):
        print(text, flush=True)
        if not ok:
            missed.append(s)
print("SEEDS: %d checked, %d not detected by their own property's check: %s" % (len(seeds), len(missed), missed))
