#!/bin/bash
# tools/neutral_verify.sh <N> <k>: re-verify a behaviour-preserving refactoring from /tmp/seed/<N>/out/<k> (applies, builds, 48/48) and store it under neutral/<N>-<k>/
N=$1; K=$2; W=/tmp/seed/$N; V=$(cd "$(dirname "$0")/.." && pwd); O=$W/out/$K
cd $W || exit 2
git checkout -q -- .
git apply "$O/patch.diff" || { echo "$N-$K PATCH DOES NOT APPLY"; exit 3; }
cmake -G Ninja -S . -B _build >/dev/null 2>&1 && cmake --build _build >/dev/null 2>&1 && cmake --build _build --target check >/dev/null 2>&1
T=$(ctest --test-dir _build -j8 2>&1 | grep -E "tests passed|tests failed")
git checkout -q -- .
echo "$N-$K $T"
if echo "$T" | grep -q "100% tests passed"; then
  mkdir -p $V/neutral/$N-$K && cp "$O/patch.diff" "$O/notes.md" $V/neutral/$N-$K/ 2>/dev/null
fi
