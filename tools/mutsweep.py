#!/usr/bin/env python3
"""tools/mutsweep.py - development aid (NOT a registered check): a mechanical mutation sweep over lib/*.c and util/econftool.c.

  gen   <outdir>                       write one patch per one-token mutant (operators, constants, dropped statements, near namesakes)
  test  <outdir> [-j N]                for every mutant: scratch copy of /repo, apply, incremental build, the 48 tests; records survivors
  check <outdir> [-j N]                for every survivor: run all 19 checks against the scratch copy; records who reports it

Scratch copies live under /tmp/mut/work and are removed after use.  Results: <outdir>/results.json."""
import glob, json, os, re, shutil, subprocess, sys, tempfile
from concurrent.futures import ThreadPoolExecutor

V = os.path.dirname(os.path.dirname(os.path.abspath(__file__)))
REPO = "/repo"
FILES = sorted(glob.glob(os.path.join(REPO, "lib", "*.c"))) + [os.path.join(REPO, "util", "econftool.c")]

RULES = [
    # (name, regex on a code line, replacement) - applied to one match at a time
    ("lt-le", r"(?<![<>=!\-])<(?![<=])", "<="), ("le-lt", r"(?<![<>=!])<=(?!=)", "<"),
    ("gt-ge", r"(?<![<>=!\-])>(?![>=])", ">="), ("ge-gt", r"(?<![<>=!])>=(?!=)", ">"),
    ("eq-ne", r"(?<![<>=!])==(?!=)", "!="), ("ne-eq", r"!=(?!=)", "=="),
    ("and-or", r"&&", "||"), ("or-and", r"\|\|", "&&"),
    ("plus1-drop", r" ?\+ ?1\b(?![0-9.])", ""), ("minus1-drop", r" ?- ?1\b(?![0-9.])", ""),
    ("plus1-add", r"\b(length|size|count|len|num)\b(?! *[=+\-(\[])", r"\1 + 1"),
    ("not-drop", r"!(?=[A-Za-z_(*])", ""),
    ("true-false", r"\btrue\b", "false"), ("false-true", r"\bfalse\b", "true"),
    ("zero-one", r"(?<![\w.])0(?![\w.])", "1"), ("one-zero", r"(?<![\w.\-+] )(?<![\w.])1(?![\w.])", "0"),
    ("strcmp-strncmp1", r"\bstrcmp\((.*?), (.*?)\)", r"strncmp(\1, \2, 1)"),
    ("strchr-strrchr", r"\bstrchr\(", "strrchr("), ("strrchr-strchr", r"\bstrrchr\(", "strchr("),
    ("lstat-stat", r"\blstat\(", "stat("),
    ("calloc-malloc", r"\bcalloc\((.*?), (.*?)\)", r"malloc((\1) * (\2))"),
    ("strdup-null", r"= strdup\((.*?)\);", r"= NULL;"),
    ("drop-break", r"^\s*break;\s*$", ""), ("drop-continue", r"^\s*continue;\s*$", ""),
    ("drop-free", r"^\s*free ?\((.*?)\);\s*$", ""), ("drop-econf-free", r"^\s*econf_free\w*\((.*?)\);\s*$", ""),
    ("drop-assign-null", r"^\s*[\w>\-.()*\[\]]+ = NULL;\s*$", ""), ("drop-incr", r"^\s*[\w>\-.()*\[\]]+\+\+;\s*$", ""),
    ("usr-etc", r"\busr_file\b", "etc_file"), ("etc-usr", r"\betc_file\b", "usr_file"),
    ("before-after", r"\bcomment_before_key\b", "comment_after_value"), ("after-before", r"\bcomment_after_value\b", "comment_before_key"),
    ("i-j", r"\[i\]", "[j]"), ("j-i", r"\[j\]", "[i]"),
    ("delim-comment", r"\bdelim\b", "comment"), ("comment-delim", r"(?<![_\w>.])comment\b(?!_)", "delim"),
    ("nokey-nogroup", r"\bECONF_NOKEY\b", "ECONF_NOGROUP"), ("nofile-error", r"\bECONF_NOFILE\b", "ECONF_ERROR"), ("success-error", r"return ECONF_SUCCESS;", "return ECONF_ERROR;"),
    ("char-hash", r"'#'", "';'"), ("char-eq", r"'='", "':'"), ("char-nl", r"'\\n'", "' '"), ("char-quote", r"'\\\"'", "'\\''"), ("char-lbr", r"'\['", "'('"), ("char-rbr", r"'\]'", "')'"),
    ("len-alloc", r"->length\b", "->alloc_length"), ("alloc-len", r"->alloc_length\b", "->length"),
]


def code_lines(path):
    """(index, line) of lines outside comments and preprocessor directives"""
    out = []
    incomment = False
    for i, l in enumerate(open(path, encoding="utf-8", errors="replace").read().split("\n")):
        s = l
        if incomment:
            if "*/" in s:
                incomment = False
            continue
        if s.lstrip().startswith("//") or s.lstrip().startswith("#"):
            continue
        if "/*" in s and "*/" not in s:
            incomment = True
            s = s[:s.index("/*")]
        elif "/*" in s:
            s = re.sub(r"/\*.*?\*/", lambda m: " " * len(m.group(0)), s)
        if "//" in s and '"' not in s:
            s = s[:s.index("//")]
        out.append((i, s))
    return out


def in_string(s, pos):
    return s[:pos].count('"') % 2 == 1


def gen(outdir):
    os.makedirs(outdir, exist_ok=True)
    n = 0
    for path in FILES:
        rel = os.path.relpath(path, REPO)
        src = open(path, encoding="utf-8", errors="replace").read().split("\n")
        for i, s in code_lines(path):
            for name, rx, rep in RULES:
                for m in re.finditer(rx, s):
                    if in_string(s, m.start()) and not name.startswith("char-"):
                        continue
                    new = s[:m.start()] + m.expand(rep) + s[m.end():]
                    if new == s:
                        continue
                    full = src[i][:0] + new + src[i][len(s):] if len(src[i]) >= len(s) else new
                    mut = list(src)
                    mut[i] = full
                    n += 1
                    mid = "m%05d" % n
                    d = os.path.join(outdir, mid)
                    os.makedirs(d, exist_ok=True)
                    with open(os.path.join(d, "file"), "w") as f:
                        f.write(rel)
                    with open(os.path.join(d, "new"), "w") as f:
                        f.write("\n".join(mut))
                    with open(os.path.join(d, "meta.json"), "w") as f:
                        json.dump({"id": mid, "file": rel, "line": i + 1, "rule": name, "old": src[i].strip(), "new": full.strip()}, f)
    print("%d mutants" % n)


def scratch_with(mid, outdir):
    d = os.path.join(outdir, mid)
    rel = open(os.path.join(d, "file")).read().strip()
    w = tempfile.mkdtemp(prefix="w-", dir="/tmp/mut/work")
    subprocess.check_call("cd /repo && tar cf - --exclude=.git --exclude=_build . | (cd %s && tar xf -)" % w, shell=True)
    shutil.copy(os.path.join(d, "new"), os.path.join(w, rel))
    return w


import queue
_WORKERS = queue.Queue()


def worker_tree(k):
    """a persistent scratch copy with its own configured and fully built _build (incremental builds per mutant)"""
    w = "/tmp/mut/work/tree%d" % k
    if not os.path.exists(os.path.join(w, "_build", "build.ninja")):
        shutil.rmtree(w, ignore_errors=True)
        os.makedirs(w)
        subprocess.check_call("cd /repo && tar cf - --exclude=.git --exclude=_build . | (cd %s && tar xf -)" % w, shell=True)
        subprocess.check_call("cd %s && cmake -G Ninja -S . -B _build >/dev/null 2>&1 && cmake --build _build >/dev/null 2>&1 && cmake --build _build --target check >/dev/null 2>&1" % w, shell=True)
    return w


def test_one(args):
    mid, outdir = args
    d = os.path.join(outdir, mid)
    res = os.path.join(d, "test.json")
    if os.path.exists(res):
        return json.load(open(res))
    rel = open(os.path.join(d, "file")).read().strip()
    w = _WORKERS.get()
    try:
        shutil.copy(os.path.join(d, "new"), os.path.join(w, rel))
        os.utime(os.path.join(w, rel))
        try:
            b = subprocess.run("cd %s && timeout 300 cmake --build _build 2>&1 | tail -5; timeout 120 cmake --build _build --target check 2>&1 | tail -5" % w, shell=True, capture_output=True, text=True, timeout=900)
            built = "error:" not in b.stdout and "FAILED" not in b.stdout and "warning:" not in b.stdout
        except subprocess.TimeoutExpired:
            class _B:
                stdout = "build timeout"
            b, built = _B(), False
        verdict = {"id": mid, "built": built}
        if not built:
            verdict["tail"] = b.stdout[-300:]
        if built:
            try:
                t = subprocess.run("cd %s && ctest --test-dir _build -j2 --timeout 20 2>&1 | tail -6" % w, shell=True, capture_output=True, text=True, timeout=1200)
                verdict["tests_pass"] = "100% tests passed" in t.stdout
                verdict["tail"] = t.stdout[-300:]
            except subprocess.TimeoutExpired:
                verdict["tests_pass"] = False
                verdict["tail"] = "timeout"
        json.dump(verdict, open(res, "w"))
        return verdict
    finally:
        shutil.copy(os.path.join(REPO, rel), os.path.join(w, rel))
        os.utime(os.path.join(w, rel))
        _WORKERS.put(w)


def check_one(args):
    mid, outdir = args
    d = os.path.join(outdir, mid)
    res = os.path.join(d, "check.json")
    if os.path.exists(res):
        return json.load(open(res))
    w = scratch_with(mid, outdir)
    try:
        env = dict(os.environ, VERIF_REPO=w, VERIF_DB_FROM="/repo", VERIF_NO_EVIDENCE="1", VERIF_REPORT_DIR=os.path.join(w, ".reports"))
        out = {"id": mid, "fail": {}, "inconclusive": []}
        for p in sorted(os.path.basename(x)[:-3] for x in glob.glob(os.path.join(V, "rules", "C??.py"))):
            try:
                r = subprocess.run([os.path.join(V, "check"), p], capture_output=True, text=True, env=env, timeout=300)
            except subprocess.TimeoutExpired:
                out["inconclusive"].append(p)
                continue
            if r.returncode == 1:
                out["fail"][p] = [l.strip()[:200] for l in r.stdout.splitlines() if l.startswith("  ") and not l.startswith("      ")][:2]
            elif r.returncode != 0:
                out["inconclusive"].append(p)
        json.dump(out, open(res, "w"))
        return out
    finally:
        shutil.rmtree(w, ignore_errors=True)


DRV = "/tmp/mut/driver"        # a copy of tools/mutdriver/ (the differential driver written by a separate agent; it RUNS the library - it is a
                               # development aid for judging the sweep, not part of any registered check): cp -r tools/mutdriver /tmp/mut/driver,
                               # then gen.sh -> /tmp/mut/data, build.sh / run.sh on the pristine tree -> /tmp/mut/dump.pristine
DATA = "/tmp/mut/data"


def diff_one(args):
    """behavioural difference against the pristine library, by the differential driver (development aid)"""
    mid, outdir = args
    d = os.path.join(outdir, mid)
    res = os.path.join(d, "diff.json")
    if os.path.exists(res):
        return json.load(open(res))
    w = scratch_with(mid, outdir)
    try:
        out = {"id": mid}
        b = subprocess.run([os.path.join(DRV, "build.sh"), w, os.path.join(w, "bin")], capture_output=True, text=True, timeout=600)
        if b.returncode != 0 or not os.path.exists(os.path.join(w, "bin")):
            out["differs"] = None
            out["note"] = "driver build failed: " + (b.stdout + b.stderr)[-200:]
        else:
            env = dict(os.environ, DRIVER_JOBS="2")
            r = subprocess.run("%s %s %s > %s 2>/dev/null" % (os.path.join(DRV, "run.sh"), os.path.join(w, "bin"), DATA, os.path.join(w, "dump")), shell=True, env=env, timeout=900)
            c = subprocess.run("diff /tmp/mut/dump.pristine %s | head -400" % os.path.join(w, "dump"), shell=True, capture_output=True, text=True)
            lines = c.stdout.splitlines()
            out["differs"] = bool(lines)
            out["n_diff_lines"] = int(subprocess.run("diff /tmp/mut/dump.pristine %s | grep -c '^[<>]'" % os.path.join(w, "dump"), shell=True, capture_output=True, text=True).stdout.strip() or 0)
            out["sample"] = [l[:200] for l in lines if l.startswith(">") or l.startswith("<")][:12]
            out["sanitizer"] = any("SANITIZER:" in l or "CRASH:" in l or "TIMEOUT:" in l for l in lines)
        json.dump(out, open(res, "w"))
        return out
    except subprocess.TimeoutExpired:
        out = {"id": mid, "differs": True, "note": "driver timeout", "sanitizer": True, "n_diff_lines": -1, "sample": []}
        json.dump(out, open(res, "w"))
        return out
    finally:
        shutil.rmtree(w, ignore_errors=True)


def main():
    cmd, outdir = sys.argv[1], sys.argv[2]
    jobs = int(sys.argv[sys.argv.index("-j") + 1]) if "-j" in sys.argv else 8
    os.makedirs("/tmp/mut/work", exist_ok=True)
    if cmd == "gen":
        gen(outdir)
        return
    mids = sorted(os.path.basename(x) for x in glob.glob(os.path.join(outdir, "m*")))
    if cmd == "test":
        with ThreadPoolExecutor(max_workers=jobs) as ex0:
            for w in ex0.map(worker_tree, range(jobs)):
                _WORKERS.put(w)
        with ThreadPoolExecutor(max_workers=jobs) as ex:
            rs = list(ex.map(test_one, [(m, outdir) for m in mids]))
        surv = [r["id"] for r in rs if r.get("built") and r.get("tests_pass")]
        print("%d mutants, %d do not build, %d killed by the tests, %d survive" % (
            len(rs), len([r for r in rs if not r.get("built")]), len([r for r in rs if r.get("built") and not r.get("tests_pass")]), len(surv)))
        json.dump(surv, open(os.path.join(outdir, "survivors.json"), "w"))
    elif cmd == "diff":
        surv = json.load(open(os.path.join(outdir, "survivors.json")))
        with ThreadPoolExecutor(max_workers=jobs) as ex:
            rs = list(ex.map(diff_one, [(m, outdir) for m in surv]))
        print("%d survivors: %d change the driver's dump (%d with a sanitizer report / crash / hang), %d leave it unchanged, %d not built" % (
            len(rs), len([r for r in rs if r.get("differs")]), len([r for r in rs if r.get("differs") and r.get("sanitizer")]),
            len([r for r in rs if r.get("differs") is False]), len([r for r in rs if r.get("differs") is None])))
    elif cmd == "check":
        surv = json.load(open(os.path.join(outdir, "survivors.json")))
        with ThreadPoolExecutor(max_workers=jobs) as ex:
            rs = list(ex.map(check_one, [(m, outdir) for m in surv]))
        det = [r for r in rs if r["fail"]]
        print("%d survivors: %d reported by at least one check, %d only inconclusive, %d silent" % (
            len(rs), len(det), len([r for r in rs if not r["fail"] and r["inconclusive"]]), len([r for r in rs if not r["fail"] and not r["inconclusive"]])))
        json.dump(rs, open(os.path.join(outdir, "results.json"), "w"), indent=1)


if __name__ == "__main__":
    main()
