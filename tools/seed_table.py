#!/usr/bin/env python3
"""Prints the markdown table of seeded changes and the checks that catch them (from seeded/*/meta.json)."""
import glob, json, os, re
V = os.path.dirname(os.path.dirname(os.path.abspath(__file__)))
rows = []
for d in sorted(glob.glob(os.path.join(V, "seeded", "*-*")), key=lambda p: (os.path.basename(p).split("-")[0], int(os.path.basename(p).split("-")[1]))):
    m = json.load(open(os.path.join(d, "meta.json")))
    notes = open(os.path.join(d, "notes.md")).read() if os.path.exists(os.path.join(d, "notes.md")) else ""
    patch = open(os.path.join(d, "patch.diff")).read()
    files = sorted(set(re.findall(r"^\+\+\+ b/(\S+)", patch, re.M)))
    fn = re.findall(r"^@@.*@@ .*?(\w+)\s*\(", patch, re.M)
    det = m.get("detected_by", {})
    if isinstance(det, str):
        det = {}
    rules = []
    for p, v in sorted(det.items()):
        rs = sorted(set(r.split(" ")[0] for r in v.get("reports", [])))
        rules.append("%s (%s)" % (p, ", ".join(rs)))
    what = m.get("summary") or ""
    rows.append((os.path.basename(d), ", ".join(files), ", ".join(sorted(set(fn)))[:60], "; ".join(rules) or "**missed**", m.get("own_property_check_exit")))
print("| seed | file(s) | function(s) touched | caught by (rules) |")
print("|---|---|---|---|")
for r in rows:
    print("| %s | %s | %s | %s |" % r[:4])
print()
print("%d seeded changes; %d caught by the check of their own property; %d caught by at least one check." % (
    len(rows), len([r for r in rows if r[4] == 1]), len([r for r in rows if r[3] != "**missed**"])))
