#!/usr/bin/env python3
"""tools/record_fix.py <property> <rule> <defect> <commit> <what failed>  - append a 'fixed' entry to known_findings.json"""
import json, os, sys
V = os.path.dirname(os.path.dirname(os.path.abspath(__file__)))
prop, rule, defect, commit, what = sys.argv[1:6]
p = os.path.join(V, "known_findings.json")
k = json.load(open(p))
k["findings"].append({"status": "fixed", "property": prop, "rule": rule, "defect": defect, "commit": commit,
                      "what": "fixed: property=%s %s %s" % (prop, commit, what)})
json.dump(k, open(p, "w"), indent=1)
