#!/bin/bash
# gen.sh <data-dir>
# Creates all input files and directory trees of the differential behaviour
# driver below <data-dir>.  Deterministic: no randomness, no time stamps in
# file contents.  An existing <data-dir> is removed first.
set -e
set -u
export LC_ALL=C
umask 022

if [ $# -ne 1 ]; then
    echo "usage: $0 <data-dir>" >&2
    exit 2
fi
mkdir -p "$1"
D=$(cd "$1" && pwd -P)
case "$D" in
    /|/etc|/usr|/run|/tmp|/root|/home) echo "refusing to use $D" >&2; exit 2;;
esac
chmod -R u+rwx "$D" 2>/dev/null || true
rm -rf "${D:?}"/single "$D"/trees "$D"/sec "$D"/longpath "$D"/misc "$D"/tool "$D"/work.*
mkdir -p "$D/single" "$D/trees" "$D/sec" "$D/longpath" "$D/misc" "$D/tool"

# w <path relative to $D> <printf %b content>
w() {
    mkdir -p "$(dirname "$D/$1")"
    printf '%b' "$2" > "$D/$1"
}
# rep <char> <count>
rep() {
    local s
    printf -v s '%*s' "$2" ''
    printf '%s' "${s// /$1}"
}

###########################################################################
# 1. single files
###########################################################################
S=single
w $S/s001_empty.conf ''
w $S/s002_newline_only.conf '\n'
w $S/s003_blank_lines.conf '\n  \n\t\n \t \n'
w $S/s004_comments_only.conf '# a\n#b\n ; c\n\t#\td = 1\n'
w $S/s005_comment_no_nl.conf '# last'
w $S/s006_simple.conf 'a=1\nb=2\nc=three\n'
w $S/s007_spaces_around.conf ' a = 1 \n\tb\t=\t2\t\nc  =   x y  z   \n'
w $S/s008_groups.conf 'g=0\nh=top\n[sec]\na=1\nb=two\n[other]\nb=2\nc=3\n'
w $S/s009_key_no_value.conf 'a=\nb =\nc= \n[s]\nd=\ne=x\n'
w $S/s010_key_no_delim_l1.conf 'a\nb=1\n'
w $S/s011_key_only_lines.conf 'a=1\n\nb\n\nc=3\n[s]\nd\n'
w $S/s012_missing_delim_l1.conf 'b c\na=1\n'
w $S/s013_missing_delim_mid.conf 'a=1\n\nb c\nc=3\n'
w $S/s014_missing_delim_end.conf 'a=1\nb=2\n\nlast word'
w $S/s015_missing_bracket_l1.conf '[sec\na=1\n'
w $S/s016_missing_bracket_mid.conf 'a=1\n[sec\nb=2\n'
w $S/s017_missing_bracket_end.conf 'a=1\nb=2\n[sec'
w $S/s018_text_after_l1.conf '[sec] x\na=1\n'
w $S/s019_text_after_mid.conf 'a=1\n[sec] tail\nb=2\n'
w $S/s020_text_after_end.conf 'a=1\n[s]\nb=2\n[sec]x'
w $S/s021_empty_section_l1.conf '[]\na=1\n'
w $S/s022_empty_section_mid.conf 'a=1\n[]\nb=1\n'
w $S/s023_empty_section_end.conf 'a=1\n[s]\nb=1\n[]'
w $S/s024_section_spaces.conf '[ sec ]\na=1\n[sec]\nb=2\n[ ]\nc=3\n  [ind]  \nd=4\n'
w $S/s025_section_odd_names.conf '[a b]\nk=1\n[a=b]\nk=2\n[[x]]\nk=3\n[x]y]\nk=4\n[_none_]\nk=6\n[\xc3\xa4]\nk=7\n[sec]]\nk=8\n[[sec]\nk=9\n[.]\nk=10\n'
w $S/s026_section_hash.conf 'a=1\n[#h]\nk=5\n'
w $S/s027_section_comment_after.conf '[sec] # comment\na=1\n[two] ; c2\nb=2 # cb\n'
w $S/s028_repeated_keys.conf 'a=1\na=2\nb=x\na=3\n[s]\na=s1\na=s2\n'
w $S/s029_repeated_reset.conf 'a=1\na=2\na=\na=4\na=5\nb=\nb=1\n'
w $S/s030_reopened_sections.conf '[s]\na=1\n[t]\nb=2\n[s]\nc=3\na=9\n[t]\nb=7\nd=8\n'
w $S/s031_quoted.conf 'a="x y"\nb=" lead"\nc="trail "\nd=""\ne="\nf="un\ng=un"\nh="a"b"\ni="has # hash"\nj="q" # c\nk = "sp" \nl="a" "b"\n'
w $S/s032_single_quotes.conf "a='x'\nb='x y' # c\nc='\n"
w $S/s033_multiline.conf 'a=line1\n  line2\n  line3\nb=2\n[s]\nc=x\n\ty\n'
w $S/s034_multiline_comments.conf 'a=l1 # c1\n  l2 # c2\n  l3\n  l4 # c4\nb=2 # cb\n# before c\nc=l1\n   l2 # only second\n'
w $S/s035_multiline_quoted.conf 'a="l1\n l2\n l3"\nb=2\nc="x\ny" # c\n'
w $S/s036_multiline_interrupted.conf 'a=l1\n\n  l2\nb=1\n# c\n  l3\n'
w $S/s037_multiline_with_delim.conf 'a=l1\n  x=y\n  z\nb=2\n'
w $S/s038_python.conf '[sec]\nkey = first\n    second = with delim\n    third # not comment\nother: val\n  more\nlast = 1\n'
w $S/s039_crlf.conf 'a=1\r\n[sec]\r\nb=2\r\n# c\r\nc="q"\r\nd=x\r\n  y\r\n'
w $S/s040_cr_only.conf 'a=1\rb=2\r[s]\rc=3'
w $S/s041_no_trailing_nl.conf 'a=1\n[s]\nb=2'
w $S/s042_nul_bytes.conf 'a=1\x00junk\nb\x00=2\n\x00c=3\nd=4\n[s\x00]\ne=5\n'
w $S/s043_nul_only.conf '\x00\x00\x00'
w $S/s044_highbit.conf 'k\xc3\xa4=v\xff\xfe\n[\x80]\nx=\xa0\n\xa0y\xa0=\xa01\n'
w $S/s045_delims.conf 'a = 1\nb:2\nc := 3\nd\t4\ne 5\nf==6\ng = = 7\nh=:8\ni =\nj: \n'
w $S/s046_space_delim.conf 'key1 value one\nkey2\tvalue2\nkey3    v3   \n[sec]\nk v\nlonely\nq "quoted v"\n'
w $S/s047_keys_only.conf 'alpha\nbeta gamma\n[sec]\ndelta\n#c\nepsilon # trailing\n  indented\n'
w $S/s048_ints.conf 'i1=0\ni2=-1\ni3=2147483647\ni4=2147483648\ni5=-2147483648\ni6=-2147483649\ni7=9223372036854775807\ni8=9223372036854775808\ni9=-9223372036854775808\ni10=-9223372036854775809\ni11=18446744073709551615\ni12=18446744073709551616\ni13=4294967295\ni14=4294967296\ni15=0x7fffffff\ni16=0xffffffff\ni17=0x10\ni18=010\ni19=08\ni20=+5\ni21=   42\ni22=42abc\ni23=abc\ni24=0x\ni25=-0\ni26=1e3\ni27=-0x80000000\ni28=0777777777777777777777\ni29=01777777777777777777777\ni30=0xFFFFFFFFFFFFFFFF\ni31=- 5\ni32=99999999999999999999999999\ni33=0X1f\ni34=-2147483648.5\n'
w $S/s049_floats.conf 'f1=0.5\nf2=-1.25e10\nf3=1e-45\nf4=1e-46\nf5=3.4028235e38\nf6=3.5e38\nf7=1e308\nf8=1e309\nf9=4.9e-324\nf10=1e-400\nf11=inf\nf12=-inf\nf13=nan\nf14=NAN(123)\nf15=0x1.8p1\nf16=.5\nf17=5.\nf18=1,5\nf19=0.1\nf20=16777217\nf21=0.30000000000000004\nf22=infinity\nf23=1e\nf24=-\nf25=-0.0\nf26=1.17549435e-38\nf27=2.2250738585072014e-308\nf28=1.7976931348623157e308\nf29=0.1f\n'
w $S/s050_bools.conf 'b1=1\nb2=0\nb3=yes\nb4=no\nb5=true\nb6=false\nb7=YES\nb8=No\nb9=TRUE\nb10=False\nb11=\nb12=on\nb13=off\nb14=2\nb15= true \nb16="true"\nb17=_none_\nb18=tRuE\nb19\n\nb20=y\nb21=01\nb22=truee\n'
w $S/s051_comments.conf '# c1\n# c2 = x\n  #[notsec]\n;semi\na=1\n\n# far\n\nb=2 # after "q" = [x]\n#end\n'
w $S/s052_comment_in_multiline.conf 'a=1\n# comment\n  cont\nb=2\n  c1\n ; semi\n  c2\n'
w $S/s053_comment_chars_in_value.conf 'a=x#y\nb=x;y\nc=#only\nd=;only\ne=x # y # z\nf=x ; y # z\n'
w $S/s054_only_sections.conf '[a]\n[b]\n[a]\n'
w $S/s055_trailing_empty_section.conf 'x=1\n[full]\ny=2\n[empty]\n'
w $S/s056_none_words.conf '_none_=_none_\n[_none_]\n_none_=1\nk=_none_\n'
w $S/s057_brackets_in_keys.conf 'a[0]=1\n]x=2\n x[=3\nName[de]=Hallo\n'
w $S/s058_leading_delim.conf '=value\n = v2\na=1\n==\n'
w $S/s059_only_delims.conf ' = \n==\n:\n'
w $S/s060_tabs.conf '\t[sec]\t\n\tk\t=\tv\t#\tc\t\n\t\tk2=v2\n'
w $S/s061_indented_keys.conf '  a=1\n    b=2\n\tc=3\n'
w $S/s062_ff_vt.conf 'a\f=\v1\nb=\f\n'
w $S/s063_backslash.conf 'a=1 \\\\\n b\nc=x\\\\ny\nd=\\\\\n'
w $S/s064_quotes_and_comments.conf 'a="x" # "c"\nb="x # y" # z\nc="x\n# inside?\ny"\nd=x "y # z" w\n'
w $S/s065_value_bracket.conf 'a=[x]\nb=1\n [y]\nc=2\n'
w $S/s066_cont_after_header.conf '[s]\n  cont\na=1\n'
w $S/s067_first_line_indented.conf '  x\n  y=1\n'
w $S/s068_bom.conf '\xef\xbb\xbfa=1\nb=2\n'
w $S/s069_multi_delims.conf 'key = value = more\nk2== v\nk3 =  = \nk4=a=b=c\n'
w $S/s070_dup_across_groups.conf 'k=top\n[a]\nk=a\n[b]\nk=b\n[a]\nk=a2\nj=1\n'
w $S/s071_trailing_ws_section.conf '[sec]   \n a = 1\n[t]\t\nb=2\n'
w $S/s072_comment_only_markers.conf '#\n #\n;\n##\n#;#\na=1 #\nb=2 ;\n'
w $S/s073_key_then_comment.conf 'a # c\nb=1\n\nc ; d\n'
w $S/s074_systemd_unit.conf '# unit\n[Unit]\nDescription=A service\nAfter=network.target remote-fs.target\n\n[Service]\nExecStart=/usr/bin/foo --opt="a b" \\\\\n    --more\nEnvironment="A=1" "B=2"\nRestart=on-failure\n\n[Install]\nWantedBy=multi-user.target\n'
w $S/s075_sysctl.conf '# sysctl\nkernel.sysrq = 0\nnet.ipv4.ip_forward=1\n; other comment\nvm.swappiness = 60\n'
w $S/s076_logindefs.conf '#\n# login.defs\n#\nFAIL_DELAY\t\t3\nUMASK\t\t022\nENV_PATH\t\t/usr/local/bin:/bin:/usr/bin\nCHFN_RESTRICT\t\trwh\nUSERGROUPS_ENAB yes\nEMPTY\n'
w $S/s077_os_release.conf 'NAME="openSUSE Tumbleweed"\n# VERSION="20240101"\nID="opensuse-tumbleweed"\nID_LIKE="opensuse suse"\nVERSION_ID="20240101"\nPRETTY_NAME="openSUSE Tumbleweed"\nANSI_COLOR="0;32"\nCPE_NAME="cpe:/o:opensuse:tumbleweed:20240101"\n'
w $S/s078_desktop.conf '[Desktop Entry]\nType=Application\nName=Foo\nName[de]=F\xc3\xbc\nExec=foo %U\nTerminal=false\nCategories=A;B;C;\n\n[Desktop Action new]\nName=New\n'
w $S/s079_value_only_ws.conf 'a=   \nb= \t \nc="  "\n[s]\nd =\t\n'
w $S/s080_join_comments.conf '# c1\na=1 # t1\n# c2\na=2 # t2\n# c3\na=\n# c4\na=4 # t4\n'
w $S/s081_python_nested.conf 'a = 1\n  b = 2\n    c = 3\n  d\ne = 5 # c\n\tf\n'
w $S/s082_section_then_eof.conf 'a=1\n[sec]'
w $S/s083_quote_edge.conf 'a="\nb=""\nc="""\nd=" "\ne="x\nf=x"\ng="\n"\n'
w $S/s084_colon_delim.conf 'a:1\nb : 2\nc:=3\nd = 4\n[s]\ne:\n'

# long things
v8189=$(rep x 8189); v8190=$(rep x 8190); v8191=$(rep y 8191); v8192=$(rep z 8192); v8200=$(rep w 8200)
printf 'k=%s\nafter=1\n' "$v8189" > "$D/$S/s085_line8192.conf"       # physical line of 8192 bytes incl. newline
printf 'k=%s\nafter=1\n' "$v8190" > "$D/$S/s086_line8193.conf"
printf 'k=%s\nafter=1\n' "$v8191" > "$D/$S/s087_line8194.conf"
printf 'before=0\n%s=v\nafter=1\n' "$v8192" > "$D/$S/s088_key8192.conf"
printf '#%s\nk=1 #%s\n# short\nj=2\n' "$v8200" "$v8192" > "$D/$S/s089_comment8200.conf"
printf '[%s]\nk=1\n[s]\nj=2\n' "$(rep S 9000)" > "$D/$S/s090_section9000.conf"
printf 'k=%s\n[s]\nj="%s"\n' "$(rep V 70000)" "$(rep Q 20000)" > "$D/$S/s091_value70000.conf"
{
    printf 'k=first\n'
    for i in $(seq 1 40); do printf '   continuation line %03d # c%03d\n' "$i" "$i"; done
    printf 'after=1\n'
} > "$D/$S/s092_multiline40.conf"
{
    for g in $(seq 1 12); do
        printf '[group%02d]\n' "$g"
        for k in $(seq 1 10); do printf 'key%02d=value-%02d-%02d\n' "$k" "$g" "$k"; done
    done
} > "$D/$S/s093_many_keys.conf"
{
    for i in $(seq 1 120); do printf '# comment line %03d %s\n' "$i" "$(rep c 20)"; done
    printf 'k=1\n'
} > "$D/$S/s094_comment_lines120.conf"
{
    for g in $(seq 1 50); do printf '[g%02d]\nk=%d\n' "$g" "$g"; done
} > "$D/$S/s095_groups50.conf"
printf 'k=%s' "$v8191" > "$D/$S/s096_long_no_nl.conf"
printf '[sec\n' | cat - <(rep b 9000) > "$D/$S/s097_bracket_long_tail.conf"
printf 'a=1\n\n%s %s\n' "$(rep m 5000)" "$(rep n 5000)" > "$D/$S/s098_missing_delim_long.conf"

###########################################################################
# 2. layered trees: <tree>/usr/etc (vendor), <tree>/run, <tree>/etc
###########################################################################
T=trees
mk3() { mkdir -p "$D/$T/$1/usr/etc" "$D/$T/$1/run" "$D/$T/$1/etc"; }

t=t01_vendor_only; mk3 $t
w $T/$t/usr/etc/ex.conf 'a=vendor\nb=vendor\n[s]\nk=vendor\n'

t=t02_etc_only; mk3 $t
w $T/$t/etc/ex.conf 'a=etc\n[s]\nk=etc\n'

t=t03_run_only; mk3 $t
w $T/$t/run/ex.conf 'a=run\n[s]\nk=run\n'

t=t04_all_three; mk3 $t
w $T/$t/usr/etc/ex.conf 'a=vendor\nv=only-vendor\n[s]\nk=vendor\n'
w $T/$t/run/ex.conf 'a=run\nr=only-run\n[s]\nk=run\n'
w $T/$t/etc/ex.conf 'a=etc\ne=only-etc\n[s]\nk=etc\n'

t=t05_vendor_run; mk3 $t
w $T/$t/usr/etc/ex.conf 'a=vendor\nv=only-vendor\n'
w $T/$t/run/ex.conf 'a=run\nr=only-run\n'

t=t06_dropins_only; mk3 $t
w $T/$t/usr/etc/ex.conf.d/10-a.conf 'a=u10\nu=1\n'
w $T/$t/etc/ex.conf.d/20-b.conf 'a=e20\ne=1\n'

t=t07_nothing; mk3 $t

t=t08_dropins_each_layer; mk3 $t
w $T/$t/usr/etc/ex.conf 'a=main\nb=main\nc=main\nd=main\n[s]\nk=main\n'
w $T/$t/usr/etc/ex.conf.d/10-a.conf 'a=u10\n[s]\nk=u10\nnew=u10\n'
w $T/$t/usr/etc/ex.conf.d/50-m.conf 'b=u50\na=u50\n'
w $T/$t/run/ex.conf.d/20-b.conf 'c=r20\na=r20\n'
w $T/$t/etc/ex.conf.d/30-c.conf 'd=e30\n[t]\nz=e30\n'
w $T/$t/etc/ex.conf.d/05-early.conf 'a=e05\nearly=1\n'

t=t09_same_named_dropins; mk3 $t
w $T/$t/usr/etc/ex.conf 'a=main\nx=main\n'
w $T/$t/usr/etc/ex.conf.d/50-x.conf 'x=u50\nonly_u50=1\n'
w $T/$t/usr/etc/ex.conf.d/10-u.conf 'u=u10\n'
w $T/$t/run/ex.conf.d/50-x.conf 'x=r50\nonly_r50=1\n'
w $T/$t/etc/ex.conf.d/50-x.conf 'x=e50\nonly_e50=1\n'
w $T/$t/etc/ex.conf.d/60-y.conf 'y=e60\n'

t=t10_empty_main_etc; mk3 $t
w $T/$t/usr/etc/ex.conf 'a=vendor\nb=vendor\n'
w $T/$t/usr/etc/ex.conf.d/10-a.conf 'b=u10\n'
w $T/$t/etc/ex.conf ''

t=t11_devnull_main; mk3 $t
w $T/$t/usr/etc/ex.conf 'a=vendor\n'
w $T/$t/run/ex.conf 'a=run\n'
ln -s /dev/null "$D/$T/$t/etc/ex.conf"
w $T/$t/usr/etc/ex.conf.d/10-a.conf 'b=u10\n'

t=t12_devnull_dropin; mk3 $t
w $T/$t/usr/etc/ex.conf 'a=main\n'
w $T/$t/usr/etc/ex.conf.d/50-x.conf 'a=u50\nmasked=1\n'
w $T/$t/usr/etc/ex.conf.d/60-y.conf 'y=u60\n'
mkdir -p "$D/$T/$t/etc/ex.conf.d"
ln -s /dev/null "$D/$T/$t/etc/ex.conf.d/50-x.conf"

t=t13_symlinks; mk3 $t
w $T/$t/shared/real.conf 'l=linked\na=linked\n'
w $T/$t/shared/main.conf 'a=linked-main\nm=1\n'
ln -s ../../shared/main.conf "$D/$T/$t/usr/etc/ex.conf"
mkdir -p "$D/$T/$t/etc/ex.conf.d" "$D/$T/$t/run/ex.conf.d"
ln -s ../../shared/real.conf "$D/$T/$t/etc/ex.conf.d/60-l.conf"
ln -s "$D/$T/$t/shared/real.conf" "$D/$T/$t/run/ex.conf.d/40-abs.conf"

t=t14_dangling_dropin; mk3 $t
w $T/$t/usr/etc/ex.conf 'a=main\n'
w $T/$t/etc/ex.conf.d/10-ok.conf 'a=e10\n'
ln -s nonexistent-target "$D/$T/$t/etc/ex.conf.d/70-d.conf"

t=t15_dir_as_main; mk3 $t
w $T/$t/usr/etc/ex.conf 'a=vendor\n'
mkdir -p "$D/$T/$t/etc/ex.conf"
w $T/$t/usr/etc/ex.conf.d/10-a.conf 'b=u10\n'

t=t16_dir_as_dropin; mk3 $t
w $T/$t/usr/etc/ex.conf 'a=vendor\n'
mkdir -p "$D/$T/$t/usr/etc/ex.conf.d/10-dir.conf"
w $T/$t/usr/etc/ex.conf.d/10-dir.conf/inner.conf 'inner=1\n'
w $T/$t/usr/etc/ex.conf.d/20-b.conf 'b=u20\n'

t=t17_file_as_dropindir; mk3 $t
w $T/$t/usr/etc/ex.conf 'a=vendor\n'
w $T/$t/etc/ex.conf.d 'this=is-a-file\n'
w $T/$t/run/ex.conf.d/20-b.conf 'b=r20\n'

t=t18_malformed_main; mk3 $t
w $T/$t/usr/etc/ex.conf 'a=vendor\n'
w $T/$t/etc/ex.conf 'a=etc\n[sec\nb=1\n'
w $T/$t/usr/etc/ex.conf.d/10-a.conf 'b=u10\n'

t=t19_malformed_first_dropin; mk3 $t
w $T/$t/usr/etc/ex.conf 'a=vendor\n'
w $T/$t/usr/etc/ex.conf.d/10-bad.conf 'x=1\n\nno delimiter here\n'
w $T/$t/usr/etc/ex.conf.d/20-ok.conf 'b=u20\n'
w $T/$t/etc/ex.conf.d/30-ok.conf 'c=e30\n'

t=t20_malformed_middle_dropin; mk3 $t
w $T/$t/usr/etc/ex.conf 'a=vendor\n'
w $T/$t/usr/etc/ex.conf.d/10-ok.conf 'b=u10\n'
w $T/$t/run/ex.conf.d/20-bad.conf 'x=1\n[]\ny=2\n'
w $T/$t/etc/ex.conf.d/30-ok.conf 'c=e30\n'

t=t21_malformed_last_dropin; mk3 $t
w $T/$t/usr/etc/ex.conf 'a=vendor\n'
w $T/$t/usr/etc/ex.conf.d/10-ok.conf 'b=u10\n'
w $T/$t/etc/ex.conf.d/30-ok.conf 'c=e30\n'
w $T/$t/etc/ex.conf.d/90-bad.conf 'x=1\ny=2\nz=3\n[sec] trailing\n'

t=t22_suffix_filter; mk3 $t
w $T/$t/usr/etc/ex.conf 'a=main\n'
w $T/$t/usr/etc/ex.conf.d/a.conf 'f_a_conf=1\n'
w $T/$t/usr/etc/ex.conf.d/b.txt 'f_b_txt=1\n'
w $T/$t/usr/etc/ex.conf.d/c.conf.bak 'f_c_bak=1\n'
w $T/$t/usr/etc/ex.conf.d/.conf 'f_dotconf=1\n'
w $T/$t/usr/etc/ex.conf.d/x.confx 'f_confx=1\n'
w $T/$t/usr/etc/ex.conf.d/dconf 'f_dconf=1\n'
w $T/$t/usr/etc/ex.conf.d/.hidden.conf 'f_hidden=1\n'
w $T/$t/usr/etc/ex.conf.d/e.CONF 'f_upper=1\n'
w $T/$t/usr/etc/ex.conf.d/f.conf.conf 'f_double=1\n'

t=t23_name_d; mk3 $t
w $T/$t/usr/etc/ex.conf 'a=main\n'
w $T/$t/usr/etc/ex 'a=plainfile-no-suffix\n'
w $T/$t/usr/etc/ex.conf.d/10-a.conf 'from_conf_d=1\na=conf.d\n'
w $T/$t/usr/etc/ex.d/20-b.conf 'from_d=1\na=d\n'
w $T/$t/etc/ex/30-c.conf 'from_slash=1\na=slash\n'
w $T/$t/etc/ex.d/10-a.conf 'from_etc_d=1\n'
w $T/$t/etc/exconf.d/40-d.conf 'from_exconf_d=1\n'

t=t24_groups; mk3 $t
w $T/$t/usr/etc/ex.conf 'top=main\n[one]\na=main\nb=main\n[two]\nc=main\n[one]\nd=main-reopened\n'
w $T/$t/usr/etc/ex.conf.d/10-a.conf '[two]\nc=u10\nnew2=u10\n[three]\nx=u10\n'
w $T/$t/run/ex.conf.d/20-b.conf 'top=r20\ngl=r20\n[one]\nb=r20\n'
w $T/$t/etc/ex.conf.d/30-c.conf '[four]\ny=e30\n[one]\na=e30\n[four]\nz=e30\n'

t=t25_project; mk3 $t
w $T/$t/usr/etc/prj/ex.conf 'a=vendor\nv=1\n'
w $T/$t/usr/etc/prj/ex.conf.d/10-a.conf 'a=u10\n'
w $T/$t/run/prj/ex.conf 'a=run\nr=1\n'
w $T/$t/etc/prj/ex.conf.d/30-c.conf 'c=e30\n'
w $T/$t/etc/ex.conf 'wrong=not-in-project\n'

t=t26_project_d; mk3 $t
w $T/$t/usr/etc/prj.d/a.conf 'a=usr-a\nu=1\n'
w $T/$t/run/prj.d/b.conf 'a=run-b\nr=1\n'
w $T/$t/etc/prj.d/c.conf 'a=etc-c\ne=1\n'
w $T/$t/etc/prj.d/a.conf 'a=etc-a\n'
w $T/$t/etc/prj.d/ignored.txt 'ignored=1\n'
w $T/$t/usr/etc/prj/ex.conf 'inproject=1\n'

t=t27_no_suffix; mk3 $t
w $T/$t/usr/etc/ex 'a=vendor\n'
w $T/$t/etc/ex 'a=etc\nb=etc\n'
w $T/$t/usr/etc/ex.d/10-any 'c=u10\n'
w $T/$t/etc/ex.d/20-any.conf 'd=e20\n'

t=t28_join_python; mk3 $t
w $T/$t/usr/etc/ex.conf 'a=1\na=2\n[s]\nk = v1\n   v2 = x\nk = v3\n'
w $T/$t/usr/etc/ex.conf.d/10-a.conf 'a=3\na=\na=4\n[s]\nj=1 # c\n'
w $T/$t/etc/ex.conf.d/20-b.conf 'b=1\nb=2\n'

t=t29_sorting; mk3 $t
w $T/$t/usr/etc/ex.conf 'o=main\n'
for n in 10-a 9-b A a _x 10-a~ 100 Z-last 1; do
    w $T/$t/usr/etc/ex.conf.d/$n.conf "o=$n\nseen_$n=1\n"
done

t=t30_other_chars; mk3 $t
w $T/$t/usr/etc/ex.conf '; vendor comment\na: vendor\nb : vendor ; trailing\n[s]\nk: v\n'
w $T/$t/usr/etc/ex.conf.d/10-a.conf '; drop\nb: u10\n'
w $T/$t/etc/ex.conf.d/20-b.conf 'c: e20 # not a comment here\n'

t=t31_same_basename; mk3 $t
w $T/$t/usr/etc/ex.conf 'a=main\nmainonly=1\n'
w $T/$t/etc/ex.conf.d/ex.conf 'a=dropin-named-like-main\n'
w $T/$t/etc/ex.conf.d/10-a.conf 'b=e10\n'

t=t32_many_dropins; mk3 $t
w $T/$t/usr/etc/ex.conf 'a=main\n'
for l in usr/etc run etc; do
    for i in $(seq 10 39); do
        w $T/$t/$l/ex.conf.d/$i-${l##*/}.conf "a=$l-$i\nk$i=$l\n[g$((i % 4))]\nv=$l-$i\n"
    done
done

t=t33_empty_dropins; mk3 $t
w $T/$t/usr/etc/ex.conf 'a=main\n[s]\nk=1\n'
w $T/$t/usr/etc/ex.conf.d/10-empty.conf ''
w $T/$t/usr/etc/ex.conf.d/20-comments.conf '# nothing\n\n# here\n'
w $T/$t/etc/ex.conf.d/30-section-only.conf '[s]\n[new]\n'
w $T/$t/etc/ex.conf.d/40-real.conf 'b=e40\n'

t=t34_multiline_layers; mk3 $t
w $T/$t/usr/etc/ex.conf '# lead\na=l1 # c1\n  l2\nb="q v" # cq\n[s]\nk=1\n'
w $T/$t/etc/ex.conf.d/10-a.conf '# over\na=o1\n  o2 # oc\n[s]\n# kc\nk=\n'

t=t35_run_main_etc_dropins; mk3 $t
w $T/$t/usr/etc/ex.conf 'a=vendor\nvendoronly=1\n'
w $T/$t/run/ex.conf 'a=run\n'
w $T/$t/etc/ex.conf.d/10-a.conf 'b=e10\n'
w $T/$t/usr/etc/ex.conf.d/10-a.conf 'b=u10\nmasked=1\n'

t=t36_long_names; mk3 $t
ln=$(rep n 240)
w $T/$t/usr/etc/ex.conf 'a=main\n'
w $T/$t/usr/etc/ex.conf.d/10-$ln.conf 'long=u\n'
w $T/$t/etc/ex.conf.d/10-$ln.conf 'long=e\n'
w $T/$t/etc/ex.conf.d/20-$ln.conf 'long2=e\n'

###########################################################################
# 3. security settings
###########################################################################
w sec/plain.conf 'a=plain\n'
w sec/priv.conf 'a=priv\n'; chmod 600 "$D/sec/priv.conf"
w sec/other.conf 'a=other\n'; chown 12345:12345 "$D/sec/other.conf" 2>/dev/null || true
w sec/othergroup.conf 'a=othergroup\n'; chgrp 12346 "$D/sec/othergroup.conf" 2>/dev/null || true
ln -s plain.conf "$D/sec/link.conf"
ln -s priv.conf "$D/sec/linkpriv.conf"
w sec/dir700/inner.conf 'a=inner700\n'; chmod 700 "$D/sec/dir700"
w sec/dir755/inner.conf 'a=inner755\n'
w sec/tree/usr/etc/ex.conf 'a=main\n'
w sec/tree/usr/etc/ex.conf.d/10-a.conf 'b=u10\n'
mkdir -p "$D/sec/tree/etc/ex.conf.d"
ln -s ../../usr/etc/ex.conf.d/10-a.conf "$D/sec/tree/etc/ex.conf.d/20-link.conf"
w sec/tree2/usr/etc/ex.conf 'a=main\n'
w sec/tree2/etc/ex.conf.d/10-a.conf 'b=e10\n'
w sec/tree2/etc/ex.conf.d/20-other.conf 'c=e20\n'; chown 12345:12345 "$D/sec/tree2/etc/ex.conf.d/20-other.conf" 2>/dev/null || true

###########################################################################
# 4. long paths: absolute path length exactly 4000 / 4095 / 4096
###########################################################################
mklong() { # <name> <total absolute length of the file path>
    local name=$1 total=$2 base="$D/longpath/$1" tail="/f.conf"
    local need=$(( total - ${#base} - ${#tail} )) path="$D/longpath/$1" n
    while [ $need -gt 0 ]; do
        n=$(( need - 1 ))   # one byte for the slash
        if [ $n -gt 200 ]; then n=200; fi
        path="$path/$(rep p "$n")"
        need=$(( need - 1 - n ))
    done
    mkdir -p "$path"
    printf 'a=long-%s\n[s]\nk=1\n' "$name" > "$path$tail"
    printf '%s%s\n' "${path#"$D"/}" "$tail" >> "$D/longpath/list"
}
: > "$D/longpath/list"
mklong p4000 4000
mklong p4095 4095
cd "$D"

###########################################################################
# 5. misc
###########################################################################
w misc/rel.conf 'a=relative\n[s]\nk=1\n'
w misc/afile 'not=a-directory\n'
mkdir -p "$D/misc/adir.conf" "$D/misc/outdir"
w misc/zz-econfdrv-9k3/ex.conf 'a=second-call\n'
w misc/second/zz-econfdrv-9k3/ex.conf 'a=usr-second\nb=1\n'
w misc/second/zz-econfdrv-9k3/ex.conf.d/10-a.conf 'b=dropin\n'

###########################################################################
# 6. trees for econftool edit / revert (copied to a work dir by run.sh)
###########################################################################
w tool/edit1/usr/etc/zz-econfdrv-9k3.conf 'a=vendor\n[s]\nk=1\n'
w tool/edit1/usr/etc/zz-econfdrv-9k3.conf.d/10-a.conf 'b=u10\n'
mkdir -p "$D/tool/edit1/etc"
w tool/edit2/etc/zz-econfdrv-9k3.conf 'a=etc\n'
mkdir -p "$D/tool/edit2/usr/etc"
mkdir -p "$D/tool/edit3/usr/etc" "$D/tool/edit3/etc"
cat > "$D/tool/append-editor.sh" <<'EOF'
#!/bin/sh
printf 'zz_added=1\n[zsec]\nnewkey=edited\n' >> "$1"
EOF
cat > "$D/tool/break-editor.sh" <<'EOF'
#!/bin/sh
printf '[broken\n' >> "$1"
EOF
chmod 755 "$D/tool/append-editor.sh" "$D/tool/break-editor.sh"

echo "generated: $(find "$D/single" -type f | wc -l) single files, $(ls "$D/trees" | wc -l) trees"
