#!/bin/bash
# build.sh <library-source-root> <output-binary>
# Compiles driver.c together with <root>/lib/*.c, and <root>/util/econftool.c
# together with <root>/lib/*.c into <output-binary>-econftool.
set -e
set -u
if [ $# -ne 2 ]; then
    echo "usage: $0 <library-source-root> <output-binary>" >&2
    exit 2
fi
ROOT=$1
OUT=$2
HERE=$(cd "$(dirname "$0")" && pwd -P)
CC=${CC:-cc}
FLAGS="-g -O1 -fsanitize=address,undefined -fno-sanitize-recover=undefined -D_GNU_SOURCE -I$ROOT/include -I$ROOT/lib"

$CC $FLAGS -Wno-deprecated-declarations -o "$OUT" "$HERE/driver.c" "$ROOT"/lib/*.c -lpthread -lm &
p1=$!
$CC $FLAGS -Wno-deprecated-declarations -o "$OUT-econftool" "$ROOT/util/econftool.c" "$ROOT"/lib/*.c -lm &
p2=$!
rc=0
wait $p1 || rc=$?
wait $p2 || rc=$?
exit $rc
